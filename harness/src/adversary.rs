//! Adversarial I/O endpoints shared by the I/O-behaviour properties (C12, C13, C14, C16):
//! scheduled/short/interrupting readers, scripted failing/short-writing sinks, and their
//! tokio async twins (partial transfers, `Pending` with immediate wake).
use crate::common::Rng;
use std::io::{self, ErrorKind, Read, Seek, SeekFrom, Write};
use std::pin::Pin;
use std::task::{Context, Poll};

#[derive(Clone, Copy, Debug, PartialEq, Eq)]
pub enum Delivery {
    /// deliver at most `n` bytes (n >= 1)
    Chunk(usize),
    /// return ErrorKind::Interrupted once
    Interrupted,
}

/// A reader over an in-memory byte string that follows a finite delivery schedule; once the
/// schedule is exhausted it falls back to `fallback` bytes per call (usize::MAX = whatever is asked).
pub struct SchedReader {
    pub data: Vec<u8>,
    pub pos: usize,
    pub sched: std::collections::VecDeque<Delivery>,
    pub fallback: usize,
    pub calls: usize,
}

impl SchedReader {
    pub fn new(data: Vec<u8>, sched: Vec<Delivery>, fallback: usize) -> Self {
        Self { data, pos: 0, sched: sched.into(), fallback: fallback.max(1), calls: 0 }
    }
    pub fn one_byte(data: Vec<u8>) -> Self {
        Self::new(data, vec![], 1)
    }
    pub fn plain(data: Vec<u8>) -> Self {
        Self::new(data, vec![], usize::MAX)
    }
}

impl Read for SchedReader {
    fn read(&mut self, buf: &mut [u8]) -> io::Result<usize> {
        self.calls += 1;
        if buf.is_empty() {
            return Ok(0);
        }
        let limit = match self.sched.pop_front() {
            Some(Delivery::Interrupted) => return Err(io::Error::from(ErrorKind::Interrupted)),
            Some(Delivery::Chunk(n)) => n.max(1),
            None => self.fallback,
        };
        let n = limit.min(buf.len()).min(self.data.len() - self.pos);
        buf[..n].copy_from_slice(&self.data[self.pos..self.pos + n]);
        self.pos += n;
        Ok(n)
    }
}

impl Seek for SchedReader {
    fn seek(&mut self, pos: SeekFrom) -> io::Result<u64> {
        let new = match pos {
            SeekFrom::Start(n) => n as i64,
            SeekFrom::End(n) => self.data.len() as i64 + n,
            SeekFrom::Current(n) => self.pos as i64 + n,
        };
        if new < 0 {
            return Err(io::Error::from(ErrorKind::InvalidInput));
        }
        self.pos = (new as usize).min(self.data.len());
        Ok(new as u64)
    }
}

/// Named schedule families. `boundaries` are structure offsets of the file (block / record /
/// line ends): splits are placed at, just before and just after them.
pub fn schedule(rng: &mut Rng, kind: usize, len: usize, boundaries: &[usize]) -> (Vec<Delivery>, usize, String) {
    match kind % 7 {
        0 => (vec![], 1, "one-byte".into()),
        1 => (vec![], 2, "two-byte".into()),
        2 => (vec![], 7, "seven-byte".into()),
        3 => {
            // random short reads with a FINITE number of interruptions
            let mut s = vec![];
            let mut budget = len + 16;
            let mut intr = 1 + rng.below(6);
            while budget > 0 {
                if intr > 0 && rng.chance(1, 5) {
                    s.push(Delivery::Interrupted);
                    intr -= 1;
                } else {
                    let n = 1 + rng.below(40) as usize;
                    s.push(Delivery::Chunk(n));
                    budget = budget.saturating_sub(n);
                }
            }
            (s, usize::MAX, "random-short+interrupted".into())
        }
        4 => {
            // splits aligned to structure boundaries
            let mut s = vec![];
            let mut at = 0usize;
            for &b in boundaries {
                if b > at {
                    s.push(Delivery::Chunk(b - at));
                    at = b;
                }
            }
            (s, usize::MAX, "boundary-aligned".into())
        }
        5 => {
            // splits straddling structure boundaries by one byte either way
            let mut s = vec![];
            let mut at = 0usize;
            for &b in boundaries {
                let cut = if rng.chance(1, 2) { b.saturating_sub(1) } else { b + 1 };
                if cut > at && cut < len {
                    s.push(Delivery::Chunk(cut - at));
                    at = cut;
                }
            }
            (s, usize::MAX, "boundary-straddling".into())
        }
        _ => {
            // an interruption before every one of the first k calls
            let k = 1 + rng.below(12) as usize;
            let mut s = vec![];
            for _ in 0..k {
                s.push(Delivery::Interrupted);
                s.push(Delivery::Chunk(1 + rng.below(5000) as usize));
            }
            (s, usize::MAX, "interrupted-first-calls".into())
        }
    }
}

// ------------------------------------------------------------------ sinks

#[derive(Clone, Copy, Debug)]
pub enum SinkStep {
    /// accept at most n bytes of this write (short write), n >= 1
    Accept(usize),
    Interrupted,
}

/// A sink that records accepted bytes, follows a script of short writes / interruptions, and
/// fails (forever) from the `fail_at`-th write-or-flush call on with the given kind.
pub struct ScriptSink {
    pub accepted: Vec<u8>,
    pub script: std::collections::VecDeque<SinkStep>,
    pub fallback: usize,
    pub calls: usize,
    pub fail_at: Option<(usize, ErrorKind)>,
    /// only the `fail_at`-th call fails; the sink then recovers
    pub fail_once: bool,
    pub failed: bool,
}

impl ScriptSink {
    pub fn new(script: Vec<SinkStep>, fallback: usize, fail_at: Option<(usize, ErrorKind)>) -> Self {
        Self { accepted: vec![], script: script.into(), fallback: fallback.max(1), calls: 0, fail_at, fail_once: false, failed: false }
    }
    pub fn plain() -> Self {
        Self::new(vec![], usize::MAX, None)
    }
    fn check_fail(&mut self) -> io::Result<()> {
        let i = self.calls;
        self.calls += 1;
        if let Some((k, kind)) = self.fail_at {
            if i == k || (i > k && !self.fail_once) {
                self.failed = true;
                return Err(io::Error::new(kind, "scripted sink failure"));
            }
        }
        Ok(())
    }
}

impl Write for ScriptSink {
    fn write(&mut self, buf: &[u8]) -> io::Result<usize> {
        self.check_fail()?;
        if buf.is_empty() {
            return Ok(0);
        }
        let limit = match self.script.pop_front() {
            Some(SinkStep::Interrupted) => return Err(io::Error::from(ErrorKind::Interrupted)),
            Some(SinkStep::Accept(n)) => n.max(1),
            None => self.fallback,
        };
        let n = limit.min(buf.len());
        self.accepted.extend_from_slice(&buf[..n]);
        Ok(n)
    }
    fn flush(&mut self) -> io::Result<()> {
        self.check_fail()
    }
}

/// A cloneable handle so the accepted bytes survive a writer that consumes/drops its sink.
#[derive(Clone)]
pub struct SharedSink(pub std::sync::Arc<std::sync::Mutex<ScriptSink>>);

impl SharedSink {
    pub fn new(s: ScriptSink) -> Self {
        Self(std::sync::Arc::new(std::sync::Mutex::new(s)))
    }
    pub fn accepted(&self) -> Vec<u8> {
        self.0.lock().unwrap().accepted.clone()
    }
    pub fn calls(&self) -> usize {
        self.0.lock().unwrap().calls
    }
    pub fn failed(&self) -> bool {
        self.0.lock().unwrap().failed
    }
}

impl Write for SharedSink {
    fn write(&mut self, buf: &[u8]) -> io::Result<usize> {
        self.0.lock().unwrap().write(buf)
    }
    fn flush(&mut self) -> io::Result<()> {
        self.0.lock().unwrap().flush()
    }
}

// ------------------------------------------------------------------ async twins

#[derive(Clone, Copy, Debug)]
pub enum Poll1 {
    /// transfer at most n bytes
    Ready(usize),
    /// return Pending once (waking immediately)
    Pending,
}

pub struct AsyncSchedReader {
    pub data: Vec<u8>,
    pub pos: usize,
    pub sched: std::collections::VecDeque<Poll1>,
    pub fallback: usize,
}

impl AsyncSchedReader {
    pub fn new(data: Vec<u8>, sched: Vec<Poll1>, fallback: usize) -> Self {
        Self { data, pos: 0, sched: sched.into(), fallback: fallback.max(1) }
    }
}

impl tokio::io::AsyncRead for AsyncSchedReader {
    fn poll_read(mut self: Pin<&mut Self>, cx: &mut Context<'_>, buf: &mut tokio::io::ReadBuf<'_>) -> Poll<io::Result<()>> {
        let limit = match self.sched.pop_front() {
            Some(Poll1::Pending) => {
                cx.waker().wake_by_ref();
                return Poll::Pending;
            }
            Some(Poll1::Ready(n)) => n.max(1),
            None => self.fallback,
        };
        let n = limit.min(buf.remaining()).min(self.data.len() - self.pos);
        let pos = self.pos;
        buf.put_slice(&self.data[pos..pos + n]);
        self.pos += n;
        Poll::Ready(Ok(()))
    }
}

impl tokio::io::AsyncSeek for AsyncSchedReader {
    fn start_seek(mut self: Pin<&mut Self>, position: SeekFrom) -> io::Result<()> {
        let new = match position {
            SeekFrom::Start(n) => n as i64,
            SeekFrom::End(n) => self.data.len() as i64 + n,
            SeekFrom::Current(n) => self.pos as i64 + n,
        };
        self.pos = (new.max(0) as usize).min(self.data.len());
        Ok(())
    }
    fn poll_complete(self: Pin<&mut Self>, _: &mut Context<'_>) -> Poll<io::Result<u64>> {
        Poll::Ready(Ok(self.pos as u64))
    }
}

pub struct AsyncScriptSink {
    pub accepted: std::sync::Arc<std::sync::Mutex<Vec<u8>>>,
    pub sched: std::collections::VecDeque<Poll1>,
    pub fallback: usize,
}

impl AsyncScriptSink {
    pub fn new(sched: Vec<Poll1>, fallback: usize) -> (Self, std::sync::Arc<std::sync::Mutex<Vec<u8>>>) {
        let acc = std::sync::Arc::new(std::sync::Mutex::new(vec![]));
        (Self { accepted: acc.clone(), sched: sched.into(), fallback: fallback.max(1) }, acc)
    }
}

impl tokio::io::AsyncWrite for AsyncScriptSink {
    fn poll_write(mut self: Pin<&mut Self>, cx: &mut Context<'_>, buf: &[u8]) -> Poll<io::Result<usize>> {
        let limit = match self.sched.pop_front() {
            Some(Poll1::Pending) => {
                cx.waker().wake_by_ref();
                return Poll::Pending;
            }
            Some(Poll1::Ready(n)) => n.max(1),
            None => self.fallback,
        };
        let n = limit.min(buf.len());
        self.accepted.lock().unwrap().extend_from_slice(&buf[..n]);
        Poll::Ready(Ok(n))
    }
    fn poll_flush(mut self: Pin<&mut Self>, cx: &mut Context<'_>) -> Poll<io::Result<()>> {
        if let Some(Poll1::Pending) = self.sched.front().copied() {
            self.sched.pop_front();
            cx.waker().wake_by_ref();
            return Poll::Pending;
        }
        Poll::Ready(Ok(()))
    }
    fn poll_shutdown(self: Pin<&mut Self>, _: &mut Context<'_>) -> Poll<io::Result<()>> {
        Poll::Ready(Ok(()))
    }
}

pub fn poll_schedule(rng: &mut Rng, kind: usize, len: usize) -> (Vec<Poll1>, usize, String) {
    match kind % 4 {
        0 => (vec![], 1, "one-byte".into()),
        1 => {
            let mut s = vec![];
            let mut budget = len + 64;
            while budget > 0 {
                if rng.chance(1, 3) {
                    s.push(Poll1::Pending);
                } else {
                    let n = 1 + rng.below(50) as usize;
                    s.push(Poll1::Ready(n));
                    budget = budget.saturating_sub(n);
                }
            }
            (s, usize::MAX, "partial+pending".into())
        }
        2 => ((0..64).flat_map(|_| [Poll1::Pending, Poll1::Ready(1 + rng.below(4000) as usize)]).collect(), usize::MAX, "pending-before-every-poll".into()),
        _ => (vec![], 4096, "4k".into()),
    }
}

/// a single-threaded tokio runtime (current_thread), one per call
pub fn block_on<F: std::future::Future>(f: F) -> F::Output {
    tokio::runtime::Builder::new_current_thread().build().unwrap().block_on(f)
}
