#![allow(dead_code)]
//! nvh — noodles verification harness.
//!   nvh run <PROP> --seed S --tier quick|thorough --dir D      generate + correspondence answers + oracle
//!   nvh replay <PROP> --dir D <case…>                           re-run one oracle case
mod adversary;
mod common;
mod props;
use common::Ctx;

fn main() {
    let args: Vec<String> = std::env::args().collect();
    if args.len() < 3 {
        eprintln!("usage: nvh run|replay <PROP> [--seed S] [--tier T] [--dir D] [case…]");
        std::process::exit(2);
    }
    let mode = args[1].as_str();
    let prop = args[2].as_str();
    let mut seed = 1u64;
    let mut thorough = false;
    let mut dir = String::from("/verif/work/tmp");
    let mut rest = vec![];
    let mut i = 3;
    while i < args.len() {
        match args[i].as_str() {
            "--seed" => { seed = args[i + 1].parse().unwrap(); i += 2; }
            "--tier" => { thorough = args[i + 1] == "thorough"; i += 2; }
            "--dir" => { dir = args[i + 1].clone(); i += 2; }
            _ => { rest.push(args[i].clone()); i += 1; }
        }
    }
    // silence the default panic hook: panics are caught per case and reported by class
    if std::env::var("NVH_PANIC").is_err() {
        std::panic::set_hook(Box::new(|_| {}));
    }
    let mut ctx = Ctx::new(prop, seed, thorough);
    ctx.dir = dir.clone();
    if mode == "replay" {
        ctx.replay_only = Some(rest);
    }
    let known = props::dispatch(&mut ctx);
    if !known {
        eprintln!("unknown property {prop}");
        std::process::exit(2);
    }
    ctx.write_out(&dir).expect("write outputs");
    println!("requests={} oracle_evals={} failures={}", ctx.requests.len(), ctx.oracle_evals, ctx.failures.len());
}
