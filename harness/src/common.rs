//! Shared harness plumbing: PRNG, hex, the per-run context that collects
//! correspondence requests, implementation answers, oracle failures and stats.
use std::collections::BTreeMap;
use std::fmt::Write as _;
use std::io::Write as _;

#[derive(Clone)]
pub struct Rng(pub u64);
impl Rng {
    pub fn new(seed: u64) -> Self {
        let mut r = Rng(seed ^ 0x9E37_79B9_7F4A_7C15);
        for _ in 0..4 {
            r.next();
        }
        r
    }
    pub fn next(&mut self) -> u64 {
        // splitmix64
        self.0 = self.0.wrapping_add(0x9E37_79B9_7F4A_7C15);
        let mut z = self.0;
        z = (z ^ (z >> 30)).wrapping_mul(0xBF58_476D_1CE4_E5B9);
        z = (z ^ (z >> 27)).wrapping_mul(0x94D0_49BB_1331_11EB);
        z ^ (z >> 31)
    }
    pub fn below(&mut self, n: u64) -> u64 {
        if n == 0 { 0 } else { self.next() % n }
    }
    pub fn range(&mut self, lo: u64, hi: u64) -> u64 {
        lo + self.below(hi - lo + 1)
    }
    pub fn chance(&mut self, num: u64, den: u64) -> bool {
        self.below(den) < num
    }
    pub fn pick<'a, T>(&mut self, xs: &'a [T]) -> &'a T {
        &xs[self.below(xs.len() as u64) as usize]
    }
    pub fn bytes(&mut self, n: usize) -> Vec<u8> {
        (0..n).map(|_| self.next() as u8).collect()
    }
}

pub fn hex(b: &[u8]) -> String {
    if b.is_empty() {
        return "-".into();
    }
    let mut s = String::with_capacity(b.len() * 2);
    for x in b {
        let _ = write!(s, "{:02x}", x);
    }
    s
}
pub fn unhex(s: &str) -> Vec<u8> {
    if s == "-" {
        return vec![];
    }
    (0..s.len() / 2)
        .map(|i| u8::from_str_radix(&s[2 * i..2 * i + 2], 16).unwrap())
        .collect()
}

pub fn crc32(data: &[u8]) -> u32 {
    let mut c: u32 = 0xFFFF_FFFF;
    for &b in data {
        c ^= b as u32;
        for _ in 0..8 {
            c = if c & 1 != 0 { (c >> 1) ^ 0xEDB8_8320 } else { c >> 1 };
        }
    }
    !c
}

pub fn errclass(e: &std::io::Error) -> &'static str {
    use std::io::ErrorKind::*;
    match e.kind() {
        UnexpectedEof => "err:eof",
        InvalidData => "err:invalid-data",
        InvalidInput => "err:invalid-input",
        Interrupted => "err:interrupted",
        _ => "err:other",
    }
}

/// Run `f`, mapping a panic to Err(message).
pub fn guarded<T>(f: impl FnOnce() -> T) -> Result<T, String> {
    let r = std::panic::catch_unwind(std::panic::AssertUnwindSafe(f));
    r.map_err(|e| {
        if let Some(s) = e.downcast_ref::<String>() {
            s.clone()
        } else if let Some(s) = e.downcast_ref::<&str>() {
            s.to_string()
        } else {
            "panic".into()
        }
    })
}

pub struct Ctx {
    pub prop: String,
    pub seed: u64,
    pub tier_thorough: bool,
    pub rng: Rng,
    pub requests: Vec<String>,
    pub answers: Vec<String>,
    /// oracle failures: (class, human text, replay-case)
    pub failures: Vec<(String, String, String)>,
    pub oracle_evals: u64,
    pub nontrivial: std::collections::BTreeSet<u64>,
    pub hist: BTreeMap<String, u64>,
    pub samples: Vec<String>,
    pub replay_only: Option<Vec<String>>,
    /// work directory of this run (the `--dir` argument)
    pub dir: String,
}

impl Ctx {
    pub fn new(prop: &str, seed: u64, thorough: bool) -> Self {
        Ctx {
            prop: prop.into(),
            seed,
            tier_thorough: thorough,
            rng: Rng::new(seed),
            requests: vec![],
            answers: vec![],
            failures: vec![],
            oracle_evals: 0,
            nontrivial: Default::default(),
            hist: Default::default(),
            samples: vec![],
            replay_only: None,
            dir: String::from("/verif/work/tmp"),
        }
    }
    /// Number of cases for a suite: `q` in quick tier, `t` in thorough.
    pub fn n(&self, q: u64, t: u64) -> u64 {
        if self.tier_thorough { t } else { q }
    }
    /// Record one correspondence request and the implementation's canonical answer.
    pub fn corr(&mut self, req: String, ans: String) {
        debug_assert!(!req.contains('\n') && !ans.contains('\n'));
        self.requests.push(req);
        self.answers.push(ans);
    }
    pub fn bump(&mut self, key: &str) {
        *self.hist.entry(key.to_string()).or_insert(0) += 1;
    }
    pub fn bump_by(&mut self, key: &str, n: u64) {
        *self.hist.entry(key.to_string()).or_insert(0) += n;
    }
    /// Count one oracle evaluation; `nontrivial_key` is Some(hash) when the case is
    /// non-trivial by the suite's rule (distinctness is by the hash).
    pub fn eval(&mut self, nontrivial_key: Option<u64>) {
        self.oracle_evals += 1;
        if let Some(k) = nontrivial_key {
            if self.nontrivial.len() < 2_000_000 {
                self.nontrivial.insert(k);
            }
        }
    }
    pub fn sample(&mut self, s: impl FnOnce() -> String) {
        if self.samples.len() < 6 {
            let v = s();
            let v = if v.len() > 400 { format!("{}…", &v[..400]) } else { v };
            self.samples.push(v);
        }
    }
    /// Report an oracle failure. `class` is a stable identifier used to match known findings;
    /// `case` is a self-contained replay string (`<suite> <args>`), understood by `replay`.
    pub fn fail(&mut self, class: &str, text: String, case: String) {
        self.bump(&format!("oracle_fail:{class}"));
        let same = self.failures.iter().filter(|f| f.0 == class).count();
        if same < 8 && self.failures.len() < 200 {
            self.failures.push((class.into(), text, case));
        }
    }
    pub fn write_out(&self, dir: &str) -> std::io::Result<()> {
        std::fs::create_dir_all(dir)?;
        let mut f = std::io::BufWriter::new(std::fs::File::create(format!("{dir}/requests.txt"))?);
        for r in &self.requests {
            writeln!(f, "{r}")?;
        }
        f.flush()?;
        let mut f = std::io::BufWriter::new(std::fs::File::create(format!("{dir}/impl.txt"))?);
        for r in &self.answers {
            writeln!(f, "{r}")?;
        }
        f.flush()?;
        let mut f = std::io::BufWriter::new(std::fs::File::create(format!("{dir}/oracle.tsv"))?);
        for (c, t, k) in &self.failures {
            writeln!(f, "{}\t{}\t{}", c, t.replace(['\t', '\n'], " "), k.replace(['\t', '\n'], " "))?;
        }
        f.flush()?;
        let mut f = std::io::BufWriter::new(std::fs::File::create(format!("{dir}/stats.tsv"))?);
        writeln!(f, "oracle_evals\t{}", self.oracle_evals)?;
        writeln!(f, "distinct_nontrivial\t{}", self.nontrivial.len())?;
        for (k, v) in &self.hist {
            writeln!(f, "hist:{k}\t{v}")?;
        }
        for s in &self.samples {
            writeln!(f, "sample\t{}", s.replace(['\t', '\n'], " "))?;
        }
        f.flush()?;
        Ok(())
    }
}

pub fn fnv(data: &[u8]) -> u64 {
    let mut h: u64 = 0xcbf29ce484222325;
    for &b in data {
        h ^= b as u64;
        h = h.wrapping_mul(0x100000001b3);
    }
    h
}

/// user + system CPU seconds of a process, from /proc/<pid>/stat (fields 14 and 15, 100 ticks/s)
pub fn proc_cpu_secs(pid: u32) -> Option<f64> {
    let s = std::fs::read_to_string(format!("/proc/{pid}/stat")).ok()?;
    let rest = s.rsplit_once(") ")?.1;
    let f: Vec<&str> = rest.split(' ').collect();
    let ut: f64 = f.get(11)?.parse().ok()?;
    let st: f64 = f.get(12)?.parse().ok()?;
    Some((ut + st) / 100.0)
}
