//! C04, continued — span functions, the region filter, the unmapped seek and the record-level
//! composition (Lean: `Noodles/Span/*.lean`, theorems `Noodles/Props/C04Span.lean`).
//!
//! request words (after `c04`):
//!   aspan <start> <items>                       Record::alignment_span / alignment_end (trait defaults) on a
//!                                               test record whose CIGAR iterator may yield errors
//!   lazy <rid i32> <pos i32> <u32 words>        the same through a raw BAM record (bam::Record)
//!   buf <start> <ops>                           RecordBuf's INHERENT alignment_span / alignment_end
//!   vend <maj> <min> <start> <reflen> <END> <SVLEN> <LEN>   variant_end / variant_span (RecordBuf, or a lazy
//!                                               vcf::Record for an unparsable POS)
//!   isect bam|vcf|bcf|csi …                     the query iterators' filter, through the public query API on a
//!                                               one-record file and an index that covers everything
//!   lastfirst <kind> <ms> <d> <nref> <file> <end>   Indexer + last_first_record_start_position (synthetic files)
//!   unmapped  <kind> <ms> <d> <nref> <file> <end>   the same + Reader::query_unmapped on a real BAM
//!   qrecs <kind> <ms> <d> <records> <qrid> <qs> <qe>   Reader::query on a real BAM, records given by POS + CIGAR
//!   qfile <kind> <ms> <d> <file> <end> <q> <qs> <qe>   the same query against the whole file (global record ids)
//!   qvars <kind> <maj> <min> <ms> <d> <records> <qs> <qe>  Reader::query on a real VCF.gz / BCF
use crate::common::*;
use noodles_bam as bam;
use noodles_bcf as bcf;
use noodles_bgzf as bgzf;
use noodles_core::{region::Interval, Position, Region};
use noodles_csi::{
    self as csi,
    binning_index::{
        index::reference_sequence::{bin::Chunk, index::BinnedIndex, index::LinearIndex},
        BinningIndex, Indexer,
    },
};
use noodles_sam::{
    self as sam,
    alignment::{
        record::cigar::{op::Kind, Op},
        RecordBuf,
    },
};
use noodles_vcf as vcf;
use std::io::{self, Write as _};

use super::c04::{gen_records, GRec, Gen};

const USIZE_MAX: usize = usize::MAX;

const KINDS: [Kind; 9] = [
    Kind::Match,
    Kind::Insertion,
    Kind::Deletion,
    Kind::Skip,
    Kind::SoftClip,
    Kind::HardClip,
    Kind::Pad,
    Kind::SequenceMatch,
    Kind::SequenceMismatch,
];

fn kind_index(k: Kind) -> usize {
    KINDS.iter().position(|x| *x == k).unwrap()
}

/// the harness's own rule, independent of noodles: M D N = X consume the reference
fn consumes_ref_index(k: usize) -> bool {
    matches!(k, 0 | 2 | 3 | 7 | 8)
}

fn invalid_data() -> io::Error {
    io::Error::new(io::ErrorKind::InvalidData, "test error")
}

// ---------------------------------------------------------------- canonical forms

/// `Option<io::Result<T>>`
fn fmt_or<T: Into<usize>>(v: Option<io::Result<T>>) -> String {
    match v {
        None => "none".into(),
        Some(Ok(n)) => n.into().to_string(),
        Some(Err(e)) => errclass(&e).into(),
    }
}
fn fmt_res<T: Into<usize>>(v: io::Result<T>) -> String {
    match v {
        Ok(n) => n.into().to_string(),
        Err(e) => errclass(&e).into(),
    }
}
/// request word for an `Option<io::Result<T>>` argument
fn arg_or(v: &Option<Result<usize, ()>>) -> String {
    match v {
        None => "-".into(),
        Some(Ok(n)) => n.to_string(),
        Some(Err(())) => "e".into(),
    }
}
fn arg_items(items: &[Option<(usize, usize)>]) -> String {
    if items.is_empty() {
        return "-".into();
    }
    items
        .iter()
        .map(|it| match it {
            Some((k, l)) => format!("{k}:{l}"),
            None => "e".into(),
        })
        .collect::<Vec<_>>()
        .join(",")
}
fn arg_opt(v: Option<usize>) -> String {
    v.map(|n| n.to_string()).unwrap_or_else(|| "-".into())
}
fn fmt_ids(v: &[usize]) -> String {
    if v.is_empty() { "-".into() } else { v.iter().map(|x| x.to_string()).collect::<Vec<_>>().join(",") }
}

fn interval_of(q: (Option<usize>, Option<usize>)) -> Interval {
    let p = |n: usize| Position::try_from(n).unwrap();
    match q {
        (Some(s), Some(e)) => Interval::from(p(s)..=p(e)),
        (Some(s), None) => Interval::from(p(s)..),
        (None, Some(e)) => Interval::from(..=p(e)),
        (None, None) => Interval::from(..),
    }
}
fn region_of(name: &str, q: (Option<usize>, Option<usize>)) -> Region {
    Region::new(name, interval_of(q))
}

/// the property's own overlap rule on a closed span and optional region bounds
fn overlaps(s: usize, e: usize, q: (Option<usize>, Option<usize>)) -> bool {
    q.1.map(|qe| s <= qe).unwrap_or(true) && q.0.map(|qs| qs <= e).unwrap_or(true)
}

// ---------------------------------------------------------------- aspan: the trait defaults

/// a CIGAR view whose iterator may yield errors
struct TCigar(Vec<Option<(usize, usize)>>);

impl sam::alignment::record::Cigar for TCigar {
    fn is_empty(&self) -> bool {
        self.0.is_empty()
    }
    fn len(&self) -> usize {
        self.0.len()
    }
    fn iter(&self) -> Box<dyn Iterator<Item = io::Result<Op>> + '_> {
        Box::new(self.0.iter().map(|it| match it {
            Some((k, l)) => Ok(Op::new(KINDS[*k], *l)),
            None => Err(invalid_data()),
        }))
    }
}

/// a record of which only `alignment_start` and `cigar` matter; everything else is an empty RecordBuf
struct TRecord {
    base: RecordBuf,
    start: Option<Result<usize, ()>>,
    items: Vec<Option<(usize, usize)>>,
}

impl sam::alignment::Record for TRecord {
    fn name(&self) -> Option<&bstr::BStr> {
        None
    }
    fn flags(&self) -> io::Result<sam::alignment::record::Flags> {
        Ok(sam::alignment::record::Flags::empty())
    }
    fn reference_sequence_id<'r, 'h: 'r>(&'r self, _: &'h sam::Header) -> Option<io::Result<usize>> {
        None
    }
    fn alignment_start(&self) -> Option<io::Result<Position>> {
        match self.start {
            None => None,
            Some(Ok(n)) => Some(Ok(Position::try_from(n).unwrap())),
            Some(Err(())) => Some(Err(invalid_data())),
        }
    }
    fn mapping_quality(&self) -> Option<io::Result<sam::alignment::record::MappingQuality>> {
        None
    }
    fn cigar(&self) -> Box<dyn sam::alignment::record::Cigar + '_> {
        Box::new(TCigar(self.items.clone()))
    }
    fn mate_reference_sequence_id<'r, 'h: 'r>(&'r self, _: &'h sam::Header) -> Option<io::Result<usize>> {
        None
    }
    fn mate_alignment_start(&self) -> Option<io::Result<Position>> {
        None
    }
    fn template_length(&self) -> io::Result<i32> {
        Ok(0)
    }
    fn sequence(&self) -> Box<dyn sam::alignment::record::Sequence + '_> {
        Box::new(self.base.sequence())
    }
    fn quality_scores(&self) -> Box<dyn sam::alignment::record::QualityScores + '_> {
        Box::new(self.base.quality_scores())
    }
    fn data(&self) -> Box<dyn sam::alignment::record::Data<'_> + '_> {
        Box::new(self.base.data())
    }
}

fn aspan_case(ctx: &mut Ctx, start: Option<Result<usize, ()>>, items: Vec<Option<(usize, usize)>>, case: &str) {
    use sam::alignment::Record as _;
    let rec = TRecord { base: RecordBuf::default(), start: start.clone(), items: items.clone() };
    let got = guarded(|| (fmt_or(rec.alignment_span()), fmt_or(rec.alignment_end())));
    let ans = match &got {
        Ok((s, e)) => format!("span={s} end={e}"),
        Err(_) => "panic".into(),
    };
    ctx.corr(format!("c04 aspan {} {}", arg_or(&start), arg_items(&items)), ans.clone());
    // oracle: the specification, computed here with wide arithmetic
    ctx.eval(if items.len() >= 2 { Some(fnv(format!("aspan {case}").as_bytes())) } else { None });
    let has_err = items.iter().any(|i| i.is_none());
    let total: u128 = items.iter().flatten().filter(|(k, _)| consumes_ref_index(*k)).map(|(_, l)| *l as u128).sum();
    ctx.bump(match &start {
        None => "aspan_start_none",
        Some(Ok(_)) => "aspan_start_some",
        Some(Err(())) => "aspan_start_err",
    });
    ctx.bump(if has_err { "aspan_item_err" } else if total == 0 { "aspan_span_zero" } else if total > USIZE_MAX as u128 { "aspan_span_overflow" } else { "aspan_span_ok" });
    let want_span = if has_err || total > USIZE_MAX as u128 {
        "err:invalid-data".to_string()
    } else if total == 0 {
        "none".into()
    } else {
        total.to_string()
    };
    let want_end = match &start {
        None => "none".to_string(),
        Some(Err(())) => "err:invalid-data".into(),
        Some(Ok(s)) => {
            if has_err || total > USIZE_MAX as u128 {
                "err:invalid-data".into()
            } else {
                let e = *s as u128 + total.max(1) - 1;
                if e > USIZE_MAX as u128 {
                    ctx.bump("aspan_end_overflow");
                    "err:invalid-data".into()
                } else {
                    e.to_string()
                }
            }
        }
    };
    let want = format!("span={want_span} end={want_end}");
    if ans != want {
        ctx.fail("span-align", format!("alignment_span/alignment_end of start {:?}, CIGAR {} = [{ans}], specification (POS + sum of M/D/N/=/X lengths - 1, overflow an error) says [{want}]", start, arg_items(&items)), case.into());
    }
}

fn gen_len(rng: &mut Rng) -> usize {
    match rng.below(10) {
        0 => 0,
        1 => 1,
        2 => 1 + rng.below(300) as usize,
        3 => 1 + rng.below(1 << 28) as usize,
        4 => USIZE_MAX,
        5 => USIZE_MAX - rng.below(3) as usize,
        6 => (USIZE_MAX / 2) + rng.below(3) as usize,
        _ => 1 + rng.below(100_000) as usize,
    }
}

fn gen_items(rng: &mut Rng) -> Vec<Option<(usize, usize)>> {
    let n = match rng.below(6) {
        0 => 0,
        1 => 1,
        _ => 1 + rng.below(7) as usize,
    };
    let big = rng.chance(1, 4);
    let errs = rng.chance(1, 6);
    (0..n)
        .map(|_| {
            if errs && rng.chance(1, 3) {
                None
            } else {
                let k = rng.below(9) as usize;
                let l = if big { gen_len(rng) } else { 1 + rng.below(5000) as usize };
                Some((k, l))
            }
        })
        .collect()
}

fn gen_start(rng: &mut Rng) -> Option<Result<usize, ()>> {
    match rng.below(12) {
        0 => None,
        1 => Some(Err(())),
        2 => Some(Ok(USIZE_MAX)),
        3 => Some(Ok(USIZE_MAX - rng.below(4) as usize)),
        4 => Some(Ok(1)),
        _ => Some(Ok(1 + rng.below(1 << 29) as usize)),
    }
}

fn aspan_corpus(ctx: &mut Ctx) {
    let m = USIZE_MAX;
    let cases: Vec<(Option<Result<usize, ()>>, Vec<Option<(usize, usize)>>)> = vec![
        (Some(Ok(100)), vec![Some((4, 5)), Some((0, 10)), Some((1, 3)), Some((2, 20)), Some((0, 7)), Some((5, 2))]),
        (None, vec![Some((0, 5))]),
        (None, vec![None]),
        (Some(Err(())), vec![Some((0, 5))]),
        (Some(Ok(7)), vec![]),
        (Some(Ok(7)), vec![Some((4, 9)), Some((1, 2)), Some((5, 1)), Some((6, 3))]),
        (Some(Ok(7)), vec![Some((0, 0))]),
        (Some(Ok(7)), vec![Some((0, 3)), None, Some((0, 4))]),
        (Some(Ok(7)), vec![Some((0, m)), Some((0, 1)), None]),
        (Some(Ok(7)), vec![None, Some((0, m)), Some((0, 1))]),
        (Some(Ok(2)), vec![Some((0, m))]),
        (Some(Ok(1)), vec![Some((0, m))]),
        (Some(Ok(1)), vec![Some((0, m)), Some((0, 1))]),
        (Some(Ok(1)), vec![Some((1, m)), Some((4, m)), Some((7, m))]),
        (Some(Ok(m)), vec![Some((8, 1))]),
        (Some(Ok(m)), vec![Some((3, 2))]),
        (Some(Ok(m)), vec![]),
        (Some(Ok(5)), vec![Some((2, m / 2)), Some((3, m / 2)), Some((7, 1))]),
        (Some(Ok(5)), vec![Some((2, m / 2)), Some((3, m / 2)), Some((7, 2))]),
    ];
    for (i, (s, it)) in cases.into_iter().enumerate() {
        aspan_case(ctx, s, it, &format!("aspan-corpus {i}"));
    }
}

// ---------------------------------------------------------------- lazy: raw BAM records

/// one BAM record (with its `block_size` prefix) whose fixed fields and CIGAR words are given raw
fn raw_bam_record(rid: i32, pos: i32, flag: u16, name: &str, words: &[u32]) -> Vec<u8> {
    let mut b = vec![];
    b.extend_from_slice(&rid.to_le_bytes());
    b.extend_from_slice(&pos.to_le_bytes());
    b.push((name.len() + 1) as u8);
    b.push(0); // mapq
    b.extend_from_slice(&0u16.to_le_bytes()); // bin (not looked at by the readers)
    b.extend_from_slice(&(words.len() as u16).to_le_bytes());
    b.extend_from_slice(&flag.to_le_bytes());
    b.extend_from_slice(&0u32.to_le_bytes()); // l_seq
    b.extend_from_slice(&(-1i32).to_le_bytes());
    b.extend_from_slice(&(-1i32).to_le_bytes());
    b.extend_from_slice(&0i32.to_le_bytes());
    b.extend_from_slice(name.as_bytes());
    b.push(0);
    for w in words {
        b.extend_from_slice(&w.to_le_bytes());
    }
    let mut out = (b.len() as u32).to_le_bytes().to_vec();
    out.extend_from_slice(&b);
    out
}

fn read_raw_record(bytes: &[u8]) -> io::Result<bam::Record> {
    let mut rd = bam::io::Reader::from(bytes);
    let mut rec = bam::Record::default();
    rd.read_record(&mut rec)?;
    Ok(rec)
}

/// the real record's own view of its fields, as request arguments
fn view_or(v: Option<io::Result<usize>>) -> Option<Result<usize, ()>> {
    v.map(|r| r.map_err(|_| ()))
}
fn view_items(rec: &bam::Record) -> Vec<Option<(usize, usize)>> {
    rec.cigar().iter().map(|r| r.ok().map(|op| (kind_index(op.kind()), op.len()))).collect()
}

fn lazy_case(ctx: &mut Ctx, rid: i32, pos: i32, words: Vec<u32>, case: &str) {
    use sam::alignment::Record as _;
    let raw = raw_bam_record(rid, pos, 0, "q", &words);
    let got = guarded(|| -> io::Result<String> {
        let rec = read_raw_record(&raw)?;
        Ok(format!(
            "rid={} start={} span={} end={}",
            fmt_or(rec.reference_sequence_id()),
            fmt_or(rec.alignment_start()),
            fmt_or(rec.alignment_span()),
            fmt_or(rec.alignment_end())
        ))
    });
    let ans = match got {
        Ok(Ok(s)) => s,
        Ok(Err(e)) => errclass(&e).into(),
        Err(_) => "panic".into(),
    };
    let ws = if words.is_empty() { "-".to_string() } else { words.iter().map(|w| w.to_string()).collect::<Vec<_>>().join(",") };
    ctx.corr(format!("c04 lazy {rid} {pos} {ws}"), ans.clone());
    ctx.eval(if words.len() >= 2 { Some(fnv(format!("lazy {case}").as_bytes())) } else { None });
    ctx.bump(if rid == -1 { "lazy_rid_none" } else if rid < 0 { "lazy_rid_err" } else { "lazy_rid_some" });
    ctx.bump(if pos == -1 { "lazy_pos_none" } else if pos < 0 { "lazy_pos_err" } else { "lazy_pos_some" });
    let bad_kind = words.iter().any(|w| w & 0xf > 8);
    ctx.bump(if bad_kind { "lazy_bad_kind" } else { "lazy_kinds_ok" });
    // oracle: the specification on the raw words (a BAM record cannot overflow)
    let total: u64 = words.iter().filter(|w| consumes_ref_index((*w & 0xf) as usize)).map(|w| (w >> 4) as u64).sum();
    let want_end = if pos == -1 {
        "none".to_string()
    } else if pos < 0 || bad_kind {
        "err:invalid-data".into()
    } else {
        (pos as u64 + 1 + total.max(1) - 1).to_string()
    };
    let got_end = ans.rsplit("end=").next().unwrap_or("").to_string();
    if got_end != want_end {
        ctx.fail("span-align", format!("bam::Record pos {pos}, CIGAR words {ws}: alignment_end = {got_end}, specification says {want_end} ([{ans}])"), case.into());
    }
    // lazy = decoded: the same operations through RecordBuf (trait) give the same answers
    if !bad_kind && pos >= 0 {
        let ops: Vec<Op> = words.iter().map(|w| Op::new(KINDS[(w & 0xf) as usize], (w >> 4) as usize)).collect();
        let rb = RecordBuf::builder().set_alignment_start(Position::try_from(pos as usize + 1).unwrap()).set_cigar(ops.into_iter().collect()).build();
        let e2 = fmt_or(sam::alignment::Record::alignment_end(&rb));
        if e2 != got_end {
            ctx.fail("span-lazy-vs-buf", format!("pos {pos} CIGAR words {ws}: bam::Record says end {got_end}, RecordBuf (trait) says {e2}"), case.into());
        }
    }
}

fn gen_words(rng: &mut Rng) -> Vec<u32> {
    let n = match rng.below(8) {
        0 => 0,
        1 => 1,
        2 => 200 + rng.below(2000) as usize,
        _ => 1 + rng.below(8) as usize,
    };
    let hostile = rng.chance(1, 8);
    (0..n)
        .map(|_| {
            let kind = if hostile && rng.chance(1, 3) { 9 + rng.below(7) as u32 } else { rng.below(9) as u32 };
            let len = match rng.below(6) {
                0 => 0,
                1 => (1 << 28) - 1,
                2 => rng.below(1 << 28) as u32,
                _ => 1 + rng.below(500) as u32,
            };
            (len << 4) | kind
        })
        .collect()
}

fn lazy_corpus(ctx: &mut Ctx) {
    let maxw = ((1u32 << 28) - 1) << 4;
    let cases: Vec<(i32, i32, Vec<u32>)> = vec![
        (0, 99, vec![84, 160, 49, 322, 112, 37]),
        (-1, -1, vec![]),
        (-5, -7, vec![9]),
        (3, i32::MAX, vec![maxw, maxw | 2, maxw | 3, maxw | 7, maxw | 8]),
        (3, i32::MAX, vec![]),
        (0, 0, vec![(5 << 4) | 4, (3 << 4) | 5, (2 << 4) | 6, (1 << 4) | 1]),
        (0, 0, vec![0]),
        (0, 10, vec![(5 << 4), (5 << 4) | 15]),
        (0, 10, vec![(5 << 4) | 9, (5 << 4)]),
        (i32::MAX, 0, vec![16]),
        (0, -1, vec![(7 << 4) | 12]),
        (0, i32::MIN, vec![16]),
        (1, 5, vec![maxw; 65535]),
    ];
    for (i, (rid, pos, w)) in cases.into_iter().enumerate() {
        lazy_case(ctx, rid, pos, w, &format!("lazy-corpus {i}"));
    }
}

// ---------------------------------------------------------------- buf: RecordBuf's inherent methods

fn buf_case(ctx: &mut Ctx, start: Option<usize>, ops: Vec<(usize, usize)>, case: &str) {
    let mut b = RecordBuf::builder().set_cigar(ops.iter().map(|(k, l)| Op::new(KINDS[*k], *l)).collect());
    if let Some(s) = start {
        b = b.set_alignment_start(Position::try_from(s).unwrap());
    }
    let rb = b.build();
    let f = |r: Result<Option<usize>, String>| match r {
        Ok(None) => "none".to_string(),
        Ok(Some(n)) => n.to_string(),
        Err(_) => "panic".into(),
    };
    let span = f(guarded(|| rb.alignment_span()));
    let end = f(guarded(|| rb.alignment_end().map(usize::from)));
    let items: Vec<Option<(usize, usize)>> = ops.iter().map(|x| Some(*x)).collect();
    ctx.corr(format!("c04 buf {} {}", arg_opt(start), arg_items(&items)), format!("span={span} end={end}"));
    ctx.bump(if span == "panic" || end == "panic" { "buf_panic" } else { "buf_ok" });
    // oracle (what the property needs of this variant): whenever the trait method yields a position and
    // the inherent one returns, they agree
    let t = fmt_or(sam::alignment::Record::alignment_end(&rb));
    ctx.eval(None);
    if end != "panic" && !t.starts_with("err") && t != end {
        ctx.fail("span-buf-inherent", format!("RecordBuf start {start:?} CIGAR {}: inherent alignment_end = {end}, trait alignment_end = {t}", arg_items(&items)), case.into());
    }
}

// ---------------------------------------------------------------- vend: variant_end / variant_span

/// INFO END / SVLEN lookup result and FORMAT LEN column as the generator describes them
#[derive(Clone, Debug)]
enum InfoArg {
    Absent,
    Missing,
    Int(i32),
    Ints(Vec<Option<i32>>),
    Other,
}
#[derive(Clone, Debug)]
enum ColEntry {
    Missing,
    Int(i32),
    Other,
}

fn info_word(a: &InfoArg) -> String {
    match a {
        InfoArg::Absent => "a".into(),
        InfoArg::Missing => "m".into(),
        InfoArg::Int(n) => format!("i{n}"),
        InfoArg::Ints(l) => format!("I{}", l.iter().map(|x| x.map(|n| n.to_string()).unwrap_or_else(|| ".".into())).collect::<Vec<_>>().join(";")),
        InfoArg::Other => "s".into(),
    }
}
fn col_word(c: &Option<Vec<ColEntry>>) -> String {
    match c {
        None => "a".into(),
        Some(l) => format!(
            "C{}",
            l.iter()
                .map(|e| match e {
                    ColEntry::Missing => ".".to_string(),
                    ColEntry::Int(n) => n.to_string(),
                    ColEntry::Other => "x".into(),
                })
                .collect::<Vec<_>>()
                .join(";")
        ),
    }
}

fn variant_record(start: Option<usize>, ref_len: usize, end: &InfoArg, svlen: &InfoArg, col: &Option<Vec<ColEntry>>, rng: &mut Rng) -> vcf::variant::RecordBuf {
    use vcf::variant::record::info::field::key;
    use vcf::variant::record_buf::{info::field::Value, samples::sample::Value as SValue, Info, Samples};
    let mut info = Info::default();
    let to_value = |a: &InfoArg| -> Option<Option<Value>> {
        match a {
            InfoArg::Absent => None,
            InfoArg::Missing => Some(None),
            InfoArg::Int(n) => Some(Some(Value::from(*n))),
            InfoArg::Ints(l) => Some(Some(Value::from(l.clone()))),
            InfoArg::Other => Some(Some(Value::from("x"))),
        }
    };
    // an unrelated field first, so that the lookups are not always at index 0
    if rng.chance(1, 2) {
        info.insert("DP".into(), Some(Value::from(7)));
    }
    if let Some(v) = to_value(end) {
        info.insert(key::END_POSITION.into(), v);
    }
    if let Some(v) = to_value(svlen) {
        info.insert(key::SV_LENGTHS.into(), v);
    }
    let samples = match col {
        None => {
            if rng.chance(1, 3) {
                Samples::new(["DP".to_string()].into_iter().collect(), vec![vec![Some(SValue::from(3))]])
            } else {
                Samples::default()
            }
        }
        Some(l) => {
            // LEN is the second key; a missing entry is either an explicit `None` or a sample that is too short
            let keys = ["DP".to_string(), "LEN".to_string()].into_iter().collect();
            let values = l
                .iter()
                .map(|e| match e {
                    ColEntry::Missing => {
                        if rng.chance(1, 2) { vec![Some(SValue::from(1))] } else { vec![Some(SValue::from(1)), None] }
                    }
                    ColEntry::Int(n) => vec![None, Some(SValue::from(*n))],
                    ColEntry::Other => vec![Some(SValue::from(2)), Some(SValue::from("x"))],
                })
                .collect();
            Samples::new(keys, values)
        }
    };
    let mut rb = vcf::variant::RecordBuf::builder()
        .set_reference_sequence_name("sq0")
        .set_reference_bases("ACGT".repeat(ref_len / 4 + 1)[..ref_len].to_string())
        .set_info(info)
        .set_samples(samples)
        .build();
    *rb.variant_start_mut() = start.map(|s| Position::try_from(s).unwrap());
    rb
}

/// the harness's own span rule (independent of noodles): `Err(())` = the record has no valid span
fn want_variant_end(v45: bool, start: Option<usize>, ref_len: usize, end: &InfoArg, svlen: &InfoArg, col: &Option<Vec<ColEntry>>) -> Result<usize, ()> {
    let s = start.unwrap_or(1) as u128;
    let len: u128 = if !v45 {
        match end {
            InfoArg::Int(n) => return if *n >= 1 { Ok(*n as usize) } else { Err(()) },
            InfoArg::Ints(_) | InfoArg::Other => return Err(()),
            _ => {}
        }
        if ref_len == 0 {
            return Err(());
        }
        ref_len as u128
    } else {
        if ref_len == 0 {
            return Err(());
        }
        let mut m = ref_len as u128;
        match svlen {
            InfoArg::Absent | InfoArg::Missing => {}
            InfoArg::Ints(l) => {
                for n in l.iter().flatten() {
                    if *n < 0 {
                        return Err(());
                    }
                    m = m.max(*n as u128);
                }
            }
            _ => return Err(()),
        }
        if let Some(c) = col {
            for e in c {
                match e {
                    ColEntry::Missing => {}
                    ColEntry::Int(n) => {
                        if *n < 0 {
                            return Err(());
                        }
                        m = m.max(*n as u128);
                    }
                    ColEntry::Other => return Err(()),
                }
            }
        }
        m
    };
    let e = s + len - 1;
    if e > USIZE_MAX as u128 { Err(()) } else { Ok(e as usize) }
}

#[allow(clippy::too_many_arguments)]
fn vend_case(ctx: &mut Ctx, rng: &mut Rng, major: u32, minor: u32, start: Option<usize>, ref_len: usize, end: InfoArg, svlen: InfoArg, col: Option<Vec<ColEntry>>, case: &str) {
    use vcf::variant::Record as _;
    let header = vcf::Header::builder().set_file_format(vcf::header::FileFormat::new(major, minor)).build();
    let rb = variant_record(start, ref_len, &end, &svlen, &col, rng);
    let got = guarded(|| (fmt_res(rb.variant_end(&header)), fmt_res(rb.variant_span(&header))));
    let ans = match &got {
        Ok((e, s)) => format!("end={e} span={s}"),
        Err(_) => "panic".into(),
    };
    ctx.corr(format!("c04 vend {major} {minor} {} {ref_len} {} {} {}", arg_opt(start), info_word(&end), info_word(&svlen), col_word(&col)), ans.clone());
    let v45 = (major, minor) >= (4, 5);
    ctx.eval(Some(fnv(format!("vend {case}").as_bytes())));
    ctx.bump(if v45 { "vend_v45" } else { "vend_before_45" });
    ctx.bump(&format!("vend_END_{}", &info_word(&end)[..1]));
    ctx.bump(&format!("vend_SVLEN_{}", &info_word(&svlen)[..1]));
    ctx.bump(if col.is_some() { "vend_LEN_column" } else { "vend_LEN_absent" });
    let want_end = want_variant_end(v45, start, ref_len, &end, &svlen, &col);
    let want = match want_end {
        Err(()) => "end=err:invalid-data span=err:invalid-data".to_string(),
        Ok(e) => {
            let s = start.unwrap_or(1);
            if e >= s { format!("end={e} span={}", e - s + 1) } else { format!("end={e} span=err:invalid-data") }
        }
    };
    ctx.bump(if want_end.is_err() { "vend_err" } else if want.ends_with("data") { "vend_end_before_start" } else { "vend_ok" });
    if ans != want {
        ctx.fail("span-variant", format!("fileformat {major}.{minor}, POS {start:?}, |REF| {ref_len}, END {end:?}, SVLEN {svlen:?}, LEN {col:?}: variant_end/variant_span = [{ans}], the VCF rule says [{want}]"), case.into());
    }
}

fn gen_info_int(rng: &mut Rng, around: usize) -> InfoArg {
    match rng.below(10) {
        0 => InfoArg::Absent,
        1 => InfoArg::Missing,
        2 => InfoArg::Other,
        3 => InfoArg::Int(0),
        4 => InfoArg::Int(-(rng.below(50) as i32) - 1),
        5 => InfoArg::Int(i32::MAX),
        6 => InfoArg::Ints(vec![Some(5)]),
        7 => InfoArg::Int((around as i64 - rng.below(40) as i64).clamp(1, i32::MAX as i64) as i32),
        _ => InfoArg::Int((around as u64 + rng.below(100_000)).min(i32::MAX as u64) as i32),
    }
}
fn gen_info_ints(rng: &mut Rng) -> InfoArg {
    match rng.below(9) {
        0 => InfoArg::Absent,
        1 => InfoArg::Missing,
        2 => InfoArg::Other,
        3 => InfoArg::Int(12),
        4 => InfoArg::Ints(vec![]),
        _ => {
            let n = 1 + rng.below(4) as usize;
            let neg = rng.chance(1, 6);
            InfoArg::Ints(
                (0..n)
                    .map(|_| {
                        if rng.chance(1, 5) {
                            None
                        } else if neg && rng.chance(1, 2) {
                            Some(-(rng.below(500) as i32) - 1)
                        } else {
                            Some(match rng.below(4) {
                                0 => 0,
                                1 => i32::MAX,
                                _ => rng.below(200_000) as i32,
                            })
                        }
                    })
                    .collect(),
            )
        }
    }
}
fn gen_col(rng: &mut Rng) -> Option<Vec<ColEntry>> {
    if rng.chance(1, 2) {
        return None;
    }
    let n = rng.below(4) as usize + if rng.chance(1, 8) { 0 } else { 1 };
    let bad = rng.chance(1, 6);
    Some(
        (0..n)
            .map(|_| {
                if rng.chance(1, 4) {
                    ColEntry::Missing
                } else if bad && rng.chance(1, 2) {
                    if rng.chance(1, 2) { ColEntry::Other } else { ColEntry::Int(-3) }
                } else {
                    ColEntry::Int(rng.below(300_000) as i32)
                }
            })
            .collect(),
    )
}

fn vend_random(ctx: &mut Ctx, sub: u64) {
    let mut rng = Rng::new(sub ^ 0x7e4d);
    let (major, minor) = *rng.pick(&[(4u32, 1u32), (4, 2), (4, 3), (4, 4), (4, 5), (4, 5), (4, 5), (4, 6), (5, 0), (3, 9)]);
    let start = match rng.below(8) {
        0 => None,
        1 => Some(1),
        2 => Some(USIZE_MAX - rng.below(3) as usize),
        _ => Some(1 + rng.below(1 << 29) as usize),
    };
    let ref_len = match rng.below(8) {
        0 => 0,
        1 => 1,
        2 => 2 + rng.below(3) as usize,
        _ => 1 + rng.below(60) as usize,
    };
    let end = gen_info_int(&mut rng, start.unwrap_or(1).min(1 << 30));
    let svlen = gen_info_ints(&mut rng);
    let col = gen_col(&mut rng);
    vend_case(ctx, &mut rng, major, minor, start, ref_len, end, svlen, col, &format!("vend {sub}"));
}

/// a lazy `vcf::Record` whose POS does not parse: the only way to an `Err` start
fn vend_lazy_bad_pos(ctx: &mut Ctx, major: u32, minor: u32, pos: &str, info: &str, end: InfoArg, svlen: InfoArg) {
    use vcf::variant::Record as _;
    let text = format!("##fileformat=VCFv{major}.{minor}\n##contig=<ID=sq0>\n#CHROM\tPOS\tID\tREF\tALT\tQUAL\tFILTER\tINFO\nsq0\t{pos}\t.\tAC\t.\t.\t.\t{info}\n");
    let got = guarded(|| -> io::Result<String> {
        let mut rd = vcf::io::Reader::new(text.as_bytes());
        let header = rd.read_header()?;
        let mut rec = vcf::Record::default();
        rd.read_record(&mut rec)?;
        Ok(format!("end={} span={}", fmt_res(rec.variant_end(&header)), fmt_res(rec.variant_span(&header))))
    });
    let ans = match got {
        Ok(Ok(s)) => s,
        Ok(Err(e)) => errclass(&e).into(),
        Err(_) => "panic".into(),
    };
    ctx.bump("vend_lazy_bad_pos");
    ctx.corr(format!("c04 vend {major} {minor} e 2 {} {} a", info_word(&end), info_word(&svlen)), ans);
}

fn vend_corpus(ctx: &mut Ctx) {
    let mut rng = Rng::new(0x51);
    let m = USIZE_MAX;
    use ColEntry as C;
    use InfoArg as I;
    let cases: Vec<(u32, u32, Option<usize>, usize, I, I, Option<Vec<C>>)> = vec![
        (4, 3, Some(100), 1, I::Int(250), I::Absent, None),
        (4, 3, Some(100), 4, I::Absent, I::Absent, None),
        (4, 3, Some(100), 4, I::Missing, I::Ints(vec![Some(900)]), Some(vec![C::Int(5000)])),
        (4, 3, Some(100), 1, I::Int(50), I::Absent, None),
        (4, 3, Some(100), 1, I::Int(100), I::Absent, None),
        (4, 3, Some(100), 0, I::Int(120), I::Absent, None),
        (4, 3, Some(100), 0, I::Absent, I::Absent, None),
        (4, 3, Some(100), 1, I::Int(0), I::Absent, None),
        (4, 3, Some(100), 1, I::Int(-4), I::Absent, None),
        (4, 3, Some(100), 1, I::Other, I::Absent, None),
        (4, 3, None, 3, I::Absent, I::Absent, None),
        (4, 3, None, 3, I::Int(9), I::Absent, None),
        (4, 3, Some(m), 1, I::Absent, I::Absent, None),
        (4, 3, Some(m), 2, I::Absent, I::Absent, None),
        (4, 4, Some(100), 1, I::Int(250), I::Ints(vec![Some(900)]), None),
        (4, 5, Some(100), 1, I::Int(250), I::Ints(vec![Some(30), None, Some(70)]), Some(vec![C::Int(90), C::Missing])),
        (4, 5, Some(100), 1, I::Int(250), I::Absent, None),
        (4, 5, Some(100), 7, I::Absent, I::Ints(vec![Some(3)]), Some(vec![C::Int(2)])),
        (4, 5, Some(100), 1, I::Absent, I::Ints(vec![]), Some(vec![])),
        (4, 5, Some(100), 1, I::Absent, I::Ints(vec![None, None]), Some(vec![C::Missing])),
        (4, 5, Some(100), 1, I::Absent, I::Ints(vec![Some(-1)]), None),
        (4, 5, Some(100), 1, I::Absent, I::Ints(vec![Some(5), Some(-1)]), Some(vec![C::Other])),
        (4, 5, Some(100), 1, I::Absent, I::Other, None),
        (4, 5, Some(100), 1, I::Absent, I::Int(44), None),
        (4, 5, Some(100), 1, I::Absent, I::Missing, Some(vec![C::Int(10), C::Other])),
        (4, 5, Some(100), 1, I::Absent, I::Absent, Some(vec![C::Int(10), C::Int(-2)])),
        (4, 5, Some(100), 0, I::Absent, I::Ints(vec![Some(5)]), None),
        (4, 5, None, 2, I::Absent, I::Ints(vec![Some(0)]), None),
        (4, 5, Some(m - 1), 1, I::Absent, I::Ints(vec![Some(2)]), None),
        (4, 5, Some(m - 1), 1, I::Absent, I::Ints(vec![Some(3)]), None),
        (5, 0, Some(10), 1, I::Int(3), I::Ints(vec![Some(i32::MAX)]), None),
    ];
    for (i, (ma, mi, st, rl, en, sv, col)) in cases.into_iter().enumerate() {
        vend_case(ctx, &mut rng, ma, mi, st, rl, en, sv, col, &format!("vend-corpus {i}"));
    }
    vend_lazy_bad_pos(ctx, 4, 3, "x", ".", InfoArg::Absent, InfoArg::Absent);
    vend_lazy_bad_pos(ctx, 4, 3, "x", "END=77", InfoArg::Int(77), InfoArg::Absent);
    vend_lazy_bad_pos(ctx, 4, 5, "-3", ".", InfoArg::Absent, InfoArg::Absent);
    vend_lazy_bad_pos(ctx, 4, 5, "1e3", "SVLEN=40", InfoArg::Absent, InfoArg::Ints(vec![Some(40)]));
}

// ---------------------------------------------------------------- isect: the filters of the query iterators

fn bgzf_bytes(data: &[u8]) -> Vec<u8> {
    let mut w = bgzf::io::Writer::new(Vec::new());
    w.write_all(data).unwrap();
    w.finish().unwrap()
}

/// an uncompressed BAM stream: header with `nref` references `sq0…`, then the given raw records
fn raw_bam_stream(nref: usize, ref_len: u32, records: &[Vec<u8>]) -> Vec<u8> {
    let mut text = String::from("@HD\tVN:1.6\tSO:coordinate\n");
    for i in 0..nref {
        text.push_str(&format!("@SQ\tSN:sq{i}\tLN:{ref_len}\n"));
    }
    let mut b = b"BAM\x01".to_vec();
    b.extend_from_slice(&(text.len() as u32).to_le_bytes());
    b.extend_from_slice(text.as_bytes());
    b.extend_from_slice(&(nref as u32).to_le_bytes());
    for i in 0..nref {
        let name = format!("sq{i}");
        b.extend_from_slice(&(name.len() as u32 + 1).to_le_bytes());
        b.extend_from_slice(name.as_bytes());
        b.push(0);
        b.extend_from_slice(&ref_len.to_le_bytes());
    }
    for r in records {
        b.extend_from_slice(r);
    }
    b
}

const MAXPOS_14_5: usize = (1 << 29) - 1;

/// an index in which every reference has ONE chunk covering all records: a query then serves every
/// record of the file and only the iterator's filter decides
fn covering_index<I>(nref: usize, first: bgzf::VirtualPosition, end: bgzf::VirtualPosition) -> csi::binning_index::Index<I>
where
    I: csi::binning_index::index::reference_sequence::Index + Default,
{
    let mut ix = Indexer::<I>::new(14, 5);
    for rid in 0..nref {
        ix.add_record(Some((rid, Position::MIN, Position::try_from(MAXPOS_14_5).unwrap(), true)), Chunk::new(first, end)).unwrap();
    }
    ix.build(nref)
}

fn gen_bounds(rng: &mut Rng, s: usize, e: usize) -> (Option<usize>, Option<usize>) {
    let lim = MAXPOS_14_5;
    let near = |rng: &mut Rng, p: usize| -> usize { ((p as i64) + rng.below(5) as i64 - 2).clamp(1, lim as i64) as usize };
    let a = match rng.below(6) {
        0 => None,
        1 => Some(near(rng, s)),
        2 => Some(near(rng, e)),
        3 => Some(near(rng, e.saturating_add(1).min(lim))),
        _ => Some(1 + rng.below(lim as u64) as usize),
    };
    let b = match rng.below(6) {
        0 => None,
        1 => Some(near(rng, s)),
        2 => Some(near(rng, e)),
        3 => Some(near(rng, s.saturating_sub(1).max(1))),
        _ => Some(1 + rng.below(lim as u64) as usize),
    };
    (a, b)
}

fn isect_bam_case(ctx: &mut Ctx, rid: i32, pos: i32, words: Vec<u32>, qrid: usize, q: (Option<usize>, Option<usize>), case: &str) {
    use sam::alignment::Record as _;
    let nref = 3;
    let raw = raw_bam_record(rid, pos, 0, "q", &words);
    let file = bgzf_bytes(&raw_bam_stream(nref, 1 << 30, &[raw]));
    let got = guarded(|| -> io::Result<(usize, String)> {
        let mut rd = bam::io::Reader::new(io::Cursor::new(file.clone()));
        let header = rd.read_header()?;
        let first = rd.get_ref().virtual_position();
        let mut rec = bam::Record::default();
        rd.read_record(&mut rec)?;
        let end = rd.get_ref().virtual_position();
        let view = format!("{} {} {}", arg_or(&view_or(rec.reference_sequence_id())), arg_or(&view_or(rec.alignment_start().map(|r| r.map(usize::from)))), arg_items(&view_items(&rec)));
        let index = covering_index::<LinearIndex>(nref, first, end);
        let region = region_of(&format!("sq{qrid}"), q);
        let mut n = 0;
        for r in rd.query(&header, &index, &region)?.records() {
            r?;
            n += 1;
        }
        // the span, for the oracle
        let _ = rec.alignment_end();
        Ok((n, view))
    });
    // the request carries the record's own view of rid / start / CIGAR items (checked by the `lazy` suite)
    let view = {
        let rec = read_raw_record(&raw_bam_record(rid, pos, 0, "q", &words)).unwrap();
        format!("{} {} {}", arg_or(&view_or(rec.reference_sequence_id())), arg_or(&view_or(rec.alignment_start().map(|r| r.map(usize::from)))), arg_items(&view_items(&rec)))
    };
    let ans = match &got {
        Ok(Ok((1, _))) => "true".to_string(),
        Ok(Ok((0, _))) => "false".into(),
        Ok(Ok((n, _))) => format!("{n}-records"),
        Ok(Err(e)) => errclass(e).into(),
        Err(_) => "panic".into(),
    };
    ctx.corr(format!("c04 isect bam {view} {qrid} {} {}", arg_opt(q.0), arg_opt(q.1)), ans.clone());
    ctx.eval(Some(fnv(format!("isect {case}").as_bytes())));
    ctx.bump(&format!("isect_bam_{ans}"));
    ctx.bump(match q {
        (None, None) => "isect_region_unbounded",
        (Some(_), None) => "isect_region_from",
        (None, Some(_)) => "isect_region_to",
        _ => "isect_region_closed",
    });
    // oracle: a well-formed placed record is kept iff it is on the reference and its span meets the region
    let bad_kind = words.iter().any(|w| w & 0xf > 8);
    if rid >= 0 && pos >= 0 && !bad_kind {
        let total: u64 = words.iter().filter(|w| consumes_ref_index((*w & 0xf) as usize)).map(|w| (w >> 4) as u64).sum();
        let s = pos as usize + 1;
        let e = s + total.max(1) as usize - 1;
        let want = rid as usize == qrid && overlaps(s, e, q);
        if ans != want.to_string() {
            ctx.fail("filter", format!("BAM query filter: record on sq{rid} spanning {s}-{e}, region sq{qrid}:{:?}-{:?}: kept = {ans}, the spans {} intersect", q.0, q.1, if want { "do" } else { "do not" }), case.into());
        }
    } else if rid == -1 && ans != "false" {
        ctx.fail("filter", format!("BAM query filter kept/failed on a record without a reference ({ans})"), case.into());
    }
}

fn isect_bam_random(ctx: &mut Ctx, sub: u64) {
    let mut rng = Rng::new(sub ^ 0x15ec7);
    let rid = match rng.below(12) {
        0 => -1,
        1 => -2 - rng.below(5) as i32,
        _ => rng.below(3) as i32,
    };
    let pos = match rng.below(12) {
        0 => -1,
        1 => -2 - rng.below(5) as i32,
        2 => 0,
        _ => rng.below(1 << 28) as i32,
    };
    let mut words = gen_words(&mut rng);
    words.truncate(6);
    for w in words.iter_mut() {
        // keep spans moderate so that regions near the ends are hit
        *w = ((*w >> 4) % 5000) << 4 | (*w & 0xf);
    }
    let total: u64 = words.iter().filter(|w| consumes_ref_index((*w & 0xf) as usize)).map(|w| (w >> 4) as u64).sum();
    let s = (pos.max(0) as usize) + 1;
    let e = s + total.max(1) as usize - 1;
    let q = gen_bounds(&mut rng, s, e);
    let qrid = if rid >= 0 && rng.chance(3, 4) { rid as usize } else { rng.below(3) as usize };
    isect_bam_case(ctx, rid, pos, words, qrid, q, &format!("isect-bam {sub}"));
}

fn isect_bam_corpus(ctx: &mut Ctx) {
    let m = |n: u32| n << 4; // nM
    let cases: Vec<(i32, i32, Vec<u32>, usize, (Option<usize>, Option<usize>))> = vec![
        (0, 99, vec![m(10)], 0, (Some(105), None)),
        (0, 99, vec![m(10)], 0, (Some(109), Some(109))),
        (0, 99, vec![m(10)], 0, (Some(110), Some(200))),
        (0, 99, vec![m(10)], 0, (Some(1), Some(99))),
        (0, 99, vec![m(10)], 0, (Some(1), Some(100))),
        (0, 99, vec![m(10)], 0, (None, Some(99))),
        (0, 99, vec![m(10)], 0, (None, Some(100))),
        (0, 99, vec![m(10)], 0, (None, None)),
        (0, 99, vec![m(10)], 1, (None, None)),
        (0, 99, vec![], 0, (Some(100), Some(100))),
        (0, 99, vec![], 0, (Some(101), Some(101))),
        (-1, -1, vec![], 0, (None, None)),
        (-1, 99, vec![m(10)], 0, (Some(100), Some(100))),
        (-3, 99, vec![m(10)], 0, (Some(100), Some(100))),
        (0, -1, vec![m(10)], 0, (None, None)),
        (0, -1, vec![m(10)], 0, (Some(1), None)),
        (0, -4, vec![m(10)], 0, (None, None)),
        (0, -4, vec![m(10)], 0, (None, Some(50))),
        (0, 99, vec![m(10) | 11], 0, (None, None)),
        (0, 99, vec![m(10) | 11], 0, (Some(1), Some(500))),
        (0, 99, vec![m(10) | 11], 1, (Some(1), Some(500))),
        (2, 0, vec![m(1)], 2, (Some(1), Some(1))),
        (2, 0, vec![m(1)], 2, (Some(2), Some(1))),
    ];
    for (i, (rid, pos, w, qrid, q)) in cases.into_iter().enumerate() {
        isect_bam_case(ctx, rid, pos, w, qrid, q, &format!("isect-bam-corpus {i}"));
    }
}

/// VCF: one text record in a bgzipped file, a tabix-style covering index
fn isect_vcf_case(ctx: &mut Ctx, v45: bool, chrom: &str, pos: &str, reference: &str, info: &str, qname: &str, q: (Option<usize>, Option<usize>), case: &str) {
    use vcf::variant::Record as _;
    let ff = if v45 { "4.5" } else { "4.3" };
    let text = format!("##fileformat=VCFv{ff}\n##contig=<ID=sq0>\n##contig=<ID=sq1>\n#CHROM\tPOS\tID\tREF\tALT\tQUAL\tFILTER\tINFO\n{chrom}\t{pos}\t.\t{reference}\t.\t.\t.\t{info}\n");
    let file = bgzf_bytes(text.as_bytes());
    let got = guarded(|| -> io::Result<(usize, String, String)> {
        let mut rd = vcf::io::Reader::new(bgzf::io::Reader::new(io::Cursor::new(file.clone())));
        let header = rd.read_header()?;
        let first = rd.get_ref().virtual_position();
        let mut rec = vcf::Record::default();
        rd.read_record(&mut rec)?;
        let end = rd.get_ref().virtual_position();
        let start_w = arg_or(&view_or(rec.variant_start().map(|r| r.map(usize::from))));
        let end_w = match rec.variant_end(&header) {
            Ok(p) => usize::from(p).to_string(),
            Err(_) => "e".into(),
        };
        let mut ix = noodles_tabix::index::Indexer::default();
        ix.set_header(csi::binning_index::index::header::Builder::vcf().build());
        for name in ["sq0", "sq1"] {
            ix.add_record(name, Position::MIN, Position::try_from(MAXPOS_14_5).unwrap(), Chunk::new(first, end))?;
        }
        let index = ix.build();
        let region = region_of(qname, q);
        let mut n = 0;
        for r in rd.query(&header, &index, &region)?.records() {
            r?;
            n += 1;
        }
        Ok((n, start_w, end_w))
    });
    let (ans, start_w, end_w) = match &got {
        Ok(Ok((n, s, e))) => (if *n == 1 { "true".to_string() } else if *n == 0 { "false".into() } else { format!("{n}-records") }, s.clone(), e.clone()),
        Ok(Err(e)) => {
            // the views are needed for the request even when the query fails: recompute them without the query
            let mut rd = vcf::io::Reader::new(text.as_bytes());
            let header = rd.read_header().unwrap();
            let mut rec = vcf::Record::default();
            rd.read_record(&mut rec).unwrap();
            (
                errclass(e).to_string(),
                arg_or(&view_or(rec.variant_start().map(|r| r.map(usize::from)))),
                match rec.variant_end(&header) {
                    Ok(p) => usize::from(p).to_string(),
                    Err(_) => "e".into(),
                },
            )
        }
        Err(_) => ("panic".to_string(), "-".into(), "e".into()),
    };
    let name_eq = if chrom == qname { 1 } else { 0 };
    ctx.corr(format!("c04 isect vcf {name_eq} {start_w} {end_w} {} {}", arg_opt(q.0), arg_opt(q.1)), ans.clone());
    ctx.eval(Some(fnv(format!("isect {case}").as_bytes())));
    ctx.bump(&format!("isect_vcf_{ans}"));
    // oracle on well-formed records
    if let (Ok(s), Ok(e)) = (start_w.parse::<usize>(), end_w.parse::<usize>()) {
        if s <= e {
            let want = name_eq == 1 && overlaps(s, e, q);
            if ans != want.to_string() {
                ctx.fail("filter", format!("VCF query filter: record {chrom}:{s}-{e}, region {qname}:{:?}-{:?}: kept = {ans}", q.0, q.1), case.into());
            }
        }
    }
}

fn isect_vcf_random(ctx: &mut Ctx, sub: u64) {
    let mut rng = Rng::new(sub ^ 0xfc5);
    let v45 = rng.chance(1, 2);
    let chrom = if rng.chance(3, 4) { "sq0" } else { "sq1" };
    let p = 1 + rng.below(1 << 28) as usize;
    let pos = match rng.below(12) {
        0 => "0".to_string(),
        1 => "x".into(),
        _ => p.to_string(),
    };
    let rl = 1 + rng.below(12) as usize;
    let reference = "ACGTTGCAACGT"[..rl].to_string();
    let span = 1 + rng.below(50_000) as usize;
    let (info, e) = match rng.below(5) {
        0 => (".".to_string(), p + rl - 1),
        1 if !v45 => (format!("END={}", p + span - 1), p + span - 1),
        1 => (format!("SVLEN={span}"), p + span.max(rl) - 1),
        2 if !v45 => (format!("END={}", p.saturating_sub(rng.below(30) as usize).max(1)), p),
        3 => ("END=abc".to_string(), p + rl - 1),
        _ => (".".to_string(), p + rl - 1),
    };
    let q = gen_bounds(&mut rng, p, e);
    let qname = if rng.chance(4, 5) { chrom } else { "sq1" };
    isect_vcf_case(ctx, v45, chrom, &pos, &reference, &info, qname, q, &format!("isect-vcf {sub}"));
}

fn isect_vcf_corpus(ctx: &mut Ctx) {
    let cases: Vec<(bool, &str, &str, &str, &str, &str, (Option<usize>, Option<usize>))> = vec![
        (false, "sq0", "100", "ACGT", ".", "sq0", (Some(103), Some(103))),
        (false, "sq0", "100", "ACGT", ".", "sq0", (Some(104), Some(200))),
        (false, "sq0", "100", "ACGT", ".", "sq0", (None, Some(99))),
        (false, "sq0", "100", "ACGT", ".", "sq0", (None, Some(100))),
        (false, "sq0", "100", "ACGT", ".", "sq0", (Some(103), None)),
        (false, "sq0", "100", "ACGT", ".", "sq0", (Some(104), None)),
        (false, "sq0", "100", "ACGT", ".", "sq0", (None, None)),
        (false, "sq0", "100", "ACGT", ".", "sq1", (None, None)),
        (false, "sq0", "100", "A", "END=500", "sq0", (Some(400), Some(450))),
        (true, "sq0", "100", "A", "END=500", "sq0", (Some(400), Some(450))),
        (true, "sq0", "100", "A", "SVLEN=401", "sq0", (Some(500), Some(500))),
        (true, "sq0", "100", "A", "SVLEN=401", "sq0", (Some(501), Some(501))),
        (false, "sq0", "0", "ACGT", ".", "sq0", (None, None)),
        (false, "sq0", "0", "ACGT", ".", "sq0", (Some(1), Some(10))),
        (false, "sq0", "x", "ACGT", ".", "sq0", (None, None)),
        (false, "sq0", "x", "ACGT", ".", "sq0", (Some(1), Some(10))),
        (false, "sq0", "x", "ACGT", ".", "sq1", (Some(1), Some(10))),
        (false, "sq0", "100", "A", "END=abc", "sq0", (None, None)),
        (false, "sq0", "100", "A", "END=abc", "sq0", (Some(1), None)),
        (false, "sq0", "100", "A", "END=50", "sq0", (Some(40), Some(110))),
        (false, "sq0", "100", "A", "END=50", "sq0", (Some(60), Some(110))),
    ];
    for (i, (v45, chrom, pos, r, info, qn, q)) in cases.into_iter().enumerate() {
        isect_vcf_case(ctx, v45, chrom, pos, r, info, qn, q, &format!("isect-vcf-corpus {i}"));
    }
}

/// `csi::io::FilterByRegion` on a hand-made `IndexedRecord`
struct TIndexed(String, usize, usize);
impl csi::io::IndexedRecord for TIndexed {
    fn indexed_reference_sequence_name(&self) -> &str {
        &self.0
    }
    fn indexed_start_position(&self) -> Position {
        Position::try_from(self.1).unwrap()
    }
    fn indexed_end_position(&self) -> Position {
        Position::try_from(self.2).unwrap()
    }
}

fn isect_csi_case(ctx: &mut Ctx, name: &str, s: usize, e: usize, qname: &str, q: (Option<usize>, Option<usize>), case: &str) {
    let region = region_of(qname, q);
    let got = guarded(|| csi::io::FilterByRegion::new(vec![Ok(TIndexed(name.into(), s, e))].into_iter(), &region).filter(|r| r.is_ok()).count());
    let ans = match got {
        Ok(1) => "true".to_string(),
        Ok(0) => "false".into(),
        Ok(n) => format!("{n}-records"),
        Err(_) => "panic".into(),
    };
    let name_eq = if name == qname { 1 } else { 0 };
    ctx.corr(format!("c04 isect csi {name_eq} {s} {e} {} {}", arg_opt(q.0), arg_opt(q.1)), ans.clone());
    ctx.eval(Some(fnv(format!("isect {case}").as_bytes())));
    ctx.bump(&format!("isect_csi_{ans}"));
    if s <= e {
        let want = name_eq == 1 && overlaps(s, e, q);
        if ans != want.to_string() {
            ctx.fail("filter", format!("csi FilterByRegion: record {name}:{s}-{e}, region {qname}:{:?}-{:?}: kept = {ans}", q.0, q.1), case.into());
        }
    }
}

/// BCF: one raw record (CHROM and POS as raw `i32`s, REF of `ref_len` bases, nothing else)
fn raw_bcf_file(chrom: i32, pos: i32, ref_len: usize) -> Vec<u8> {
    let text = "##fileformat=VCFv4.3\n##FILTER=<ID=PASS,Description=\"All filters passed\">\n##contig=<ID=sq0>\n##contig=<ID=sq1>\n#CHROM\tPOS\tID\tREF\tALT\tQUAL\tFILTER\tINFO\n\0";
    let mut b = b"BCF\x02\x02".to_vec();
    b.extend_from_slice(&(text.len() as u32).to_le_bytes());
    b.extend_from_slice(text.as_bytes());
    let mut shared = vec![];
    shared.extend_from_slice(&chrom.to_le_bytes());
    shared.extend_from_slice(&pos.to_le_bytes());
    shared.extend_from_slice(&(ref_len as i32).to_le_bytes());
    shared.extend_from_slice(&0x7F80_0001u32.to_le_bytes()); // QUAL missing
    shared.extend_from_slice(&(1u32 << 16).to_le_bytes()); // n_allele = 1, n_info = 0
    shared.extend_from_slice(&0u32.to_le_bytes()); // n_fmt = 0, n_sample = 0
    shared.push(0x07); // ID: empty string
    assert!(ref_len < 15);
    shared.push(((ref_len as u8) << 4) | 0x07);
    shared.extend_from_slice(&b"ACGTACGTACGTACGT"[..ref_len]);
    shared.push(0x00); // FILTER: empty vector
    b.extend_from_slice(&(shared.len() as u32).to_le_bytes());
    b.extend_from_slice(&0u32.to_le_bytes());
    b.extend_from_slice(&shared);
    bgzf_bytes(&b)
}

fn isect_bcf_case(ctx: &mut Ctx, chrom: i32, pos: i32, ref_len: usize, qrid: usize, q: (Option<usize>, Option<usize>), case: &str) {
    use vcf::variant::Record as _;
    let file = raw_bcf_file(chrom, pos, ref_len);
    // the record's own view
    let view = guarded(|| -> io::Result<(String, String, String)> {
        let mut rd = bcf::io::Reader::new(io::Cursor::new(file.clone()));
        let header = rd.read_header()?;
        let mut rec = bcf::Record::default();
        rd.read_record(&mut rec)?;
        let id_w = match rec.reference_sequence_name(header.string_maps()) {
            Ok(name) => header.string_maps().contigs().get_index_of(name).map(|i| i.to_string()).unwrap_or_else(|| "e".into()),
            Err(_) => "e".into(),
        };
        let start_w = arg_or(&view_or(rec.variant_start().map(|r| r.map(usize::from))));
        let end_w = match rec.variant_end(&header) {
            Ok(p) => usize::from(p).to_string(),
            Err(_) => "e".into(),
        };
        Ok((id_w, start_w, end_w))
    });
    let (id_w, start_w, end_w) = match view {
        Ok(Ok(v)) => v,
        other => {
            ctx.fail("bcf-read", format!("reading the crafted BCF record failed: {:?}", other.map(|r| r.map_err(|e| e.to_string()))), case.into());
            return;
        }
    };
    let got = guarded(|| -> io::Result<usize> {
        let mut rd = bcf::io::Reader::new(io::Cursor::new(file.clone()));
        let header = rd.read_header()?;
        let first = rd.get_ref().virtual_position();
        let mut rec = bcf::Record::default();
        rd.read_record(&mut rec)?;
        let end = rd.get_ref().virtual_position();
        let index = covering_index::<BinnedIndex>(2, first, end);
        let region = region_of(&format!("sq{qrid}"), q);
        let mut n = 0;
        for r in rd.query(&header, &index, &region)?.records() {
            r?;
            n += 1;
        }
        Ok(n)
    });
    let ans = match &got {
        Ok(Ok(1)) => "true".to_string(),
        Ok(Ok(0)) => "false".into(),
        Ok(Ok(n)) => format!("{n}-records"),
        Ok(Err(e)) => errclass(e).into(),
        Err(_) => "panic".into(),
    };
    ctx.corr(format!("c04 isect bcf {id_w} {start_w} {end_w} {qrid} {} {}", arg_opt(q.0), arg_opt(q.1)), ans.clone());
    ctx.eval(Some(fnv(format!("isect {case}").as_bytes())));
    ctx.bump(&format!("isect_bcf_{ans}"));
    if (0..2).contains(&chrom) && pos >= 0 && ref_len >= 1 {
        let s = pos as usize + 1;
        let e = s + ref_len - 1;
        let want = chrom as usize == qrid && overlaps(s, e, q);
        if ans != want.to_string() {
            ctx.fail("filter", format!("BCF query filter: record sq{chrom}:{s}-{e}, region sq{qrid}:{:?}-{:?}: kept = {ans}", q.0, q.1), case.into());
        }
    }
}

fn isect_other_random(ctx: &mut Ctx, sub: u64) {
    let mut rng = Rng::new(sub ^ 0xbcf);
    // BCF
    let chrom = match rng.below(10) {
        0 => 2 + rng.below(40) as i32,
        1 => -1 - rng.below(3) as i32,
        _ => rng.below(2) as i32,
    };
    let pos = match rng.below(10) {
        0 => -1,
        1 => -2 - rng.below(9) as i32,
        _ => rng.below(1 << 28) as i32,
    };
    let rl = rng.below(13) as usize;
    let s = pos.max(0) as usize + 1;
    let q = gen_bounds(&mut rng, s, s + rl.max(1) - 1);
    let qrid = if (0..2).contains(&chrom) && rng.chance(3, 4) { chrom as usize } else { rng.below(2) as usize };
    isect_bcf_case(ctx, chrom, pos, rl, qrid, q, &format!("isect-bcf {sub}"));
    // csi FilterByRegion
    let s = 1 + rng.below(1 << 28) as usize;
    let e = if rng.chance(1, 10) { s.saturating_sub(rng.below(20) as usize).max(1) } else { s + rng.below(3000) as usize };
    let q = gen_bounds(&mut rng, s, e);
    let (name, qname) = if rng.chance(3, 4) { ("sq0", "sq0") } else { ("sq0", "sq1") };
    isect_csi_case(ctx, name, s, e, qname, q, &format!("isect-csi {sub}"));
}

fn isect_other_corpus(ctx: &mut Ctx) {
    let cases: Vec<(i32, i32, usize, usize, (Option<usize>, Option<usize>))> = vec![
        (0, 99, 4, 0, (Some(103), Some(103))),
        (0, 99, 4, 0, (Some(104), None)),
        (0, 99, 4, 0, (None, Some(99))),
        (0, 99, 4, 0, (None, None)),
        (0, 99, 4, 1, (None, None)),
        (1, 99, 4, 1, (None, Some(100))),
        (7, 99, 4, 0, (None, None)),
        (7, 99, 4, 0, (Some(1), Some(500))),
        (-1, 99, 4, 0, (None, None)),
        (0, -1, 4, 0, (None, None)),
        (0, -1, 4, 0, (Some(1), Some(500))),
        (0, -5, 4, 0, (None, None)),
        (0, -5, 4, 0, (Some(1), Some(500))),
        (0, 99, 0, 0, (None, None)),
        (0, 99, 0, 0, (Some(1), Some(500))),
    ];
    for (i, (c, p, rl, qrid, q)) in cases.into_iter().enumerate() {
        isect_bcf_case(ctx, c, p, rl, qrid, q, &format!("isect-bcf-corpus {i}"));
    }
    let cs: Vec<(&str, usize, usize, &str, (Option<usize>, Option<usize>))> = vec![
        ("sq0", 5, 9, "sq0", (Some(10), Some(20))),
        ("sq0", 5, 9, "sq0", (Some(9), Some(20))),
        ("sq0", 5, 9, "sq0", (None, Some(4))),
        ("sq0", 5, 9, "sq0", (None, Some(5))),
        ("sq0", 5, 9, "sq0", (None, None)),
        ("sq0", 5, 9, "sq1", (None, None)),
        ("sq0", 9, 5, "sq0", (Some(6), Some(8))),
        ("sq0", 9, 5, "sq0", (Some(4), Some(10))),
        ("sq0", USIZE_MAX, USIZE_MAX, "sq0", (Some(7), None)),
    ];
    for (i, (n, s, e, qn, q)) in cs.into_iter().enumerate() {
        isect_csi_case(ctx, n, s, e, qn, q, &format!("isect-csi-corpus {i}"));
    }
}

// ---------------------------------------------------------------- lastfirst: the indexer and the seek target

#[derive(Clone, Debug)]
struct SRec {
    ctx: Option<(usize, usize, usize)>,
    off: u64,
    unmapped: bool,
}

fn file_word(recs: &[SRec]) -> String {
    if recs.is_empty() {
        return "-".into();
    }
    recs.iter()
        .map(|r| match r.ctx {
            Some((rid, s, e)) => format!("{rid}:{s}:{e}:{}:{}", r.off, r.unmapped as u8),
            None => format!("u:0:0:{}:{}", r.off, r.unmapped as u8),
        })
        .collect::<Vec<_>>()
        .join(",")
}

fn roundtrip_csi(idx: &csi::Index) -> io::Result<csi::Index> {
    let mut w = csi::io::Writer::new(Vec::new());
    w.write_index(idx)?;
    let buf = w.into_inner().finish()?;
    csi::io::Reader::new(&buf[..]).read_index()
}

fn build_index<I>(ms: u8, d: u8, nref: usize, recs: &[SRec], end_off: u64) -> io::Result<csi::binning_index::Index<I>>
where
    I: csi::binning_index::index::reference_sequence::Index + Default,
{
    let mut ix = Indexer::<I>::new(ms, d);
    for (i, r) in recs.iter().enumerate() {
        let next = recs.get(i + 1).map(|n| n.off).unwrap_or(end_off);
        let chunk = Chunk::new(bgzf::VirtualPosition::from(r.off), bgzf::VirtualPosition::from(next));
        let c = r.ctx.map(|(rid, s, e)| (rid, Position::try_from(s).unwrap(), Position::try_from(e).unwrap(), !r.unmapped));
        ix.add_record(c, chunk)?;
    }
    Ok(ix.build(nref))
}

fn fmt_seek(r: io::Result<Option<bgzf::VirtualPosition>>) -> String {
    match r {
        Ok(None) => "seek=none".into(),
        Ok(Some(p)) => format!("seek={}", u64::from(p)),
        Err(e) => errclass(&e).into(),
    }
}

fn lastfirst_case(ctx: &mut Ctx, ms: u8, d: u8, nref: usize, recs: Vec<SRec>, end_off: u64, case: &str) {
    let sorted_ok = {
        // coordinate-sorted as far as the unmapped query needs it
        let first_un = recs.iter().position(|r| r.ctx.is_none()).unwrap_or(recs.len());
        recs[first_un..].iter().all(|r| r.ctx.is_none())
    };
    for kind in ["lin", "bin", "binfile"] {
        let got = guarded(|| -> io::Result<Option<bgzf::VirtualPosition>> {
            match kind {
                "lin" => Ok(build_index::<LinearIndex>(ms, d, nref, &recs, end_off)?.last_first_record_start_position()),
                "bin" => Ok(build_index::<BinnedIndex>(ms, d, nref, &recs, end_off)?.last_first_record_start_position()),
                _ => {
                    let ix = build_index::<BinnedIndex>(ms, d, nref, &recs, end_off)?;
                    match roundtrip_csi(&ix) {
                        Ok(back) => Ok(back.last_first_record_start_position()),
                        Err(e) => Err(io::Error::other(format!("roundtrip: {e}"))),
                    }
                }
            }
        });
        let ans = match got {
            Ok(r) => {
                if let Err(e) = &r {
                    if e.to_string().starts_with("roundtrip") {
                        ctx.bump("lastfirst_csi_roundtrip_failed");
                        continue;
                    }
                }
                fmt_seek(r)
            }
            Err(_) => "panic".into(),
        };
        ctx.corr(format!("c04 lastfirst {kind} {ms} {d} {nref} {} {end_off}", file_word(&recs)), ans.clone());
        ctx.eval(if recs.len() >= 2 { Some(fnv(format!("lastfirst {case} {kind}").as_bytes())) } else { None });
        ctx.bump(&format!("lastfirst_{kind}_{}", if ans.starts_with("seek=none") { "none" } else if ans.starts_with("seek=") { "some" } else { "err" }));
        if sorted_ok {
            if let Some(p) = ans.strip_prefix("seek=").and_then(|s| s.parse::<u64>().ok()) {
                let placed_start = recs.iter().any(|r| r.ctx.is_some() && r.off == p);
                let before_tail = recs.iter().filter(|r| r.ctx.is_none()).all(|r| p < r.off);
                if !placed_start || !before_tail {
                    ctx.fail("unmapped-seek", format!("{kind} index (geometry {ms},{d}): last_first_record_start_position = {p} is {} and {} the unplaced tail of [{}]", if placed_start { "a placed record's start" } else { "NOT a placed record's start" }, if before_tail { "before" } else { "NOT before" }, file_word(&recs)), case.into());
                }
            }
        }
    }
    ctx.bump(if sorted_ok { "lastfirst_files_sorted" } else { "lastfirst_files_unsorted" });
}

fn lastfirst_random(ctx: &mut Ctx, sub: u64) {
    let mut rng = Rng::new(sub ^ 0x1a57);
    let (ms, d) = *rng.pick(&[(14u8, 5u8), (14, 5), (14, 6), (12, 5), (16, 4), (10, 6), (4, 2), (3, 3)]);
    let limit = (1usize << (ms as usize + 3 * d as usize)) - 1;
    let nrefs_used = 1 + rng.below(4) as usize;
    let mut recs = vec![];
    let mut off = 1000 + rng.below(70_000);
    let mut push = |rng: &mut Rng, ctxv: Option<(usize, usize, usize)>, unmapped: bool| {
        recs.push(SRec { ctx: ctxv, off, unmapped });
        off = if rng.chance(1, 6) { ((off >> 16) + 1 + rng.below(2)) << 16 } else { off + 1 + rng.below(400) };
    };
    let unsorted = rng.chance(1, 6);
    for rid in 0..nrefs_used {
        if rng.chance(1, 4) {
            continue;
        }
        let n = rng.below(7) as usize;
        let mut starts: Vec<usize> = (0..n).map(|_| 1 + rng.below(limit as u64) as usize).collect();
        if rng.chance(1, 2) {
            // cluster in few windows, so that several records share a linear window / a bin
            let base = 1 + rng.below(limit as u64) as usize;
            starts = starts.iter().map(|s| (base + s % 40_000).min(limit)).collect();
        }
        starts.sort();
        for s in starts {
            let span = match rng.below(4) {
                0 => 1,
                1 => 1 + rng.below(100_000) as usize,
                2 => 1 + rng.below(limit as u64) as usize,
                _ => 1 + rng.below(300) as usize,
            };
            let e = (s + span - 1).min(limit);
            let um = rng.chance(1, 8);
            push(&mut rng, Some((rid, s, e)), um);
            if unsorted && rng.chance(1, 5) {
                push(&mut rng, None, true);
            }
        }
        if unsorted && rng.chance(1, 4) && rid > 0 {
            // a record of an earlier reference: the indexer must refuse it
            push(&mut rng, Some((rid - 1, 1, 1)), false);
        }
    }
    for _ in 0..rng.below(4) {
        let um = !rng.chance(1, 10);
        push(&mut rng, None, um);
    }
    let end_off = off;
    let nref = nrefs_used + rng.below(3) as usize;
    lastfirst_case(ctx, ms, d, nref, recs, end_off, &format!("lastfirst {sub}"));
}

fn lastfirst_corpus(ctx: &mut Ctx) {
    let r = |rid: usize, s: usize, e: usize, off: u64, um: bool| SRec { ctx: Some((rid, s, e)), off, unmapped: um };
    let u = |off: u64| SRec { ctx: None, off, unmapped: true };
    let cases: Vec<(u8, u8, usize, Vec<SRec>, u64)> = vec![
        (14, 5, 1, vec![], 100),
        (14, 5, 3, vec![u(100), u(200)], 300),
        (14, 5, 3, vec![r(0, 5, 40, 100, false), r(2, 70000, 70000, 200, true), u(300), u(400)], 500),
        // a long record first: the binned maximum is the later short record, the linear last window the long one
        (14, 5, 1, vec![r(0, 1, 100000, 100, false), r(0, 50000, 50010, 200, false), u(300)], 400),
        // child bin added before its parent bin: the CSI file carries the minimum over the ancestor chain
        (14, 5, 1, vec![r(0, 10, 20, 100, false), r(0, 15, 20000, 200, false), r(0, 30, 40, 300, false), u(400)], 500),
        (14, 5, 1, vec![r(0, 15, 20000, 100, false), r(0, 10, 20, 200, false), r(0, 70000, 70001, 300, false)], 400),
        // last reference empty, an earlier one not
        (14, 5, 4, vec![r(1, 10, 20, 100, false)], 200),
        // unplaced record in the middle (not coordinate-sorted): accepted by the indexer
        (14, 5, 2, vec![r(0, 10, 20, 100, false), u(200), r(1, 10, 20, 300, false)], 400),
        // decreasing reference id: refused
        (14, 5, 2, vec![r(1, 10, 20, 100, false), r(0, 10, 20, 200, false)], 300),
        (4, 2, 1, vec![r(0, 1, 1023, 10, false), r(0, 7, 15, 20, false), r(0, 7, 16, 30, false), r(0, 1000, 1023, 40, true)], 50),
    ];
    for (i, (ms, d, nref, recs, end)) in cases.into_iter().enumerate() {
        lastfirst_case(ctx, ms, d, nref, recs, end, &format!("lastfirst-corpus {i}"));
    }
}

// ---------------------------------------------------------------- real files: unmapped + record-level queries

fn maxpos(ms: u8, d: u8) -> usize {
    (1usize << (ms as usize + 3 * d as usize)) - 1
}

fn sam_header(g: &Gen) -> sam::Header {
    use sam::header::record::value::{
        map::{self, header::tag::SORT_ORDER, ReferenceSequence},
        Map,
    };
    let hd = Map::<map::Header>::builder().insert(SORT_ORDER, "coordinate").build().unwrap();
    let refs = (0..g.nref)
        .map(|i| (bstr::BString::from(format!("sq{i}")), Map::<ReferenceSequence>::new(std::num::NonZero::new(g.ref_len).unwrap())))
        .collect();
    sam::Header::builder().set_header(hd).set_reference_sequences(refs).build()
}

fn to_record_buf(r: &GRec) -> RecordBuf {
    use sam::alignment::record::{Flags, MappingQuality};
    use sam::alignment::record_buf::{Cigar, QualityScores, Sequence};
    let mut b = RecordBuf::builder().set_name(format!("r{}", r.serial));
    let mut flags = Flags::empty();
    if r.unmapped_flag {
        flags |= Flags::UNMAPPED;
    }
    b = b.set_flags(flags);
    if let Some(rid) = r.rid {
        b = b.set_reference_sequence_id(rid).set_alignment_start(Position::try_from(r.start).unwrap());
        b = b.set_mapping_quality(MappingQuality::new(30).unwrap());
    }
    if !r.cigar.is_empty() {
        let ops: Vec<Op> = r.cigar.iter().map(|(k, n)| Op::new(*k, *n)).collect();
        let n: usize = r.cigar.iter().filter(|(k, _)| k.consumes_read()).map(|(_, n)| n).sum();
        b = b.set_cigar(Cigar::from(ops)).set_sequence(Sequence::from(vec![b'A'; n])).set_quality_scores(QualityScores::from(vec![30u8; n]));
    } else {
        b = b.set_sequence(Sequence::from(b"ACGT".to_vec())).set_quality_scores(QualityScores::from(vec![20u8; 4]));
    }
    b.build()
}

fn serial_of(name: &[u8]) -> usize {
    std::str::from_utf8(&name[1..]).unwrap().parse().unwrap()
}

/// regions with optional bounds; some reach beyond the geometry
fn gen_regions(rng: &mut Rng, limit: usize, geom_max: usize, recs: &[&GRec]) -> Vec<(Option<usize>, Option<usize>)> {
    let mut qs = vec![(None, None), (Some(1), Some(1)), (Some(limit), None), (None, Some(1))];
    for _ in 0..7 {
        if recs.is_empty() {
            break;
        }
        let r = *rng.pick(recs);
        qs.push(match rng.below(9) {
            0 => (Some(r.start), Some(r.start)),
            1 => (Some(r.end), Some(r.end)),
            2 => (Some(r.end), None),
            3 => (Some((r.end + 1).min(limit)), None),
            4 => (None, Some(r.start)),
            5 => (None, Some(r.start.saturating_sub(1).max(1))),
            6 => (Some((r.start + r.end) / 2), Some(((r.start + r.end) / 2 + rng.below(40_000) as usize).min(limit))),
            7 => (Some(r.start.saturating_sub(1 + rng.below(20_000) as usize).max(1)), Some(r.start.saturating_sub(1).max(1))),
            _ => (Some((r.end + 1).min(limit)), Some((r.end + 1 + rng.below(100) as usize).min(limit))),
        });
    }
    for _ in 0..3 {
        let w = *rng.pick(&[1usize << 14, 1 << 17, 1 << 20, 1 << 23]);
        let k = rng.below((limit / w) as u64 + 1) as usize;
        let s = (k * w + 1).min(limit);
        qs.push((Some(s), Some((s + w - 1).min(limit))));
        qs.push((Some(s), None));
    }
    // beyond the geometry: an error of the chunk query, whatever the records are
    qs.push((Some(geom_max + 1), None));
    qs.push((Some(1), Some(geom_max + 1 + rng.below(1000) as usize)));
    // an inverted region is a valid request with an empty answer
    qs.push((Some(limit.min(5000)), Some(17)));
    qs
}

struct SeenRec {
    serial: usize,
    rid: Option<usize>,
    start: Option<usize>,
    end: Option<usize>,
    unmapped: bool,
    cigar_word: String,
    off: u64,
}

fn cigar_word(rec: &bam::Record) -> String {
    let ops: Vec<String> = rec.cigar().iter().map(|r| r.map(|op| format!("{}.{}", kind_index(op.kind()), op.len())).unwrap_or_else(|_| "e".into())).collect();
    if ops.is_empty() { "*".into() } else { ops.join(";") }
}

fn bam_file_case(ctx: &mut Ctx, sub: u64) {
    use sam::alignment::io::Write as _;
    use sam::alignment::Record as _;
    let mut rng = Rng::new(sub ^ 0xba4);
    let case = format!("span-bam {sub}");
    let (ms, d) = if rng.chance(1, 2) { (14u8, 5u8) } else { *rng.pick(&[(14u8, 6u8), (12, 5), (16, 4), (10, 6)]) };
    let limit = maxpos(14, 5).min(maxpos(ms, d));
    let g = gen_records(&mut rng, limit, true);
    let header = sam_header(&g);
    let path = format!("{}/files/span-{sub}.bam", ctx.dir);
    let wr = guarded(|| -> io::Result<()> {
        let mut w = bam::io::Writer::new(std::fs::File::create(&path)?);
        w.write_header(&header)?;
        for r in &g.recs {
            w.write_alignment_record(&header, &to_record_buf(r))?;
        }
        w.try_finish()
    });
    if let Ok(Err(e)) | Err(e) = wr.map(|r| r.map_err(|e| e.to_string())) {
        ctx.fail("bam-write", format!("writing the BAM failed: {e}"), case.clone());
        return;
    }
    // read back: the records as the real accessors see them, with their virtual positions
    let mut seen: Vec<SeenRec> = vec![];
    let end_off;
    let mut csi_ix = Indexer::<BinnedIndex>::new(ms, d);
    {
        let mut reader = bam::io::Reader::new(std::fs::File::open(&path).unwrap());
        reader.read_header().unwrap();
        let mut rec = bam::Record::default();
        loop {
            let start = reader.get_ref().virtual_position();
            match reader.read_record(&mut rec) {
                Ok(0) => {
                    end_off = u64::from(start);
                    break;
                }
                Ok(_) => {
                    let end = reader.get_ref().virtual_position();
                    let rid = rec.reference_sequence_id().transpose().unwrap();
                    let st = rec.alignment_start().transpose().unwrap();
                    let en = rec.alignment_end().transpose().unwrap();
                    let unmapped = rec.flags().is_unmapped();
                    seen.push(SeenRec { serial: serial_of(rec.name().unwrap()), rid, start: st.map(usize::from), end: en.map(usize::from), unmapped, cigar_word: cigar_word(&rec), off: u64::from(start) });
                    let c = match (rid, st, en) {
                        (Some(id), Some(s), Some(e)) => Some((id, s, e, !unmapped)),
                        _ => None,
                    };
                    if let Err(e) = csi_ix.add_record(c, Chunk::new(start, end)) {
                        ctx.fail("bam-index", format!("csi indexer rejected record {}: {e}", seen.len() - 1), case.clone());
                        return;
                    }
                }
                Err(e) => {
                    ctx.fail("bam-read", format!("reading back the BAM failed: {e}"), case.clone());
                    return;
                }
            }
        }
    }
    if seen.len() != g.recs.len() {
        ctx.fail("bam-read", format!("{} records written, {} read", g.recs.len(), seen.len()), case.clone());
        return;
    }
    // span oracle on the real file: POS + reference-consuming CIGAR length - 1, by the harness's own sum
    for (s, gr) in seen.iter().zip(&g.recs) {
        ctx.eval(None);
        if gr.rid.is_some() && (s.start != Some(gr.start) || s.end != Some(gr.end)) {
            ctx.fail("span-align", format!("record r{}: reader reports {:?}-{:?}, written as {}-{}", s.serial, s.start, s.end, gr.start, gr.end), case.clone());
            return;
        }
    }
    let csi_index: csi::Index = csi_ix.build(g.nref);
    let bai = match guarded(|| bam::fs::index(&path)) {
        Ok(Ok(i)) => i,
        other => {
            ctx.fail("bam-index", format!("bam::fs::index failed: {:?}", other.map(|r| r.map(|_| ()).map_err(|e| e.to_string()))), case.clone());
            return;
        }
    };
    let csi_file = match roundtrip_csi(&csi_index) {
        Ok(i) => i,
        Err(e) => {
            ctx.fail("csi-file", format!("CSI write/read failed: {e}"), case.clone());
            return;
        }
    };
    let file_srecs: Vec<SRec> = seen
        .iter()
        .map(|s| SRec {
            ctx: match (s.rid, s.start, s.end) {
                (Some(r), Some(a), Some(b)) => Some((r, a, b)),
                _ => None,
            },
            off: s.off,
            unmapped: s.unmapped,
        })
        .collect();
    let fw = file_word(&file_srecs);
    // ---- the unmapped query
    let unplaced: Vec<usize> = g.recs.iter().filter(|r| r.rid.is_none()).map(|r| r.serial).collect();
    let first_unplaced_off = seen.iter().find(|s| s.rid.is_none()).map(|s| s.off);
    let kinds: [(&str, u8, u8, &dyn UnmappedDyn); 3] = [("lin", 14, 5, &bai), ("bin", ms, d, &csi_index), ("binfile", ms, d, &csi_file)];
    for (kind, kms, kd, ix) in kinds {
        let seek = ix.seek();
        let mut rd = bam::io::Reader::new(std::fs::File::open(&path).unwrap());
        rd.read_header().unwrap();
        let got = guarded(|| ix.unmapped(&mut rd));
        ctx.eval(Some(fnv(format!("{case} unmapped {kind}").as_bytes())));
        ctx.bump(&format!("unmapped_{kind}_{}", if seek.is_some() { "seek" } else { "from-start" }));
        match got {
            Ok(Ok(v)) => {
                if emit_ok(&seen) {
                    ctx.corr(format!("c04 unmapped {kind} {kms} {kd} {} {fw} {end_off}", g.nref), format!("seek={} recs={}", seek.map(|p| p.to_string()).unwrap_or_else(|| "none".into()), fmt_ids(&v)));
                }
                let flagged_ok = v.iter().all(|s| g.recs[*s].unmapped_flag);
                let got_unplaced: Vec<usize> = v.iter().copied().filter(|s| g.recs[*s].rid.is_none()).collect();
                let ordered = v.windows(2).all(|w| w[0] < w[1]);
                if !flagged_ok || got_unplaced != unplaced || !ordered {
                    ctx.fail("query-unmapped", format!("unmapped query ({kind}) returned {v:?}; the unplaced unmapped records are {unplaced:?}"), case.clone());
                }
                if let (Some(p), Some(f)) = (seek, first_unplaced_off) {
                    if p >= f {
                        ctx.fail("unmapped-seek", format!("{kind}: seek target {p} is not before the first unplaced record at {f}"), case.clone());
                    }
                }
                if v.len() > unplaced.len() {
                    ctx.bump("unmapped_also_placed_unmapped");
                }
            }
            other => ctx.fail("query-unmapped", format!("unmapped query ({kind}) failed: {:?}", other.map(|r| r.map_err(|e| e.to_string()))), case.clone()),
        }
    }
    // ---- region queries at record level
    let mut shared = bam::io::Reader::new(std::fs::File::open(&path).unwrap());
    let hdr = shared.read_header().unwrap();
    let mut qfile_budget = 40;
    for rid in 0..g.nref {
        let on_ref: Vec<&GRec> = g.recs.iter().filter(|r| r.rid == Some(rid)).collect();
        let file_idx: Vec<usize> = on_ref.iter().map(|r| r.serial).collect();
        let body = if on_ref.is_empty() {
            "-".to_string()
        } else {
            file_idx
                .iter()
                .map(|&fi| {
                    let s = &seen[fi];
                    let next = seen.get(fi + 1).map(|n| n.off).unwrap_or(end_off);
                    format!("{}:{}:{}:{}", s.start.unwrap(), s.off, next, s.cigar_word)
                })
                .collect::<Vec<_>>()
                .join(",")
        };
        let regions = gen_regions(&mut rng, limit, maxpos(ms, d), &on_ref);
        for q in regions {
            for (kind, kms, kd) in [("lin", 14u8, 5u8), ("bin", ms, d)] {
                let region = region_of(&format!("sq{rid}"), q);
                let got = guarded(|| -> io::Result<Vec<usize>> {
                    let mut out = vec![];
                    let query = if kind == "lin" { shared.query(&hdr, &bai, &region)? } else { shared.query(&hdr, &csi_index, &region)? };
                    for r in query.records() {
                        out.push(serial_of(r?.name().unwrap()));
                    }
                    Ok(out)
                });
                let beyond = q.0.map(|s| s > maxpos(kms, kd)).unwrap_or(false) || q.1.map(|e| e > maxpos(kms, kd)).unwrap_or(false);
                ctx.eval(if on_ref.len() >= 2 { Some(fnv(format!("{case} {kind} {rid} {q:?}").as_bytes())) } else { None });
                ctx.bump(&format!("qrecs_{kind}"));
                let ans = match &got {
                    Ok(Ok(v)) => {
                        let local: Vec<usize> = v.iter().map(|s| file_idx.iter().position(|x| x == s).unwrap_or(usize::MAX)).collect();
                        format!("recs={}", fmt_ids(&local))
                    }
                    Ok(Err(e)) => errclass(e).into(),
                    Err(_) => "panic".into(),
                };
                if on_ref.len() <= 60 {
                    ctx.corr(format!("c04 qrecs {kind} {kms} {kd} {body} {rid} {} {}", arg_opt(q.0), arg_opt(q.1)), ans.clone());
                }
                if emit_ok(&seen) && qfile_budget > 0 {
                    // the same query against the WHOLE file (all references + the unplaced tail), global ids
                    qfile_budget -= 1;
                    let gans = match &got {
                        Ok(Ok(v)) => format!("recs={}", fmt_ids(v)),
                        Ok(Err(e)) => errclass(e).into(),
                        Err(_) => "panic".into(),
                    };
                    ctx.bump("qfile");
                    ctx.corr(format!("c04 qfile {kind} {kms} {kd} {fw} {end_off} {rid} {} {}", arg_opt(q.0), arg_opt(q.1)), gans);
                }
                if beyond {
                    ctx.bump("qrecs_region_beyond_geometry");
                    if !ans.starts_with("err") {
                        ctx.bump("qrecs_beyond_geometry_answered");
                    }
                    continue;
                }
                let expect: Vec<usize> = on_ref.iter().filter(|r| overlaps(r.start, r.end, q)).map(|r| r.serial).collect();
                if !expect.is_empty() {
                    ctx.bump("qrecs_with_hits");
                }
                match &got {
                    Ok(Ok(v)) if *v == expect => {}
                    Ok(Ok(v)) => {
                        ctx.fail("query-records", format!("{kind} query sq{rid}:{:?}-{:?} returned records {v:?}, a scan with spans from POS + CIGAR keeps {expect:?}", q.0, q.1), case.clone());
                        let _ = std::fs::remove_file(&path);
                        return;
                    }
                    _ => {
                        ctx.fail("query-records", format!("{kind} query sq{rid}:{:?}-{:?} failed: {ans}", q.0, q.1), case.clone());
                        let _ = std::fs::remove_file(&path);
                        return;
                    }
                }
            }
        }
    }
    let _ = std::fs::remove_file(&path);
    ctx.bump("span_files_bam");
    ctx.bump_by("span_records_bam", g.recs.len() as u64);
}

fn emit_ok(seen: &[SeenRec]) -> bool {
    seen.len() <= 120
}

trait UnmappedDyn {
    fn seek(&self) -> Option<u64>;
    fn unmapped(&self, rd: &mut bam::io::Reader<bgzf::io::Reader<std::fs::File>>) -> io::Result<Vec<usize>>;
}
impl<I: csi::binning_index::index::reference_sequence::Index> UnmappedDyn for csi::binning_index::Index<I> {
    fn seek(&self) -> Option<u64> {
        self.last_first_record_start_position().map(u64::from)
    }
    fn unmapped(&self, rd: &mut bam::io::Reader<bgzf::io::Reader<std::fs::File>>) -> io::Result<Vec<usize>> {
        let mut out = vec![];
        for r in rd.query_unmapped(self)? {
            out.push(serial_of(r?.name().unwrap()));
        }
        Ok(out)
    }
}

fn vcf_header(g: &Gen, v45: bool) -> vcf::Header {
    use vcf::header::record::value::{map::Contig, Map};
    use vcf::variant::record::info::field::key;
    let ff = if v45 { vcf::header::FileFormat::new(4, 5) } else { vcf::header::FileFormat::new(4, 3) };
    let mut b = vcf::Header::builder().set_file_format(ff);
    for i in 0..g.nref {
        b = b.add_contig(format!("sq{i}"), Map::<Contig>::new());
    }
    b = b.add_info(key::END_POSITION, Map::from((ff, key::END_POSITION)));
    b = b.add_info(key::SV_LENGTHS, Map::from((ff, key::SV_LENGTHS)));
    b.build()
}

/// how record `r` is written: (|REF|, END word, SVLEN word) and the record itself
fn to_variant(r: &GRec, v45: bool) -> (vcf::variant::RecordBuf, usize, String, String) {
    use vcf::variant::record::info::field::key;
    use vcf::variant::record_buf::{info::field::Value, AlternateBases, Info};
    let span = r.end - r.start + 1;
    let mut b = vcf::variant::RecordBuf::builder()
        .set_reference_sequence_name(format!("sq{}", r.rid.unwrap()))
        .set_variant_start(Position::try_from(r.start).unwrap())
        .set_ids([format!("r{}", r.serial)].into_iter().collect());
    if span <= 40 {
        b = b.set_reference_bases("ACGTTGCA".repeat(6)[..span].to_string()).set_alternate_bases(AlternateBases::from(vec!["A".to_string()]));
        (b.build(), span, "a".into(), "a".into())
    } else {
        b = b.set_reference_bases("N").set_alternate_bases(AlternateBases::from(vec!["<DEL>".to_string()]));
        let (info, ew, sw): (Info, String, String) = if v45 {
            ([(key::SV_LENGTHS.to_string(), Some(Value::from(vec![Some(span as i32)])))].into_iter().collect(), "a".into(), format!("I{span}"))
        } else {
            ([(key::END_POSITION.to_string(), Some(Value::from(r.end as i32)))].into_iter().collect(), format!("i{}", r.end), "a".into())
        };
        (b.set_info(info).build(), 1, ew, sw)
    }
}

fn id_serial(ids: &str) -> usize {
    ids[1..].parse().unwrap()
}

fn variant_file_case(ctx: &mut Ctx, sub: u64, bcf_format: bool) {
    use vcf::variant::io::Write as _;
    use vcf::variant::Record as _;
    let mut rng = Rng::new(sub ^ 0x7cf);
    let what = if bcf_format { "bcf" } else { "vcf" };
    let case = format!("span-{what} {sub}");
    let limit = maxpos(14, 5);
    let g = gen_records(&mut rng, limit, false);
    let v45 = rng.chance(1, 2);
    let header = vcf_header(&g, v45);
    let path = format!("{}/files/span-{sub}.{}", ctx.dir, if bcf_format { "bcf" } else { "vcf.gz" });
    let written: Vec<(vcf::variant::RecordBuf, usize, String, String)> = g.recs.iter().map(|r| to_variant(r, v45)).collect();
    let wr = guarded(|| -> io::Result<()> {
        if bcf_format {
            let mut w = bcf::io::Writer::new(std::fs::File::create(&path)?);
            w.write_header(&header)?;
            for r in &written {
                w.write_variant_record(&header, &r.0)?;
            }
            w.try_finish()
        } else {
            let mut w = vcf::io::Writer::new(bgzf::io::Writer::new(std::fs::File::create(&path)?));
            w.write_header(&header)?;
            for r in &written {
                w.write_variant_record(&header, &r.0)?;
            }
            w.get_mut().flush()?;
            w.get_mut().try_finish()
        }
    });
    if let Ok(Err(e)) | Err(e) = wr.map(|r| r.map_err(|e| e.to_string())) {
        ctx.fail(&format!("{what}-write"), format!("writing failed: {e}"), case.clone());
        return;
    }
    // offsets + span oracle through the lazy records
    let mut offs: Vec<u64> = vec![];
    let end_off;
    macro_rules! scan {
        ($reader:expr, $rec:expr, $hdr:expr) => {{
            loop {
                let start = $reader.get_ref().virtual_position();
                match $reader.read_record(&mut $rec) {
                    Ok(0) => break u64::from(start),
                    Ok(_) => {
                        let i = offs.len();
                        offs.push(u64::from(start));
                        let st = $rec.variant_start().transpose().ok().flatten().map(usize::from);
                        let en = $rec.variant_end(&$hdr).ok().map(usize::from);
                        let sp = $rec.variant_span(&$hdr).ok();
                        ctx.eval(None);
                        let gr = &g.recs[i];
                        if st != Some(gr.start) || en != Some(gr.end) || sp != Some(gr.end - gr.start + 1) {
                            ctx.fail("span-variant", format!("{what} record {i}: reader reports {st:?}-{en:?} (span {sp:?}), written span {}-{} (fileformat {})", gr.start, gr.end, if v45 { "4.5 SVLEN" } else { "4.3 END" }), case.clone());
                            return;
                        }
                    }
                    Err(e) => {
                        ctx.fail(&format!("{what}-read"), format!("reading back failed: {e}"), case.clone());
                        return;
                    }
                }
            }
        }};
    }
    if bcf_format {
        let mut reader = bcf::io::Reader::new(std::fs::File::open(&path).unwrap());
        let hdr = reader.read_header().unwrap();
        let mut rec = bcf::Record::default();
        end_off = scan!(reader, rec, hdr);
    } else {
        let mut reader = vcf::io::Reader::new(bgzf::io::Reader::new(std::fs::File::open(&path).unwrap()));
        let hdr = reader.read_header().unwrap();
        let mut rec = vcf::Record::default();
        end_off = scan!(reader, rec, hdr);
    }
    if offs.len() != g.recs.len() {
        ctx.fail(&format!("{what}-read"), format!("{} records written, {} read", g.recs.len(), offs.len()), case.clone());
        return;
    }
    let (major, minor) = if v45 { (4, 5) } else { (4, 3) };
    // queries
    let run_queries = |ctx: &mut Ctx, rng: &mut Rng, run: &mut dyn FnMut(&Region) -> io::Result<Vec<usize>>, kind: &str, present: &[usize]| {
        for &rid in present {
            let on_ref: Vec<&GRec> = g.recs.iter().filter(|r| r.rid == Some(rid)).collect();
            let file_idx: Vec<usize> = on_ref.iter().map(|r| r.serial).collect();
            let body = if on_ref.is_empty() {
                "-".to_string()
            } else {
                file_idx
                    .iter()
                    .map(|&fi| {
                        let next = offs.get(fi + 1).copied().unwrap_or(end_off);
                        let w = &written[fi];
                        format!("{}:{}:{}:{}:{}:{}:a", g.recs[fi].start, offs[fi], next, w.1, w.2, w.3)
                    })
                    .collect::<Vec<_>>()
                    .join(",")
            };
            for q in gen_regions(rng, limit, limit, &on_ref) {
                let region = region_of(&format!("sq{rid}"), q);
                let got = guarded(|| run(&region));
                ctx.eval(if on_ref.len() >= 2 { Some(fnv(format!("{case} {rid} {q:?}").as_bytes())) } else { None });
                ctx.bump(&format!("qvars_{what}"));
                let ans = match &got {
                    Ok(Ok(v)) => {
                        let local: Vec<usize> = v.iter().map(|s| file_idx.iter().position(|x| x == s).unwrap_or(usize::MAX)).collect();
                        format!("recs={}", fmt_ids(&local))
                    }
                    Ok(Err(e)) => errclass(e).into(),
                    Err(_) => "panic".into(),
                };
                if on_ref.len() <= 60 {
                    ctx.corr(format!("c04 qvars {kind} {major} {minor} 14 5 {body} {} {}", arg_opt(q.0), arg_opt(q.1)), ans.clone());
                }
                let beyond = q.0.map(|s| s > limit).unwrap_or(false) || q.1.map(|e| e > limit).unwrap_or(false);
                if beyond {
                    ctx.bump("qvars_region_beyond_geometry");
                    continue;
                }
                let expect: Vec<usize> = on_ref.iter().filter(|r| overlaps(r.start, r.end, q)).map(|r| r.serial).collect();
                match &got {
                    Ok(Ok(v)) if *v == expect => {}
                    _ => {
                        ctx.fail("query-records", format!("{what} query sq{rid}:{:?}-{:?} gave {ans}, a scan with spans from REF/END/SVLEN keeps {expect:?}", q.0, q.1), case.clone());
                        return;
                    }
                }
            }
        }
    };
    if bcf_format {
        let index = match guarded(|| bcf::fs::index(&path)) {
            Ok(Ok(i)) => i,
            other => {
                ctx.fail("bcf-index", format!("bcf::fs::index failed: {:?}", other.map(|r| r.map(|_| ()).map_err(|e| e.to_string()))), case.clone());
                return;
            }
        };
        let mut shared = bcf::io::Reader::new(std::fs::File::open(&path).unwrap());
        let hdr = shared.read_header().unwrap();
        let mut run = |region: &Region| -> io::Result<Vec<usize>> {
            let mut out = vec![];
            for r in shared.query(&hdr, &index, region)?.records() {
                let r = r?;
                let ids = r.ids();
                out.push(id_serial(std::str::from_utf8(AsRef::<[u8]>::as_ref(&ids.as_ref())).unwrap()));
            }
            Ok(out)
        };
        let all: Vec<usize> = (0..g.nref).collect();
        run_queries(ctx, &mut rng, &mut run, "bin", &all);
        ctx.bump("span_files_bcf");
    } else {
        let index = match guarded(|| vcf::fs::index(&path)) {
            Ok(Ok(i)) => i,
            other => {
                ctx.fail("vcf-index", format!("vcf::fs::index failed: {:?}", other.map(|r| r.map(|_| ()).map_err(|e| e.to_string()))), case.clone());
                return;
            }
        };
        let mut shared = vcf::io::Reader::new(bgzf::io::Reader::new(std::fs::File::open(&path).unwrap()));
        let hdr = shared.read_header().unwrap();
        let mut run = |region: &Region| -> io::Result<Vec<usize>> {
            let mut out = vec![];
            for r in shared.query(&hdr, &index, region)?.records() {
                let r = r?;
                let ids = r.ids();
                out.push(id_serial(std::str::from_utf8(AsRef::<[u8]>::as_ref(&ids.as_ref())).unwrap()));
            }
            Ok(out)
        };
        // tabix only knows the references that have records
        let present: Vec<usize> = (0..g.nref).filter(|rid| g.recs.iter().any(|r| r.rid == Some(*rid))).collect();
        run_queries(ctx, &mut rng, &mut run, "lin", &present);
        ctx.bump("span_files_vcf");
    }
    let _ = std::fs::remove_file(&path);
    ctx.bump_by(&format!("span_records_{what}"), g.recs.len() as u64);
}

// ---------------------------------------------------------------- entry points

fn random_case(ctx: &mut Ctx, suite: &str, sub: u64) {
    match suite {
        "aspan" => {
            let mut rng = Rng::new(sub ^ 0xa59a);
            let start = gen_start(&mut rng);
            let items = gen_items(&mut rng);
            aspan_case(ctx, start, items, &format!("aspan {sub}"));
        }
        "lazy" => {
            let mut rng = Rng::new(sub ^ 0x1a27);
            let rid = match rng.below(10) {
                0 => -1,
                1 => -2 - rng.below(100) as i32,
                _ => rng.below(5) as i32,
            };
            let pos = match rng.below(10) {
                0 => -1,
                1 => -2 - rng.below(100) as i32,
                2 => i32::MAX - rng.below(3) as i32,
                _ => rng.below(1 << 29) as i32,
            };
            let words = gen_words(&mut rng);
            lazy_case(ctx, rid, pos, words, &format!("lazy {sub}"));
        }
        "buf" => {
            let mut rng = Rng::new(sub ^ 0xb0f);
            let start = match gen_start(&mut rng) {
                Some(Ok(n)) => Some(n),
                _ => None,
            };
            let ops: Vec<(usize, usize)> = gen_items(&mut rng).into_iter().flatten().collect();
            buf_case(ctx, start, ops, &format!("buf {sub}"));
        }
        "vend" => vend_random(ctx, sub),
        "isect-bam" => isect_bam_random(ctx, sub),
        "isect-vcf" => isect_vcf_random(ctx, sub),
        "isect-bcf" | "isect-csi" => isect_other_random(ctx, sub),
        "lastfirst" => lastfirst_random(ctx, sub),
        "span-bam" => bam_file_case(ctx, sub),
        "span-bcf" => variant_file_case(ctx, sub, true),
        "span-vcf" => variant_file_case(ctx, sub, false),
        _ => {}
    }
}

fn corpus(ctx: &mut Ctx) {
    aspan_corpus(ctx);
    lazy_corpus(ctx);
    let m = USIZE_MAX;
    let bufs: Vec<(Option<usize>, Vec<(usize, usize)>)> = vec![
        (Some(100), vec![(4, 5), (0, 10)]),
        (None, vec![(0, 10)]),
        (Some(100), vec![]),
        (Some(100), vec![(4, 5), (1, 3)]),
        (Some(1), vec![(0, m)]),
        (Some(2), vec![(0, m)]),
        (Some(1), vec![(0, m - 1)]),
        (Some(1), vec![(0, m), (0, 1)]),
        (Some(1), vec![(1, m), (4, m), (0, 3)]),
        (Some(m), vec![]),
        (Some(m), vec![(0, 1)]),
    ];
    for (i, (s, ops)) in bufs.into_iter().enumerate() {
        buf_case(ctx, s, ops, &format!("buf-corpus {i}"));
    }
    vend_corpus(ctx);
    isect_bam_corpus(ctx);
    isect_vcf_corpus(ctx);
    isect_other_corpus(ctx);
    lastfirst_corpus(ctx);
}

pub fn run(ctx: &mut Ctx) {
    std::fs::create_dir_all(format!("{}/files", ctx.dir)).ok();
    corpus(ctx);
    let seed = ctx.seed;
    let mut go = |ctx: &mut Ctx, suite: &str, q: u64, t: u64, salt: u64| {
        let n = ctx.n(q, t);
        for it in 0..n {
            random_case(ctx, suite, seed.wrapping_mul(salt).wrapping_add(it));
        }
    };
    go(ctx, "aspan", 1500, 60_000, 1_000_003);
    go(ctx, "lazy", 800, 30_000, 1_000_033);
    go(ctx, "buf", 400, 10_000, 1_000_037);
    go(ctx, "vend", 1500, 60_000, 1_000_039);
    go(ctx, "isect-bam", 500, 8_000, 1_000_081);
    go(ctx, "isect-vcf", 300, 5_000, 1_000_099);
    go(ctx, "isect-bcf", 300, 5_000, 1_000_117);
    go(ctx, "lastfirst", 500, 40_000, 1_000_121);
    go(ctx, "span-bam", 10, 300, 1_000_133);
    go(ctx, "span-bcf", 5, 150, 1_000_151);
    go(ctx, "span-vcf", 5, 150, 1_000_159);
}

/// replay one oracle case; `true` if the case words belong to this module
pub fn replay(ctx: &mut Ctx, case: &[String]) -> bool {
    let Some(suite) = case.first().map(|s| s.as_str()) else { return false };
    const SUITES: [&str; 11] = ["aspan", "lazy", "buf", "vend", "isect-bam", "isect-vcf", "isect-bcf", "isect-csi", "lastfirst", "span-bam", "span-bcf"];
    std::fs::create_dir_all(format!("{}/files", ctx.dir)).ok();
    if suite.ends_with("-corpus") {
        let known = ["aspan-corpus", "lazy-corpus", "buf-corpus", "vend-corpus", "isect-bam-corpus", "isect-vcf-corpus", "isect-bcf-corpus", "isect-csi-corpus", "lastfirst-corpus"];
        if known.contains(&suite) {
            corpus(ctx);
            return true;
        }
        return false;
    }
    if SUITES.contains(&suite) || suite == "span-vcf" {
        let sub: u64 = case.get(1).and_then(|s| s.parse().ok()).unwrap_or(0);
        random_case(ctx, suite, sub);
        return true;
    }
    false
}
