//! C07 (extension "chunk") — the CRAM writer's record stream → slices → containers state machine against
//! the Lean model `Noodles.Cram.Chunk`.
//!
//! CORRESPONDENCE (`c07 chunk <rps> <spc> <rec;…>`): a generated stream of simple records (runs of one
//! reference, several references in order, alternating references, unmapped tails, mapped → unmapped →
//! mapped, unmapped reads placed on a reference with / without a position) is written by the real
//! `cram::io::Writer` built with the cfg(noodles_verif) hook `verif_build_from_writer_with_layout(rps, spc)`
//! (rps / spc = 0 included) and read back container by container with the real reader
//! (`read_container`, `Container::header`, `slices`, `Slice::records`); the slice header fields
//! (`Slice::header()` is crate-private) come from the independent container walker over the same bytes.
//! The answer per container: context, record counter, record count, base count, and per slice context,
//! record counter, record count, first and last record name. A failing writer answers the error class
//! and the number of the record whose `write_alignment_record` failed (or `finish`).
//! `c07 chunk names …`: the names `Reader::records` returns for the whole file, against `readAll` over `items`.
//! ORACLE (on the real code): the names read back, in file order, are the input names (`chunk-stream`);
//! every slice has 1..=rps records and every container 1..=spc slices (`chunk-bounds`); the container /
//! slice record counters are the running totals and the counts add up (`chunk-counters`); an empty stream
//! gives no data container (`chunk-empty`); a file the writer produced is readable (`chunk-read`).
use crate::common::*;
use noodles_cram as cram;
use noodles_fasta as fasta;
use noodles_sam as sam;
use sam::alignment::io::Write as _;

#[path = "c07/walker.rs"]
#[allow(dead_code)]
mod walker;
use walker::{walk, ExpRec, Expect};

const REF_LEN: usize = 300;
const NREFS: usize = 3;

#[derive(Clone, Debug)]
struct Rec {
    name: String,
    mapped: bool,
    rid: Option<usize>,
    pos: Option<usize>,
    len: usize,
}

impl Rec {
    /// `io::writer::Record::alignment_end`: start + span - 1 for a mapped read, the start for an unmapped one
    fn end(&self) -> Option<usize> {
        self.pos.map(|p| if self.mapped { p + self.len - 1 } else { p })
    }
}

#[derive(Clone, Debug)]
struct Case {
    label: String,
    rps: usize,
    spc: usize,
    recs: Vec<Rec>,
}

fn refs() -> Vec<(String, Vec<u8>)> {
    (0..NREFS)
        .map(|k| {
            let mut r = Rng::new(0xC07C_0000 + k as u64);
            (format!("sq{k}"), (0..REF_LEN).map(|_| b"ACGT"[r.below(4) as usize]).collect())
        })
        .collect()
}

fn repository(refs: &[(String, Vec<u8>)]) -> fasta::Repository {
    let recs: Vec<fasta::Record> = refs
        .iter()
        .map(|(n, s)| fasta::Record::new(fasta::record::Definition::new(n.as_bytes(), None), fasta::record::Sequence::from(s.clone())))
        .collect();
    fasta::Repository::new(recs)
}

fn sam_text(case: &Case, refs: &[(String, Vec<u8>)]) -> String {
    let mut t = String::from("@HD\tVN:1.6\n");
    for (n, s) in refs {
        t.push_str(&format!("@SQ\tSN:{n}\tLN:{}\n", s.len()));
    }
    for r in &case.recs {
        let seq: String = match (r.mapped, r.rid, r.pos) {
            (true, Some(id), Some(p)) => String::from_utf8_lossy(&refs[id].1[p - 1..p - 1 + r.len]).into_owned(),
            _ => "ACGTTGCA".chars().cycle().take(r.len).collect(),
        };
        let qual: String = std::iter::repeat('I').take(r.len).collect();
        t.push_str(&format!(
            "{}\t{}\t{}\t{}\t{}\t{}\t*\t0\t0\t{}\t{}\n",
            r.name,
            if r.mapped { 0 } else { 4 },
            r.rid.map(|i| refs[i].0.clone()).unwrap_or_else(|| "*".into()),
            r.pos.unwrap_or(0),
            if r.mapped { 30 } else { 0 },
            if r.mapped { format!("{}M", r.len) } else { "*".into() },
            seq,
            qual
        ));
    }
    t
}

fn opt(x: Option<usize>) -> String {
    x.map(|v| v.to_string()).unwrap_or_else(|| "-".into())
}

fn request(case: &Case) -> String {
    let recs: Vec<String> = case.recs.iter().map(|r| format!("{},{},{},{},{}", r.name, opt(r.rid), opt(r.pos), opt(r.end()), r.len)).collect();
    format!("c07 chunk {} {} {}", case.rps, case.spc, if recs.is_empty() { "-".into() } else { recs.join(";") })
}

enum Written {
    Ok(Vec<u8>),
    /// error class / `panic`, and where (`<record number>` / `finish`)
    Failed(String, String),
}

fn write(case: &Case, refs: &[(String, Vec<u8>)]) -> Result<Written, String> {
    let text = sam_text(case, refs);
    let mut rd = sam::io::Reader::new(text.as_bytes());
    let header = rd.read_header().map_err(|e| format!("generator: SAM header rejected: {e}"))?;
    let bufs: Vec<sam::alignment::RecordBuf> = rd.record_bufs(&header).collect::<std::io::Result<_>>().map_err(|e| format!("generator: SAM record rejected: {e}"))?;
    let b = cram::io::writer::Builder::default().set_reference_sequence_repository(repository(refs));
    let mut w = b.verif_build_from_writer_with_layout(Vec::new(), case.rps, case.spc);
    w.write_header(&header).map_err(|e| format!("write_header: {e}"))?;
    for (i, r) in bufs.iter().enumerate() {
        match guarded(|| w.write_alignment_record(&header, r)) {
            Ok(Ok(())) => {}
            Ok(Err(e)) => return Ok(Written::Failed(errclass(&e).into(), i.to_string())),
            Err(_) => return Ok(Written::Failed("panic".into(), i.to_string())),
        }
    }
    match guarded(|| w.try_finish(&header)) {
        Ok(Ok(())) => {}
        Ok(Err(e)) => return Ok(Written::Failed(errclass(&e).into(), "finish".into())),
        Err(_) => return Ok(Written::Failed("panic".into(), "finish".into())),
    }
    Ok(Written::Ok(w.get_ref().clone()))
}

/// the Debug rendering of the crate-private `ReferenceSequenceContext` → `S<id>.<start>.<end>` / `N` / `M`
fn ctx_of_debug(d: &str) -> String {
    if d.starts_with("Some") {
        let mut nums = vec![];
        let mut cur = String::new();
        for c in d.chars() {
            if c.is_ascii_digit() {
                cur.push(c);
            } else if !cur.is_empty() {
                nums.push(std::mem::take(&mut cur));
            }
        }
        if nums.len() == 3 { format!("S{}.{}.{}", nums[0], nums[1], nums[2]) } else { format!("?{d}") }
    } else if d.starts_with("None") {
        "N".into()
    } else if d.starts_with("Many") {
        "M".into()
    } else {
        format!("?{d}")
    }
}

fn ctx_of_triple(ref_id: i32, start: i32, span: i32) -> String {
    match ref_id {
        -1 => "N".into(),
        -2 => "M".into(),
        id => format!("S{id}.{start}.{}", start + span - 1),
    }
}

struct RSlice {
    ctx: String,
    counter: i64,
    nrec: i32,
    names: Vec<String>,
}
struct RContainer {
    ctx: String,
    counter: u64,
    nrec: usize,
    bases: u64,
    landmarks: usize,
    slices: Vec<RSlice>,
}

fn read_back(bytes: &[u8], case: &Case, refs: &[(String, Vec<u8>)]) -> Result<Vec<RContainer>, String> {
    use sam::alignment::Record as _;
    let ex = Expect {
        recs: case.recs.iter().map(|r| ExpRec { rid: r.rid.map(|i| i as i32).unwrap_or(-1), start: r.pos.unwrap_or(0), end: r.end().unwrap_or(0), read_len: r.len, exact: false }).collect(),
        refs: refs.iter().map(|r| r.1.clone()).collect(),
        preserve_names: true,
        deltas: true,
    };
    let wk = walk(bytes, &ex);
    if let Some(p) = wk.problems.iter().find(|p| p.0 == "walker-parse") {
        return Err(format!("walker: {}", p.1));
    }
    let r = guarded(|| -> std::io::Result<Vec<RContainer>> {
        let bad = |m: String| std::io::Error::new(std::io::ErrorKind::Other, m);
        let mut rd = cram::io::reader::Builder::default().set_reference_sequence_repository(repository(refs)).build_from_reader(bytes);
        let header = rd.read_header()?;
        let mut container = cram::io::reader::Container::default();
        let mut out = vec![];
        let mut k = 0usize;
        while rd.read_container(&mut container)? != 0 {
            let h = container.header();
            let wc = wk.containers.get(k).ok_or_else(|| bad(format!("the reader finds container {k}, the walker does not")))?;
            let mut rc = RContainer {
                ctx: ctx_of_debug(&format!("{:?}", h.reference_sequence_context())),
                counter: h.record_counter(),
                nrec: h.record_count(),
                bases: h.base_count(),
                landmarks: h.landmarks().len(),
                slices: vec![],
            };
            let ch = container.compression_header()?;
            for (j, slice) in container.slices().enumerate() {
                let slice = slice?;
                let ws = wc.slices.get(j).ok_or_else(|| bad(format!("the reader finds slice {j} of container {k}, the walker does not")))?;
                let (core, ext) = slice.decode_blocks()?;
                let recs = slice.records(repository(refs), &header, &ch, &core, &ext)?;
                let names = recs.iter().map(|r| r.name().map(|n| String::from_utf8_lossy(n.as_ref()).into_owned()).unwrap_or_else(|| "*".into())).collect();
                rc.slices.push(RSlice { ctx: ctx_of_triple(ws.ref_id, ws.start, ws.span), counter: ws.counter, nrec: ws.nrec, names });
            }
            if wc.slices.len() != rc.slices.len() {
                return Err(bad(format!("container {k}: the reader finds {} slices, the walker {}", rc.slices.len(), wc.slices.len())));
            }
            out.push(rc);
            k += 1;
        }
        if wk.containers.len() != out.len() {
            return Err(bad(format!("the reader finds {} data containers, the walker {}", out.len(), wk.containers.len())));
        }
        Ok(out)
    });
    match r {
        Ok(Ok(v)) => Ok(v),
        Ok(Err(e)) => Err(format!("{}: {e}", errclass(&e))),
        Err(p) => Err(format!("panic: {p}")),
    }
}

/// the whole file through `Reader::records` (the iterator the per-slice round trip composes to)
fn read_names(bytes: &[u8], refs: &[(String, Vec<u8>)]) -> Result<Vec<String>, String> {
    use sam::alignment::Record as _;
    let r = guarded(|| -> std::io::Result<Vec<String>> {
        let mut rd = cram::io::reader::Builder::default().set_reference_sequence_repository(repository(refs)).build_from_reader(bytes);
        let header = rd.read_header()?;
        let mut out = vec![];
        for rec in rd.records(&header) {
            let rec = rec?;
            out.push(rec.name().map(|n| String::from_utf8_lossy(n.as_ref()).into_owned()).unwrap_or_else(|| "*".into()));
        }
        Ok(out)
    });
    match r {
        Ok(Ok(v)) => Ok(v),
        Ok(Err(e)) => Err(format!("{}: {e}", errclass(&e))),
        Err(p) => Err(format!("panic: {p}")),
    }
}

fn answer(cs: &[RContainer]) -> String {
    if cs.is_empty() {
        return "-".into();
    }
    cs.iter()
        .map(|c| {
            let ss: Vec<String> = c
                .slices
                .iter()
                .map(|s| format!("{}+{}+{}+{}+{}", s.ctx, s.counter, s.names.len(), s.names.first().cloned().unwrap_or_else(|| "-".into()), s.names.last().cloned().unwrap_or_else(|| "-".into())))
                .collect();
            format!("{}:{}:{}:{}:{}", c.ctx, c.counter, c.nrec, c.bases, ss.join("/"))
        })
        .collect::<Vec<_>>()
        .join("|")
}

fn histogram(ctx: &mut Ctx, case: &Case) {
    ctx.bump(&format!("chunk_records_{}", match case.recs.len() { 0 => "0", 1 => "1", 2..=5 => "2-5", 6..=15 => "6-15", 16..=40 => "16-40", _ => "41+" }));
    ctx.bump(&format!("chunk_rps_{}", case.rps.min(6)));
    ctx.bump(&format!("chunk_spc_{}", case.spc.min(5)));
    let mut refs_seen = std::collections::BTreeSet::new();
    let (mut transitions, mut m2u, mut u2m) = (0, 0, 0);
    for (i, r) in case.recs.iter().enumerate() {
        refs_seen.insert(r.rid);
        ctx.bump(match (r.mapped, r.rid, r.pos) {
            (true, ..) => "chunk_rec_mapped",
            (false, None, _) => "chunk_rec_unmapped",
            (false, Some(_), Some(_)) => "chunk_rec_unmapped_placed",
            (false, Some(_), None) => "chunk_rec_unmapped_reference_without_position",
        });
        if i > 0 {
            let p = &case.recs[i - 1];
            if p.rid != r.rid {
                transitions += 1;
                if p.rid.is_some() && r.rid.is_none() { m2u += 1; }
                if p.rid.is_none() && r.rid.is_some() { u2m += 1; }
            }
        }
    }
    ctx.bump(&format!("chunk_stream_reference_values_{}", refs_seen.len()));
    ctx.bump(&format!("chunk_stream_reference_transitions_{}", match transitions { 0 => "0", 1 => "1", 2..=4 => "2-4", _ => "5+" }));
    if m2u > 0 { ctx.bump("chunk_stream_with_mapped_to_unmapped"); }
    if u2m > 0 { ctx.bump("chunk_stream_with_unmapped_to_mapped"); }
}

fn chunk_case(ctx: &mut Ctx, case: &Case) {
    let refs = refs();
    let req = request(case);
    ctx.eval(if case.recs.len() >= 2 { Some(fnv(req.as_bytes())) } else { None });
    histogram(ctx, case);
    let written = match write(case, &refs) {
        Ok(w) => w,
        Err(e) => {
            // the harness's own input was refused before the writer saw it: a harness bug, reported loudly
            ctx.fail("chunk-generator", e, case.label.clone());
            return;
        }
    };
    match written {
        Written::Failed(class, at) => {
            ctx.bump(&format!("chunk_writer_failed:{class}"));
            ctx.bump(if at == "finish" { "chunk_writer_failed_at_finish" } else { "chunk_writer_failed_at_add_record" });
            ctx.corr(req, format!("{class}@{at}"));
        }
        Written::Ok(bytes) => {
            ctx.bump("chunk_files_written");
            let cs = match read_back(&bytes, case, &refs) {
                Ok(cs) => cs,
                Err(e) => {
                    ctx.fail("chunk-read", format!("the writer accepted the stream ({} records, rps {}, spc {}), reading it back fails: {e}", case.recs.len(), case.rps, case.spc), case.label.clone());
                    return;
                }
            };
            ctx.corr(req.clone(), answer(&cs));
            match read_names(&bytes, &refs) {
                Ok(ns) => {
                    ctx.corr(req.replacen("c07 chunk ", "c07 chunk names ", 1), if ns.is_empty() { "-".into() } else { ns.join(",") });
                    let want: Vec<String> = case.recs.iter().map(|r| r.name.clone()).collect();
                    if ns != want {
                        ctx.fail("chunk-stream", format!("rps {} spc {}: names written {:?}, Reader::records returns {:?}", case.rps, case.spc, want, ns), case.label.clone());
                    }
                }
                Err(e) => ctx.fail("chunk-read", format!("Reader::records fails on an accepted file: {e}"), case.label.clone()),
            }
            // ---- oracle
            let names: Vec<String> = cs.iter().flat_map(|c| c.slices.iter().flat_map(|s| s.names.iter().cloned())).collect();
            let want: Vec<String> = case.recs.iter().map(|r| r.name.clone()).collect();
            if names != want {
                ctx.fail("chunk-stream", format!("rps {} spc {}: names written {:?}, names read back in file order {:?}", case.rps, case.spc, want, names), case.label.clone());
            }
            if case.recs.is_empty() && !cs.is_empty() {
                ctx.fail("chunk-empty", format!("an empty stream produced {} data containers", cs.len()), case.label.clone());
            }
            let mut running = 0u64;
            for (k, c) in cs.iter().enumerate() {
                ctx.bump(&format!("chunk_container_slices_{}", c.slices.len().min(6)));
                ctx.bump(&format!("chunk_container_ctx_{}", &c.ctx[..1]));
                if case.rps >= 1 && case.spc >= 1 && !(1..=case.spc).contains(&c.slices.len()) {
                    ctx.fail("chunk-bounds", format!("container {k} has {} slices, slices per container = {}", c.slices.len(), case.spc), case.label.clone());
                }
                if c.landmarks != c.slices.len() {
                    ctx.fail("chunk-counters", format!("container {k}: {} landmarks, {} slices", c.landmarks, c.slices.len()), case.label.clone());
                }
                if c.counter != running {
                    ctx.fail("chunk-counters", format!("container {k}: record counter {}, {} records precede it", c.counter, running), case.label.clone());
                }
                let mut srun = c.counter as i64;
                let mut bases = 0u64;
                for (j, s) in c.slices.iter().enumerate() {
                    ctx.bump(&format!("chunk_slice_ctx_{}", &s.ctx[..1]));
                    ctx.bump(&format!("chunk_slice_records_{}", s.names.len().min(6)));
                    if case.rps >= 1 && !(1..=case.rps).contains(&s.names.len()) {
                        ctx.fail("chunk-bounds", format!("container {k} slice {j} has {} records, records per slice = {}", s.names.len(), case.rps), case.label.clone());
                    }
                    if s.counter != srun || s.nrec as usize != s.names.len() {
                        ctx.fail("chunk-counters", format!("container {k} slice {j}: record counter {} (expected {srun}), header record count {}, records read {}", s.counter, s.nrec, s.names.len()), case.label.clone());
                    }
                    srun += s.names.len() as i64;
                }
                let lo = running as usize;
                let n: usize = c.slices.iter().map(|s| s.names.len()).sum();
                if lo + n <= case.recs.len() {
                    bases = case.recs[lo..lo + n].iter().map(|r| r.len as u64).sum();
                }
                if c.nrec != n || c.bases != bases {
                    ctx.fail("chunk-counters", format!("container {k}: header record count {} / base count {}, its slices hold {n} records / {bases} bases", c.nrec, c.bases), case.label.clone());
                }
                running += n as u64;
            }
        }
    }
}

// ------------------------------------------------------------------------------------ generators

fn mapped(name: String, rid: usize, pos: usize, len: usize) -> Rec {
    Rec { name, mapped: true, rid: Some(rid), pos: Some(pos), len }
}
fn unmapped(name: String, len: usize) -> Rec {
    Rec { name, mapped: false, rid: None, pos: None, len }
}

/// `spec`: list of (kind, count): kind 0..=2 mapped on that reference, 3 unmapped, 4 unmapped placed on sq1
/// with a position, 5 unmapped on sq1 without a position
fn stream(r: &mut Rng, spec: &[(u8, usize)], sorted: bool) -> Vec<Rec> {
    let mut out = vec![];
    for &(kind, count) in spec {
        let mut pos = 1 + r.below(40) as usize;
        for _ in 0..count {
            let name = format!("r{}", out.len());
            let len = 1 + r.below(8) as usize;
            let rec = match kind {
                0..=2 => {
                    if sorted { pos = (pos + r.below(12) as usize).min(REF_LEN - 8) } else { pos = 1 + r.below((REF_LEN - 8) as u64) as usize }
                    mapped(name, kind as usize, pos, len)
                }
                3 => unmapped(name, len),
                4 => Rec { name, mapped: false, rid: Some(1), pos: Some(1 + r.below(200) as usize), len },
                _ => Rec { name, mapped: false, rid: Some(1), pos: None, len },
            };
            out.push(rec);
        }
    }
    out
}

fn hand_corpus() -> Vec<Case> {
    let mut r = Rng::new(0xC07C);
    let mut v = vec![];
    let mut add = |rps: usize, spc: usize, spec: &[(u8, usize)], sorted: bool, r: &mut Rng| {
        let k = v.len();
        v.push(Case { label: format!("chunkhand {k}"), rps, spc, recs: stream(r, spec, sorted) });
    };
    // empty writer, every layout incl. the zeros
    add(1, 1, &[], true, &mut r);
    add(0, 0, &[], true, &mut r);
    add(3, 2, &[], true, &mut r);
    // exact multiples / one more / one less than a container (rps * spc = 6)
    add(3, 2, &[(0, 6)], true, &mut r);
    add(3, 2, &[(0, 7)], true, &mut r);
    add(3, 2, &[(0, 5)], true, &mut r);
    add(3, 2, &[(0, 12)], true, &mut r);
    add(3, 2, &[(0, 3)], true, &mut r);
    add(3, 2, &[(0, 4)], true, &mut r);
    add(1, 1, &[(0, 4)], true, &mut r);
    add(1, 3, &[(0, 7)], true, &mut r);
    add(5, 1, &[(0, 11)], true, &mut r);
    // library default layout (10240 x 1) is `rps 10240 spc 1`
    add(10240, 1, &[(0, 9), (1, 3), (3, 2)], true, &mut r);
    // reference changes at / inside / across slice boundaries
    add(2, 1, &[(0, 2), (1, 2)], true, &mut r);
    add(2, 1, &[(0, 3), (1, 3)], true, &mut r);
    add(2, 2, &[(0, 2), (1, 2)], true, &mut r); // slices S0 and S1 in one container: rejected
    add(2, 2, &[(0, 4), (1, 4)], true, &mut r); // containers pure: accepted
    add(2, 2, &[(0, 3), (1, 5)], true, &mut r); // S0 then Many: rejected
    add(2, 2, &[(0, 1), (1, 1), (2, 1), (0, 1)], true, &mut r); // Many, Many: accepted
    add(2, 2, &[(0, 2), (3, 2)], true, &mut r); // S0, None: rejected
    add(2, 2, &[(3, 4)], true, &mut r); // None, None
    add(2, 2, &[(0, 1), (3, 3)], true, &mut r); // Many, None: rejected
    add(2, 3, &[(0, 4), (3, 1)], true, &mut r); // rejected at finish
    add(3, 1, &[(0, 2), (3, 2), (0, 2)], false, &mut r); // mapped → unmapped → mapped, unsorted
    add(2, 2, &[(0, 4), (3, 4), (0, 4)], false, &mut r);
    add(2, 1, &[(4, 2), (5, 2), (4, 1), (5, 1)], true, &mut r); // unmapped reads placed on a reference
    add(2, 1, &[(5, 1), (1, 1), (1, 1), (5, 1)], true, &mut r);
    add(4, 1, &[(1, 2), (4, 2)], true, &mut r);
    // zeros: slices per container 0 (the Vec grows to capacity 4), records per slice 0 (chunks_mut(0) panics)
    add(1, 0, &[(0, 9)], true, &mut r);
    add(3, 0, &[(0, 9)], true, &mut r);
    add(5, 0, &[(0, 3)], true, &mut r);
    add(0, 1, &[(0, 1)], true, &mut r);
    add(0, 0, &[(0, 5)], true, &mut r);
    add(0, 3, &[(0, 2)], true, &mut r);
    v
}

fn gen_case(sub: u64, thorough: bool) -> Case {
    let mut r = Rng::new(sub ^ 0x9E37_79B9_7F4A_7C15);
    let rps = if r.chance(1, 40) { 0 } else { 1 + r.below(5) as usize };
    let spc = if r.chance(1, 25) { 0 } else if r.chance(1, 3) { 1 } else { 1 + r.below(4) as usize };
    let maxn = if thorough { 60 } else { 36 };
    let n = r.below(maxn + 1) as usize;
    let part = |r: &mut Rng, n: usize, k: usize| -> Vec<usize> {
        // n split into k non-negative parts
        let mut cuts: Vec<usize> = (0..k - 1).map(|_| r.below(n as u64 + 1) as usize).collect();
        cuts.sort();
        let mut out = vec![];
        let mut prev = 0;
        for c in cuts { out.push(c - prev); prev = c; }
        out.push(n - prev);
        out
    };
    let kind = r.below(8);
    let (spec, sorted): (Vec<(u8, usize)>, bool) = match kind {
        0 => (vec![(r.below(3) as u8, n)], true),
        1 => { let p = part(&mut r, n, 3); (vec![(0, p[0]), (1, p[1]), (2, p[2])], true) }
        2 => ((0..n).map(|i| ((i % 2) as u8 + (r.below(2) as u8), 1)).collect(), false),
        3 => { let p = part(&mut r, n, 3); (vec![(0, p[0]), (1, p[1]), (3, p[2])], true) }
        4 => { let p = part(&mut r, n, 3); (vec![(0, p[0]), (3, p[1]), (0, p[2])], false) }
        5 => (vec![(3, n)], true),
        6 => { let p = part(&mut r, n, 4); (vec![(1, p[0]), (4, p[1]), (5, p[2]), (3, p[3])], true) }
        _ => ((0..n).map(|_| (r.below(6) as u8, 1)).collect(), false),
    };
    // runs aligned to the container size make multi-slice containers of one context likely
    let spec = if spc >= 2 && rps >= 1 && r.chance(1, 2) {
        spec.into_iter().map(|(k, c)| (k, if c >= rps * spc { c - c % (rps * spc) } else { c })).collect()
    } else {
        spec
    };
    Case { label: format!("chunk {sub}"), rps, spc, recs: stream(&mut r, &spec, sorted) }
}

pub fn replay(ctx: &mut Ctx, case: &[String]) -> bool {
    let num = |k: usize| -> u64 { case.get(k).and_then(|s| s.parse().ok()).unwrap_or(0) };
    match case.first().map(|s| s.as_str()) {
        Some("chunk") => {
            let c = gen_case(num(1), ctx.tier_thorough);
            if std::env::var("NVH_SHOW").is_ok() {
                eprintln!("{}", request(&c));
            }
            chunk_case(ctx, &c);
            true
        }
        Some("chunkhand") => {
            if let Some(c) = hand_corpus().get(num(1) as usize) {
                if std::env::var("NVH_SHOW").is_ok() {
                    eprintln!("{}", request(c));
                }
                chunk_case(ctx, c);
            }
            true
        }
        _ => false,
    }
}

pub fn run(ctx: &mut Ctx) {
    let t0 = std::time::Instant::now();
    for c in hand_corpus() {
        chunk_case(ctx, &c);
    }
    // a malformed request: the model answers bad-op, as the harness states
    ctx.corr("c07 chunk 2 x r0,0,1,1,1".into(), "bad-op".into());
    ctx.corr("c07 chunk 2 2 r0,0,1,1".into(), "bad-op".into());
    let n = ctx.n(1500, 20_000);
    for it in 0..n {
        let sub = ctx.seed.wrapping_mul(1_000_003).wrapping_add(9_000_000 + it);
        let c = gen_case(sub, ctx.tier_thorough);
        chunk_case(ctx, &c);
    }
    if std::env::var("NVH_TIME").is_ok() {
        eprintln!("c07_chunk::run: {:.2} s", t0.elapsed().as_secs_f64());
    }
    ctx.sample(|| "c07 chunk <rps> <spc> <name,ref,start,end,read length;…> (harness/src/props/c07_chunk.rs)".into());
}
