//! C09 / LazyAny — lazy `vcf::Record` = eager `RecordBuf` on EVERY line, not only the writer's.
//!
//! Correspondence (`c09 lazyany <header ctx> <float tables> <hex line>`): the real lazy reader +
//! `RecordBuf::try_from_variant_record` and the real eager `read_record_buf` on the same line; the
//! answer is the canonical record of both (or the error class), both variant ends, the line the real
//! writer produces from each result, and the outcome class. The Lean model
//! (Noodles/Vcf/{Model,Lazy,LazyAny}.lean via DriverC09LazyAny.lean) must print the identical line.
//! Oracle: both accept ⇒ equal values (`lazy-any-differs`, sub-classed for the four divergences that
//! the model documents); a line produced by the real writer must be accepted by both.
use super::c09::{
    enc_hctx, enc_rec, floats_of, fmt_table, gen_hctx, gen_record, hc_of_text, hx, mutate_line, prs_table,
    real_line_answer, real_write, Hc,
};
use crate::common::*;
use noodles_vcf::{self as vcf, variant::RecordBuf};

const DEFS: &str = "##INFO=<ID=XS,Number=.,Type=String,Description=\"d\">\n##INFO=<ID=XI,Number=1,Type=Integer,Description=\"d\">\n##INFO=<ID=XF,Number=0,Type=Flag,Description=\"d\">\n##INFO=<ID=XG,Number=1,Type=Flag,Description=\"d\">\n##INFO=<ID=XA,Number=A,Type=Integer,Description=\"d\">\n##INFO=<ID=XC,Number=1,Type=Character,Description=\"d\">\n##INFO=<ID=XR,Number=2,Type=Float,Description=\"d\">\n##INFO=<ID=XD,Number=.,Type=Character,Description=\"d\">\n##FORMAT=<ID=GT,Number=1,Type=String,Description=\"d\">\n##FORMAT=<ID=FS,Number=.,Type=String,Description=\"d\">\n##FORMAT=<ID=FI,Number=1,Type=Integer,Description=\"d\">\n##FORMAT=<ID=FA,Number=2,Type=Integer,Description=\"d\">\n##FORMAT=<ID=FR,Number=1,Type=Float,Description=\"d\">\n";

fn header_text(k: usize) -> String {
    let ver = ["4.2", "4.3", "4.5"][k % 3];
    let (defs, cols) = match k / 3 {
        0 => (DEFS, "\tFORMAT\ts0\ts1"),
        1 => ("", "\tFORMAT\ts0"),
        _ => (DEFS, ""),
    };
    format!("##fileformat=VCFv{ver}\n{defs}#CHROM\tPOS\tID\tREF\tALT\tQUAL\tFILTER\tINFO{cols}\n")
}
const NHEADERS: usize = 7; // 3 versions x {defs + 2 samples, no defs + 1 sample} + 4.2 with defs, no samples

/// boundary lines, written by hand (each is run under every header)
const CORPUS: &[&str] = &[
    "sq0\t1\tid0;id1\tA\tC,G\t30\tq10;s50\tXI=5;XS=a,b;XF;XA=1,.;XC=%3B;U=x;XR=1.5,.\tGT:FS:FI:FA\t0/1:a,b:7:1,2\t1|0:.:.:.",
    "sq0\t0\t.\tN\t.\t.\t.\t.\tGT\t0\t.",
    "sq0\t1\t.\tA\t.\t.\tPASS\t.",
    "sq0\t1\t.\tA\t.\t.\tPASS\t.\t",
    "sq0\t1\t.\tA\t.\t.\tPASS",
    "sq0\t1\t.\tA\t.\t.\tPASS\t.\tGT",
    "sq0\t1\t.\tA\t.\t.\tPASS\t.\tGT\t0/1",
    "sq0\t1\t.\tA\t.\t.\tPASS\t.\tGT\t0/1\t",
    "sq0\t1\t.\tA\t.\t.\tPASS\t.\tGT\t0/1\t1/1",
    "sq0\t1\t.\tA\t.\t.\tPASS\t.\tGT\t0/1\t1/1\t",
    "sq0\t1\t.\tA\t.\t.\tPASS\t.\tGT\t0/1\t1/1\t0|0",
    "sq0\t1\t.\tA\t.\t.\tPASS\t.\tGT\t0/1\t1/1\t0|0\t.",
    // the four both-accept-but-differ shapes
    "sq0\t1\t.\tA\t.\t.\t.\tXS=\tGT\t0/1\t0/1",
    "sq0\t1\t.\tA\t.\t.\t.\tXD=;XI=1\tGT\t0/1\t0/1",
    "sq0\t1\t.\tA\t.\t.\t.\t.\tGT:FS\t0/1:\t0/1:a",
    "sq0\t1\t.\tA\t.\t.\t.\t.\t.\t.\t.",
    "sq0\t1\t.\tA\t.\t.\t.\t.\t.\t.",
    "sq0\t1\t.\tA\t.\t.\t.\t.\tGT:\t0/1\t0/1",
    "sq0\t1\t.\tA\t.\t.\t.\t.\tGT:FI:\t0/1:1\t0/1",
    "sq0\t1\t.\tA\t.\t.\t.\t.\t:GT\t0/1\t0/1",
    // INFO framing
    "sq0\t1\t.\tA\t.\t.\t.\tA;;B\tGT\t0\t0",
    "sq0\t1\t.\tA\t.\t.\t.\t;A\tGT\t0\t0",
    "sq0\t1\t.\tA\t.\t.\t.\tA;\tGT\t0\t0",
    "sq0\t1\t.\tA\t.\t.\t.\tA=1;\tGT\t0\t0",
    "sq0\t1\t.\tA\t.\t.\t.\t=x\tGT\t0\t0",
    "sq0\t1\t.\tA\t.\t.\t.\t=\tGT\t0\t0",
    "sq0\t1\t.\tA\t.\t.\t.\t;\tGT\t0\t0",
    "sq0\t1\t.\tA\t.\t.\t.\t\tGT\t0\t0",
    "sq0\t1\t.\tA\t.\t.\t.\tA=1;A=2\tGT\t0\t0",
    "sq0\t1\t.\tA\t.\t.\t.\tA=1=2;B==\tGT\t0\t0",
    "sq0\t1\t.\tA\t.\t.\t.\tXF=1;XG;XG=;XI\tGT\t0\t0",
    "sq0\t1\t.\tA\t.\t.\t.\tXF=\tGT\t0\t0",
    "sq0\t1\t.\tA\t.\t.\t.\tXF=.;XG=.;XI=.;XA=.\tGT\t0\t0",
    "sq0\t1\t.\tA\t.\t.\t.\tXG\tGT\t0\t0",
    "sq0\t1\t.\tA\t.\t.\t.\tXI\tGT\t0\t0",
    "sq0\t1\t.\tA\t.\t.\t.\tXI=\tGT\t0\t0",
    "sq0\t1\t.\tA\t.\t.\t.\tXA=\tGT\t0\t0",
    "sq0\t1\t.\tA\t.\t.\t.\tXA=,\tGT\t0\t0",
    "sq0\t1\t.\tA\t.\t.\t.\tXA=1,,2\tGT\t0\t0",
    "sq0\t1\t.\tA\t.\t.\t.\tXR=;XD=a,,b\tGT\t0\t0",
    "sq0\t1\t.\tA\t.\t.\t.\tXS=%;XC=%4\tGT\t0\t0",
    "sq0\t1\t.\tA\t.\t.\t.\tXS=%zz,%2E,%2e\tGT\t0\t0",
    "sq0\t1\t.\tA\t.\t.\t.\tXS=%C3\tGT\t0\t0",
    "sq0\t1\t.\tA\t.\t.\t.\tXC=%41%42\tGT\t0\t0",
    "sq0\t1\t.\tA\t.\t.\t.\tXC=ab\tGT\t0\t0",
    "sq0\t1\t.\tA\t.\t.\t.\tXC=\tGT\t0\t0",
    "sq0\t1\t.\tA\t.\t.\t.\tEND=7;SVLEN=3,-4\tGT\t0\t0",
    // IDs, ALT, FILTER, QUAL, POS, REF, CHROM
    "sq0\t1\ta;;b\tA\t.\t.\t.\t.\tGT\t0\t0",
    "sq0\t1\ta;a\tA\t.\t.\t.\t.\tGT\t0\t0",
    "sq0\t1\t\tA\t.\t.\t.\t.\tGT\t0\t0",
    "sq0\t1\t;\tA\t.\t.\t.\t.\tGT\t0\t0",
    "sq0\t1\ta;\tA\t.\t.\t.\t.\tGT\t0\t0",
    "sq0\t1\t.\tA\t\t.\t.\t.\tGT\t0\t0",
    "sq0\t1\t.\tA\t,\t.\t.\t.\tGT\t0\t0",
    "sq0\t1\t.\tA\tC,,G\t.\t.\t.\tGT\t0\t0",
    "sq0\t1\t.\tA\t.\t.\tPASS;q10\t.\tGT\t0\t0",
    "sq0\t1\t.\tA\t.\t.\tq10;q10\t.\tGT\t0\t0",
    "sq0\t1\t.\tA\t.\t.\t;\t.\tGT\t0\t0",
    "sq0\t1\t.\tA\t.\t.\tq10;\t.\tGT\t0\t0",
    "sq0\t1\t.\tA\t.\t.\t\t.\tGT\t0\t0",
    "sq0\t1\t.\tA\t.\t\t.\t.\tGT\t0\t0",
    "sq0\t1\t.\tA\t.\tnan\t.\t.\tGT\t0\t0",
    "sq0\t1\t.\tA\t.\t1e400\t.\t.\tGT\t0\t0",
    "sq0\t1\t.\tA\t.\t-1\t.\t.\tGT\t0\t0",
    "sq0\t1\t.\tA\t.\tx\t.\t.\tGT\t0\t0",
    "sq0\t\t.\tA\t.\t.\t.\t.\tGT\t0\t0",
    "sq0\t+5\t.\tA\t.\t.\t.\t.\tGT\t0\t0",
    "sq0\t00\t.\tA\t.\t.\t.\t.\tGT\t0\t0",
    "sq0\t-1\t.\tA\t.\t.\t.\t.\tGT\t0\t0",
    "sq0\t18446744073709551615\t.\tA\t.\t.\t.\t.\tGT\t0\t0",
    "sq0\t18446744073709551616\t.\tA\t.\t.\t.\t.\tGT\t0\t0",
    "sq0\t1\t.\t\t.\t.\t.\t.\tGT\t0\t0",
    "sq0\t1\t.\t.\t.\t.\t.\t.\tGT\t0\t0",
    "\t1\t.\tA\t.\t.\t.\t.\tGT\t0\t0",
    "",
    "sq0",
    "\t\t\t\t\t\t\t",
    // samples
    "sq0\t1\t.\tA\t.\t.\t.\t.\tGT:FI\t0/1:1:2\t0/1",
    "sq0\t1\t.\tA\t.\t.\t.\t.\tGT\t\t0/1",
    "sq0\t1\t.\tA\t.\t.\t.\t.\tGT:GT\t0/1:0/1\t0/1",
    "sq0\t1\t.\tA\t.\t.\t.\t.\t\t0/1\t0/1",
    "sq0\t1\t.\tA\t.\t.\t.\t.\tGT\t0/1/\t/0",
    "sq0\t1\t.\tA\t.\t.\t.\t.\tGT\t|0|1\t0//1",
    "sq0\t1\t.\tA\t.\t.\t.\t.\tGT\t./.\t0/.|1",
    "sq0\t1\t.\tA\t.\t.\t.\t.\tGT\t0|1/2\t/0|1",
    "sq0\t1\t.\tA\t.\t.\t.\t.\tGT\t:\t0",
    "sq0\t1\t.\tA\t.\t.\t.\t.\tFI:GT\t1:0/1\t.:.",
    "sq0\t1\t.\tA\t.\t.\t.\t.\tFA:FS:FR\t:,:\t1,.:.,a:1e3",
    "sq0\t1\t.\tA\t.\t.\t.\t.\tFA\t\t",
    "sq0\t1\t.\tA\t.\t.\t.\t.\tGT:LEN\t0/1:5\t0/1:-2",
    "sq0\t1\t.\tA\t.\t.\t.\t.\tGT\t0\t0\r",
    "sq0\t1\t.\tA\t.\t.\t.\t.\r",
];

/// bytes inserted / substituted by the exhaustive single-byte mutations
const MUT_BYTES: &[u8] = b"\t;,:.=%/|0";

fn mutations(line: &str) -> Vec<String> {
    let b = line.as_bytes();
    let mut out = vec![];
    for i in 0..=b.len() {
        for &m in MUT_BYTES {
            let mut v = b.to_vec();
            v.insert(i, m);
            out.push(v);
        }
        if i < b.len() {
            let mut v = b.to_vec();
            v.remove(i);
            out.push(v);
            let mut v = b.to_vec();
            v.insert(i, b[i]);
            out.push(v);
            let mut v = b.to_vec();
            v[i] = b'.';
            out.push(v);
            if b[i] == b'\t' {
                let mut v = b.to_vec();
                v.truncate(i);
                out.push(v);
            }
        }
    }
    out.into_iter().filter_map(|v| String::from_utf8(v).ok()).filter(|s| !s.contains('\n')).collect()
}

const MUT_SEEDS: &[&str] = &[
    "sq0\t1\tid0;id1\tA\tC,G\t30\tq10;s50\tXI=5;XS=a,b;XF;XA=1,.;XC=%3B;U\tGT:FS:FI\t0/1:a,b:7\t1|0:.:.",
    "sq0\t7\t.\tAC\t<DEL>\t.\tPASS\tEND=9;SVLEN=2;XS=%2E\tGT:LEN\t0|1:2\t.",
    "sq0\t0\t.\tN\t.\t.\t.\t.",
];

struct Real {
    ans: String,
    eager: Result<RecordBuf, String>,
    lazy: Option<RecordBuf>,
    cls: &'static str,
}

fn rew(h: &vcf::Header, r: Option<&RecordBuf>) -> String {
    match r {
        None => "-".into(),
        Some(r) => match real_write(h, r) {
            Ok(t) => hx(&t),
            Err(e) => e,
        },
    }
}

fn real_answer(h: &vcf::Header, line: &str) -> Real {
    let (base, eager, lazy) = real_line_answer(h, line);
    let cls = match (&eager, &lazy) {
        (Ok(a), Some(b)) => if enc_rec(a) == enc_rec(b) { "same" } else { "differ" },
        (Ok(_), None) => "eager-only",
        (Err(_), Some(_)) => "lazy-only",
        (Err(_), None) => "neither",
    };
    let ans = format!("{base} we={} wl={} cls={cls}", rew(h, eager.as_ref().ok()), rew(h, lazy.as_ref()));
    Real { ans, eager, lazy, cls }
}

fn request(h: &vcf::Header, line: &str, real: &Real) -> String {
    let mut fs = vec![];
    if let Ok(r) = &real.eager { fs.extend(floats_of(r)); }
    if let Some(r) = &real.lazy { fs.extend(floats_of(r)); }
    format!("c09 lazyany {} {}/{} {}", enc_hctx(h), fmt_table(&fs), prs_table(line), hx(line))
}

/// which documented divergence a both-accept-but-differ pair falls into (decided on the real values)
fn differ_class(h: &vcf::Header, e: &RecordBuf, l: &RecordBuf) -> &'static str {
    let n = h.sample_names().len();
    let (ek, lk) = (e.samples().keys().as_ref().len(), l.samples().keys().as_ref().len());
    let (ev, lv) = (e.samples().values().count(), l.samples().values().count());
    if ek == 0 && ev == n && lv == 0 && lk == 0 {
        "lazy-any-differs:format-dot"
    } else if lv > ev && ev == n {
        "lazy-any-differs:extra-sample-columns"
    } else if ek > lk && e.samples().keys().as_ref().iter().any(|k| k.is_empty()) {
        "lazy-any-differs:format-trailing-colon"
    } else {
        // the only remaining documented shape: an empty text typed as an array
        let de = format!("{:?} {:?}", e.info(), e.samples());
        let dl = format!("{:?} {:?}", l.info(), l.samples());
        if de.contains("[Some(\"\")]") && dl.contains("[]") && de.replace("[Some(\"\")]", "[]") == dl {
            "lazy-any-differs:empty-array-text"
        } else {
            "lazy-any-differs"
        }
    }
}

/// one line under one header: correspondence + oracle; `written` = produced by the real writer
fn line_case(ctx: &mut Ctx, h: &vcf::Header, line: &str, written: bool, case: &str) {
    let out = guarded(|| {
        let real = real_answer(h, line);
        let req = request(h, line, &real);
        (req, real)
    });
    let (req, real) = match out {
        Ok(x) => x,
        Err(p) => {
            ctx.bump("lazyany:real_code_panicked");
            ctx.fail("panic", format!("lazy/eager VCF reading panicked on line {line:?}: {p}"), case.into());
            return;
        }
    };
    ctx.corr(req, real.ans.clone());
    ctx.eval(Some(fnv(line.as_bytes()) ^ fnv(enc_hctx(h).as_bytes())));
    ctx.bump(&format!("lazyany:outcome:{}", real.cls));
    ctx.bump(&format!("lazyany:columns:{}", line.split('\t').count().min(12)));
    ctx.bump(&format!("lazyany:len:{}", match line.len() { 0..=15 => "0-15", 16..=40 => "16-40", 41..=100 => "41-100", _ => "101+" }));
    if let Err(e) = &real.eager { ctx.bump(&format!("lazyany:eager_err:{e}")); }
    match (&real.eager, &real.lazy) {
        (Ok(e), Some(l)) if real.cls == "differ" => {
            let class = differ_class(h, e, l);
            // The property quantifies over records consistent with the header, i.e. over lines the
            // writer produces. On a MALFORMED line that both readers happen to accept (extra sample
            // columns, FORMAT `.` / `GT:`, an empty text typed as an array) a difference is outside
            // the quantifier: counted, compared with the model (the Lean witnesses
            // lazy_eq_eager_any_line_false_*), never failed.
            if !written {
                ctx.bump(&format!("lazyany:differ_on_malformed_line:{class}"));
                return;
            }
            ctx.fail(class, format!("both the eager parser and the lazy record accept the line {line:?} ({} samples in the header) but with different values: eager {} lazy {}", h.sample_names().len(), enc_rec(e), enc_rec(l)), case.into());
        }
        (Ok(_), None) if written => ctx.fail("lazy-rejects-written-line", format!("the lazy record rejects the writer's line {line:?}"), case.into()),
        (Err(e), Some(_)) if written => ctx.fail("eager-rejects-written-line", format!("the eager parser rejects the writer's line {line:?}: {e}"), case.into()),
        _ => {}
    }
}

fn corpus_case(ctx: &mut Ctx, hi: usize, li: usize) {
    let Some(hc) = hc_of_text(&header_text(hi)) else {
        ctx.fail("corpus", format!("lazyany header {hi} does not parse"), format!("lazyany-corpus {hi} {li}"));
        return;
    };
    if let Some(line) = CORPUS.get(li) {
        line_case(ctx, &hc.header, line, false, &format!("lazyany-corpus {hi} {li}"));
        ctx.bump("lazyany:kind:corpus");
    }
}

fn mut_case(ctx: &mut Ctx, hi: usize, si: usize, mi: usize) {
    let Some(hc) = hc_of_text(&header_text(hi)) else { return };
    let Some(seed) = MUT_SEEDS.get(si) else { return };
    if let Some(line) = mutations(seed).get(mi) {
        line_case(ctx, &hc.header, line, false, &format!("lazyany-mut {hi} {si} {mi}"));
        ctx.bump("lazyany:kind:single-byte-mutation");
    }
}

/// generated record → the writer's line (must be accepted by both) → random mutations of it
fn gen_case(ctx: &mut Ctx, sub: u64) {
    let mut rng = Rng::new(sub ^ 0x1a2b_c09a);
    let hc: Hc = gen_hctx(&mut rng);
    let r = gen_record(&mut rng, &hc);
    let case = format!("lazyany-gen {sub}");
    let Ok(Ok(line)) = guarded(|| real_write(&hc.header, &r)) else {
        ctx.bump("lazyany:gen_writer_rejected");
        return;
    };
    line_case(ctx, &hc.header, &line, true, &case);
    ctx.bump("lazyany:kind:written");
    for _ in 0..2 {
        let m = mutate_line(&mut rng, &line);
        if !m.contains('\n') {
            line_case(ctx, &hc.header, &m, false, &case);
            ctx.bump("lazyany:kind:written-mutated");
        }
    }
}

pub fn replay(ctx: &mut Ctx, case: &[String]) -> bool {
    let arg = |i: usize| -> usize { case.get(i).and_then(|s| s.parse().ok()).unwrap_or(0) };
    match case.first().map(|s| s.as_str()) {
        Some("lazyany-corpus") => corpus_case(ctx, arg(1), arg(2)),
        Some("lazyany-mut") => mut_case(ctx, arg(1), arg(2), arg(3)),
        Some("lazyany-gen") => gen_case(ctx, case.get(1).and_then(|s| s.parse().ok()).unwrap_or(0)),
        _ => return false,
    }
    true
}

pub fn run(ctx: &mut Ctx) {
    for hi in 0..NHEADERS {
        for li in 0..CORPUS.len() {
            corpus_case(ctx, hi, li);
        }
    }
    // every single-byte mutation of the seeds (thorough: all of them under every header; quick: a
    // seeded sample)
    let mut rng = Rng::new(ctx.seed ^ 0x9e37_79b9_7f4a_7c15);
    for si in 0..MUT_SEEDS.len() {
        let total = mutations(MUT_SEEDS[si]).len();
        for hi in 0..NHEADERS {
            if ctx.tier_thorough {
                for mi in 0..total {
                    mut_case(ctx, hi, si, mi);
                }
            } else {
                for _ in 0..60 {
                    let mi = rng.below(total as u64) as usize;
                    mut_case(ctx, hi, si, mi);
                }
            }
        }
    }
    let n = ctx.n(300, 20_000);
    for it in 0..n {
        gen_case(ctx, ctx.seed.wrapping_mul(1_000_033).wrapping_add(it));
    }
    ctx.sample(|| "c09 lazyany <header ctx> <float tables> <hex of: sq0 1 . A . . . XS= GT 0/1 0/1> => e=… l=… end=1/1 we=… wl=… cls=differ".into());
}
