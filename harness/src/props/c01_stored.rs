//! C01 extension "stored": the DEFLATE parameter made concrete at compression level 0.
//!
//! Correspondence (`c01 stored …`, no table of library answers):
//!  * `hist`    real `bgzf::io::Writer` at level 0 over write/flush histories — and at levels 1..9 on
//!              incompressible payloads all of whose blocks take the `deflate::encode` fallback —
//!              vs the model writer over `storedDeflater`: per-op results + whole sink (length, CRC32);
//!  * `member`  one staged block at level 0, whole member bytes in hex;
//!  * `deflate` the library at level 0 on payloads beyond the writer's reach (block split at 65535);
//!  * `readall` noodles' reader on real level-0 files vs the frame-reader model over the
//!              independent inflater;
//!  * `gunzip` / `inflate`  the independent Lean gzip reader / inflater on real level-0 files and on
//!              hand-framed gzip members (answers known by construction, ok-cases cross-checked
//!              with flate2's `MultiGzDecoder`).
//! Oracle (classes `stored-*`): the property's clauses on the real level-0 / fallback output with
//! an independent gzip implementation (flate2 `MultiGzDecoder` over the whole file).
use super::c01::{self, Op};
use crate::common::*;
use std::io::Read;

const MAX_COMPRESSED: usize = 65510;

fn fmt_ops(ops: &[Op]) -> String {
    if ops.is_empty() {
        return "-".into();
    }
    ops.iter()
        .map(|o| match o {
            Op::All(b) => format!("a{}", hex(b)),
            Op::One(b) => format!("w{}", hex(b)),
            Op::Flush => "f".into(),
        })
        .collect::<Vec<_>>()
        .join(",")
}

/// the library (flate2 over the same zlib-rs) at a level, raw DEFLATE, one `Finish` call with a
/// large output buffer — what `deflate::encode` asks for
fn lib_deflate(data: &[u8], level: u32) -> Vec<u8> {
    let mut c = flate2::Compress::new(flate2::Compression::new(level), false);
    let mut out = Vec::with_capacity(data.len() + data.len() / 4 + 1024); // zlib-ng style level 1 can expand by ~1/8
    let st = c.compress_vec(data, &mut out, flate2::FlushCompress::Finish).unwrap();
    assert!(matches!(st, flate2::Status::StreamEnd));
    out
}

/// an independent gzip implementation over the whole file
fn multi_gunzip(file: &[u8]) -> Result<Vec<u8>, String> {
    let mut out = vec![];
    if file.is_empty() {
        return Ok(out);
    }
    match flate2::read::MultiGzDecoder::new(file).read_to_end(&mut out) {
        Ok(_) => Ok(out),
        Err(e) => Err(e.to_string()),
    }
}

fn corr_hist(ctx: &mut Ctx, level: u8, finish: bool, h: &c01::Hist) {
    let per = if h.per_op.is_empty() { "-".to_string() } else { h.per_op.join(",") };
    let end = if h.end.starts_with("ok") {
        let pos = if finish { h.end.trim_start_matches("ok pos=").to_string() } else { format!("{}", h.sink.len()) };
        format!("end=ok sink={}:{} pos={}", h.sink.len(), crc32(&h.sink), pos)
    } else {
        format!("end={}", h.end)
    };
    ctx.corr(
        format!("c01 stored hist {level} {} {}", if finish { "fin" } else { "drop" }, fmt_ops(&h.ops_done)),
        format!("{per} | {end}"),
    );
}

/// the property's clauses on a level-0 / fallback file, with independent tools only
fn oracle_file(ctx: &mut Ctx, h: &c01::Hist, what: &str, case: &str) {
    ctx.eval(if h.written.len() > 1 { Some(fnv(case.as_bytes())) } else { None });
    if !h.end.starts_with("ok") {
        ctx.fail("stored-write-error", format!("{what}: writer failed on an in-memory sink: {}", h.end), case.into());
        return;
    }
    match multi_gunzip(&h.sink) {
        Ok(d) if d == h.written => {}
        Ok(d) => {
            ctx.fail("stored-gunzip", format!("{what}: independent gunzip gives {} bytes (crc {:08x}), wrote {} (crc {:08x})", d.len(), crc32(&d), h.written.len(), crc32(&h.written)), case.into());
            return;
        }
        Err(e) => {
            ctx.fail("stored-gunzip", format!("{what}: independent gunzip rejects the file: {e}"), case.into());
            return;
        }
    }
    match c01::split_members(&h.sink) {
        Ok(ms) => {
            for (i, m) in ms.iter().enumerate() {
                if m.whole.len() > 65536 || m.isize as usize > 65536 {
                    ctx.fail("stored-member-size", format!("{what}: member {i} has {} bytes, ISIZE {}", m.whole.len(), m.isize), case.into());
                    return;
                }
            }
            if ms.last().map(|m| m.whole) != Some(&c01::EOF[..]) {
                ctx.fail("stored-no-eof-marker", format!("{what}: no EOF marker at the end"), case.into());
            }
        }
        Err(e) => ctx.fail("stored-malformed", format!("{what}: {e}"), case.into()),
    }
}

/// branch counters of the stored model on a real file: how many members, how they look
fn bump_members(ctx: &mut Ctx, sink: &[u8], tag: &str) -> bool {
    let mut all_single_stored = true;
    if let Ok(ms) = c01::split_members(sink) {
        for m in ms.iter().filter(|m| m.isize > 0) {
            let single = m.cdata.first() == Some(&0x01) && m.cdata.len() == m.isize as usize + 5;
            if single {
                ctx.bump(&format!("stored:{tag}:member_single_final_stored_block"));
                if m.whole.len() == 65526 {
                    ctx.bump(&format!("stored:{tag}:member_max_65526"));
                }
            } else {
                all_single_stored = false;
                ctx.bump(&format!("stored:{tag}:member_other_first_byte_{:02x}", m.cdata.first().copied().unwrap_or(0xff)));
            }
        }
    }
    all_single_stored
}

fn level0_case(sub: u64) -> (bool, Vec<Op>) {
    let mut rng = Rng::new(sub ^ 0x5707_ed00);
    let finish = rng.chance(1, 2);
    let len = c01::gen_len(&mut rng);
    let payload = c01::gen_payload(&mut rng, len);
    (finish, c01::gen_history(&mut rng, &payload))
}

fn run_level0(ctx: &mut Ctx, finish: bool, ops: &[Op], case: &str, with_readers: bool) {
    let h = c01::run_real(0, finish, ops);
    oracle_file(ctx, &h, "level 0", case);
    if h.written.len() > 300_000 {
        ctx.bump("stored:level0:skipped_too_long_for_model");
        return;
    }
    corr_hist(ctx, 0, finish, &h);
    if !bump_members(ctx, &h.sink, "level0") {
        ctx.bump("stored:level0:NOT_all_single_stored");
    }
    ctx.bump(&format!("stored:level0:payload_{}", match h.written.len() { 0 => "0", 1..=100 => "1-100", 101..=65494 => "101-65494", 65495..=65536 => "65495-65536", 65537..=131000 => "64k-128k", _ => ">128k" }));
    if with_readers && h.sink.len() <= 160_000 {
        // the independent Lean gzip reader on the real file: must give the payload
        ctx.corr(format!("c01 stored gunzip {}", hex(&h.sink)), format!("ok:{}:{}", h.written.len(), crc32(&h.written)));
        // noodles' own reader on it vs the frame-reader model over the independent inflater
        let mut out = vec![];
        let ans = match guarded(|| noodles_bgzf::io::Reader::new(&h.sink[..]).read_to_end(&mut out)) {
            Ok(Ok(_)) => format!("ok:{}:{}", out.len(), crc32(&out)),
            Ok(Err(e)) => errclass(&e).to_string(),
            Err(_) => "panic".into(),
        };
        ctx.corr(format!("c01 stored readall {}", hex(&h.sink)), ans);
        ctx.bump("stored:level0:gunzip_and_readall_on_real_file");
    }
}

/// an incompressible payload whose every block should overflow at `level`
fn fallback_case(sub: u64) -> (u8, bool, Vec<Op>) {
    let mut rng = Rng::new(sub ^ 0xfa11_bac0);
    let level = 1 + rng.below(9) as u8;
    let finish = rng.chance(1, 2);
    let full = rng.below(3) as usize;
    let tail = match rng.below(4) {
        0 => 0,
        1 => 65495,
        _ => 65480 + rng.below(16) as usize,
    };
    let len = (full * 65495 + tail).max(65495);
    let payload = rng.bytes(len);
    // no flushes: they would cut blocks short of the staging limit
    let mut ops = vec![];
    if rng.chance(1, 2) {
        ops.push(Op::All(payload));
    } else {
        let mut rest = &payload[..];
        while !rest.is_empty() {
            let n = (1 + rng.below(140_000) as usize).min(rest.len());
            let (a, b) = rest.split_at(n);
            ops.push(if rng.chance(1, 4) { Op::One(a.to_vec()) } else { Op::All(a.to_vec()) });
            rest = b;
        }
    }
    (level, finish, ops)
}

fn run_fallback(ctx: &mut Ctx, level: u8, finish: bool, ops: &[Op], case: &str) {
    let h = c01::run_real(level, finish, ops);
    oracle_file(ctx, &h, &format!("level {level} fallback"), case);
    // which blocks overflow at this level, according to the library itself. The history has no
    // flushes, so the blocks are the 65495-byte chunks of the offered payload (whatever the real
    // writer did with them).
    let offered: Vec<u8> = ops.iter().flat_map(|o| match o { Op::All(b) | Op::One(b) => b.clone(), Op::Flush => vec![] }).collect();
    let members: Vec<Vec<u8>> = c01::split_members(&h.sink).map(|ms| ms.iter().filter(|m| m.isize > 0).map(|m| m.whole.to_vec()).collect()).unwrap_or_default();
    let mut all_overflow = true;
    let mut any = false;
    for (i, block) in offered.chunks(c01::MAX_BUF).enumerate() {
        let lib_len = lib_deflate(block, level as u32).len();
        let overflow = lib_len > MAX_COMPRESSED;
        any = true;
        ctx.bump(&format!("stored:fallback:block_{}", if overflow { "overflows_at_level" } else { "fits_at_level" }));
        if overflow {
            ctx.bump(&format!("stored:fallback:level_{level}"));
            ctx.bump(&format!("stored:fallback:overflow_block_len_{}", block.len()));
            // the fallback member must be exactly the level-0 member of that block
            ctx.eval(Some(fnv(block)));
            let l0 = c01::run_real(0, true, &[Op::All(block.to_vec())]);
            let want = &l0.sink[..l0.sink.len().saturating_sub(28)];
            match members.get(i) {
                Some(m) if &m[..] == want => {}
                Some(m) => ctx.fail("stored-fallback", format!("level {level}: block {i} of {} bytes overflows ({} > {MAX_COMPRESSED}) but its member is not the level-0 member (first DEFLATE byte {:02x?})", block.len(), lib_len, m.get(18)), case.into()),
                None => ctx.fail("stored-fallback", format!("level {level}: block {i} of {} bytes overflows ({} > {MAX_COMPRESSED}) and no member was written for it (writer: {})", block.len(), lib_len, h.end), case.into()),
            }
        } else {
            all_overflow = false;
        }
    }
    if any && all_overflow && offered.len() <= 300_000 {
        let single = bump_members(ctx, &h.sink, "fallback");
        if !single {
            ctx.bump("stored:fallback:NOT_all_single_stored");
        }
        corr_hist(ctx, level, finish, &h);
        ctx.bump("stored:fallback:corr_cases");
    } else {
        ctx.bump("stored:fallback:skipped_some_block_fits");
    }
}

// ---------- hand-framed gzip members for the independent reader ----------

#[derive(Clone, Default)]
struct Gz {
    flg: u8,
    extra: Option<Vec<u8>>,
    name: Option<Vec<u8>>,
    comment: Option<Vec<u8>>,
    hcrc: Option<bool>, // Some(correct?)
    mtime: [u8; 4],
    xfl: u8,
    os: u8,
}

fn gz_member(g: &Gz, deflate: &[u8], crc: u32, isize: u32) -> Vec<u8> {
    let mut flg = g.flg;
    if g.extra.is_some() { flg |= 4 }
    if g.name.is_some() { flg |= 8 }
    if g.comment.is_some() { flg |= 16 }
    if g.hcrc.is_some() { flg |= 2 }
    let mut m = vec![0x1f, 0x8b, 8, flg];
    m.extend_from_slice(&g.mtime);
    m.push(g.xfl);
    m.push(g.os);
    if let Some(x) = &g.extra {
        m.extend_from_slice(&(x.len() as u16).to_le_bytes());
        m.extend_from_slice(x);
    }
    if let Some(n) = &g.name { m.extend_from_slice(n); m.push(0) }
    if let Some(n) = &g.comment { m.extend_from_slice(n); m.push(0) }
    if let Some(ok) = g.hcrc {
        let c = (crc32(&m) & 0xffff) as u16;
        m.extend_from_slice(&(if ok { c } else { c ^ 0x0100 }).to_le_bytes());
    }
    m.extend_from_slice(deflate);
    m.extend_from_slice(&crc.to_le_bytes());
    m.extend_from_slice(&isize.to_le_bytes());
    m
}

fn subfield(si: &[u8; 2], data: &[u8]) -> Vec<u8> {
    let mut v = si.to_vec();
    v.extend_from_slice(&(data.len() as u16).to_le_bytes());
    v.extend_from_slice(data);
    v
}

/// stored blocks with chosen split points and padding bits
fn stored_stream(data: &[u8], chunk: usize, pad: u8) -> Vec<u8> {
    let mut out = vec![];
    let mut chunks: Vec<&[u8]> = data.chunks(chunk.clamp(1, 65535)).collect();
    if chunks.is_empty() { chunks.push(&[]) }
    let n = chunks.len();
    for (i, c) in chunks.iter().enumerate() {
        out.push((if i + 1 == n { 1 } else { 0 }) | (pad << 3));
        out.extend_from_slice(&(c.len() as u16).to_le_bytes());
        out.extend_from_slice(&(!(c.len() as u16)).to_le_bytes());
        out.extend_from_slice(c);
    }
    out
}

fn ok_ans(d: &[u8]) -> String {
    format!("ok:{}:{}", d.len(), crc32(d))
}

fn gunzip_case(ctx: &mut Ctx, name: &str, file: Vec<u8>, expect: String, payload: Option<&[u8]>) {
    ctx.corr(format!("c01 stored gunzip {}", hex(&file)), expect.clone());
    ctx.bump(&format!("stored:gunzip:{}", if expect.starts_with("ok") { "ok" } else { &expect }));
    // cross-check the by-construction answer of ok cases with an independent gzip implementation
    if let Some(p) = payload {
        ctx.eval(Some(fnv(&file)));
        match multi_gunzip(&file) {
            Ok(d) if d == p => {}
            other => ctx.fail("stored-handframed-xcheck", format!("hand-framed case {name}: flate2 MultiGzDecoder disagrees with the constructed answer: {:?}", other.map(|d| d.len())), format!("stored gunzipfile {}", hex(&file))),
        }
    }
}

fn gunzip_corpus(ctx: &mut Ctx) {
    let d: &[u8] = b"hello, stored world";
    let st = c01::stored_deflate(d);
    let crc = crc32(d);
    let n = d.len() as u32;
    let plain = Gz { os: 0xff, ..Default::default() };
    let bc = subfield(b"BC", &[0x34, 0x12]);
    let ok = |ctx: &mut Ctx, name: &str, f: Vec<u8>, p: &[u8]| gunzip_case(ctx, name, f, ok_ans(p), Some(p));
    let err = |ctx: &mut Ctx, name: &str, f: Vec<u8>, e: &str| gunzip_case(ctx, name, f, e.to_string(), None);

    ok(ctx, "empty-file", vec![], b"");
    ok(ctx, "plain", gz_member(&plain, &st, crc, n), d);
    ok(ctx, "mtime-xfl-os", gz_member(&Gz { mtime: [1, 2, 3, 4], xfl: 2, os: 3, flg: 1, ..Default::default() }, &st, crc, n), d);
    ok(ctx, "extra-BC-only", gz_member(&Gz { extra: Some(bc.clone()), ..plain.clone() }, &st, crc, n), d);
    let mut x = subfield(b"XX", &[1, 2, 3]);
    x.extend_from_slice(&bc);
    ok(ctx, "extra-before-BC", gz_member(&Gz { extra: Some(x.clone()), ..plain.clone() }, &st, crc, n), d);
    let mut y = bc.clone();
    y.extend_from_slice(&subfield(b"YY", &[]));
    y.extend_from_slice(&subfield(b"ZZ", &[9; 40]));
    ok(ctx, "extra-after-BC", gz_member(&Gz { extra: Some(y.clone()), ..plain.clone() }, &st, crc, n), d);
    ok(ctx, "extra-empty", gz_member(&Gz { extra: Some(vec![]), ..plain.clone() }, &st, crc, n), d);
    ok(ctx, "extra-not-subfields", gz_member(&Gz { extra: Some(vec![7]), ..plain.clone() }, &st, crc, n), d);
    ok(ctx, "fname", gz_member(&Gz { name: Some(b"a.txt".to_vec()), ..plain.clone() }, &st, crc, n), d);
    ok(ctx, "fname-empty", gz_member(&Gz { name: Some(vec![]), ..plain.clone() }, &st, crc, n), d);
    ok(ctx, "fcomment", gz_member(&Gz { comment: Some(b"c".to_vec()), ..plain.clone() }, &st, crc, n), d);
    ok(ctx, "fhcrc", gz_member(&Gz { hcrc: Some(true), ..plain.clone() }, &st, crc, n), d);
    ok(ctx, "all-optional", gz_member(&Gz { extra: Some(x.clone()), name: Some(b"n".to_vec()), comment: Some(b"cc".to_vec()), hcrc: Some(true), ..plain.clone() }, &st, crc, n), d);
    err(ctx, "fhcrc-wrong", gz_member(&Gz { hcrc: Some(false), ..plain.clone() }, &st, crc, n), "err:hcrc");
    err(ctx, "reserved-flag", gz_member(&Gz { flg: 0x20, ..plain.clone() }, &st, crc, n), "err:flags");
    err(ctx, "reserved-flag-80", gz_member(&Gz { flg: 0x80, ..plain.clone() }, &st, crc, n), "err:flags");
    let mut f = gz_member(&plain, &st, crc, n);
    f[0] = 0x1e;
    err(ctx, "magic1", f, "err:magic");
    let mut f = gz_member(&plain, &st, crc, n);
    f[1] = 0x8c;
    err(ctx, "magic2", f, "err:magic");
    let mut f = gz_member(&plain, &st, crc, n);
    f[2] = 7;
    err(ctx, "method", f, "err:method");
    err(ctx, "crc", gz_member(&plain, &st, crc ^ 1, n), "err:crc");
    err(ctx, "isize", gz_member(&plain, &st, crc, n + 1), "err:isize");
    // wrong NLEN
    let mut bad = st.clone();
    bad[3] ^= 1;
    err(ctx, "nlen", gz_member(&plain, &bad, crc, n), "err:nlen");
    // LEN larger than what follows (NLEN consistent)
    let mut long = vec![1u8];
    long.extend_from_slice(&500u16.to_le_bytes());
    long.extend_from_slice(&(!500u16).to_le_bytes());
    long.extend_from_slice(d);
    err(ctx, "len-beyond-end-in-member", gz_member(&plain, &long, crc, n), "err:eof");
    // BTYPE = 1 with data (a real fixed-Huffman stream), BTYPE = 2, BTYPE = 3
    let fixed = lib_deflate(b"aaaa", 6);
    assert_eq!(fixed[0] & 7, 3);
    err(ctx, "btype1", gz_member(&plain, &fixed, crc32(b"aaaa"), 4), "err:unsupported");
    let skew: Vec<u8> = (0..4000usize).map(|i| b"AAAACCGT\n"[(i * i / 7 + i / 3) % 9]).collect();
    let dynamic = lib_deflate(&skew, 6);
    ctx.bump(&format!("stored:gunzip:btype2_probe_first_byte_low3_{}", dynamic[0] & 7));
    if dynamic[0] & 6 == 4 {
        err(ctx, "btype2", gz_member(&plain, &dynamic, 0, 4000), "err:unsupported");
    }
    err(ctx, "btype3", gz_member(&plain, &[0x07, 0, 0, 0xff, 0xff], 0, 0), "err:btype");
    err(ctx, "btype1-nonfinal-empty", gz_member(&plain, &[0x02, 0x00], 0, 0), "err:unsupported");
    // the empty final fixed block of the BGZF EOF marker; its padding bits are free
    ok(ctx, "eof-marker", c01::EOF.to_vec(), b"");
    ok(ctx, "empty-fixed-padding", gz_member(&plain, &[0x03, 0xfc], 0, 0), b"");
    err(ctx, "fixed-first-code-not-eob", gz_member(&plain, &[0x03, 0x01], 0, 0), "err:unsupported");
    err(ctx, "fixed-cut", vec![0x1f, 0x8b, 8, 0, 0, 0, 0, 0, 0, 0xff, 0x03], "err:eof");
    // stored-block padding bits set, several blocks, two members, member + EOF marker
    ok(ctx, "padding-bits", gz_member(&plain, &stored_stream(d, 65535, 0x1f), crc, n), d);
    ok(ctx, "three-blocks", gz_member(&plain, &stored_stream(d, 7, 0), crc, n), d);
    ok(ctx, "empty-stored", gz_member(&plain, &stored_stream(b"", 1, 0), 0, 0), b"");
    let mut two = gz_member(&plain, &st, crc, n);
    two.extend_from_slice(&gz_member(&Gz { name: Some(b"second".to_vec()), ..plain.clone() }, &stored_stream(b"xyz", 2, 3), crc32(b"xyz"), 3));
    two.extend_from_slice(&c01::EOF);
    let mut cat = d.to_vec();
    cat.extend_from_slice(b"xyz");
    ok(ctx, "two-members-eof", two.clone(), &cat);
    // a non-final block and then nothing
    err(ctx, "nonfinal-then-end", gz_member(&plain, &[0, 0, 0, 0xff, 0xff], 0, 0)[..15].to_vec(), "err:eof");
    // trailing garbage
    let mut t = two.clone();
    t.push(0);
    err(ctx, "trailing-1", t, "err:eof");
    let mut t = two.clone();
    t.extend_from_slice(&[0u8; 12]);
    err(ctx, "trailing-12", t, "err:magic");
    // truncation at every byte of a member with all optional parts
    let full = gz_member(&Gz { extra: Some(x), name: Some(b"n".to_vec()), comment: Some(b"cc".to_vec()), hcrc: Some(true), ..plain.clone() }, &st, crc, n);
    for cut in 1..full.len() {
        err(ctx, "cut", full[..cut].to_vec(), "err:eof");
    }
    // XLEN beyond the end; unterminated FNAME
    let mut f = vec![0x1f, 0x8b, 8, 4, 0, 0, 0, 0, 0, 0xff, 0x10, 0x00];
    f.extend_from_slice(&[0; 5]);
    err(ctx, "xlen-beyond-end", f, "err:eof");
    err(ctx, "fname-unterminated", vec![0x1f, 0x8b, 8, 8, 0, 0, 0, 0, 0, 0xff, b'a', b'b'], "err:eof");
    // a 64 KiB + payload in one member: two stored blocks (65535 + rest)
    let big = Rng::new(77).bytes(70_000);
    ok(ctx, "big-two-blocks", gz_member(&plain, &c01::stored_deflate(&big), crc32(&big), big.len() as u32), &big);

    // the inflater alone, with bytes after the stream
    for (data, junk) in [(&b""[..], &b""[..]), (b"a", b"zz"), (d, b"\x00\x01\x02")] {
        let mut s = c01::stored_deflate(data);
        s.extend_from_slice(junk);
        ctx.corr(format!("c01 stored inflate {}", hex(&s)), format!("ok:{}:{}:rest{}", data.len(), crc32(data), junk.len()));
    }
    ctx.corr("c01 stored inflate -".into(), "err:eof".into());
    ctx.corr("c01 stored inflate 0300ff".into(), "ok:0:0:rest1".into());
    ctx.corr("c01 stored inflate 05".into(), "err:unsupported".into());
    ctx.corr("c01 stored inflate 0100".into(), "err:eof".into());
    ctx.corr("c01 stored inflate 010000ff".into(), "err:eof".into());
}

fn gunzip_generated(ctx: &mut Ctx, sub: u64) {
    let mut rng = Rng::new(sub ^ 0x6e21_9000);
    let mut file = vec![];
    let mut payload = vec![];
    let nm = 1 + rng.below(3);
    for _ in 0..nm {
        let len = match rng.below(6) { 0 => 0, 1 => 1, 2 => 65535, 3 => 65536 + rng.below(3000) as usize, _ => rng.below(2000) as usize };
        let d = c01::gen_payload(&mut rng, len);
        let mut g = Gz { os: rng.next() as u8, xfl: rng.next() as u8, flg: rng.below(2) as u8, ..Default::default() };
        g.mtime = [rng.next() as u8, rng.next() as u8, rng.next() as u8, rng.next() as u8];
        if rng.chance(2, 3) {
            let mut x = vec![];
            for _ in 0..rng.below(4) {
                let si = if rng.chance(1, 3) { *b"BC" } else { [rng.next() as u8, rng.next() as u8] };
                let n = rng.below(30) as usize;
                x.extend_from_slice(&subfield(&si, &rng.bytes(n)));
            }
            g.extra = Some(x);
        }
        if rng.chance(1, 3) { let n = rng.below(12) as usize; g.name = Some((0..n).map(|_| 1 + rng.below(255) as u8).collect()) }
        if rng.chance(1, 4) { let n = rng.below(12) as usize; g.comment = Some((0..n).map(|_| 1 + rng.below(255) as u8).collect()) }
        if rng.chance(1, 3) { g.hcrc = Some(true) }
        let chunk = *rng.pick(&[65535usize, 65535, 1000, 1, 30000]);
        let chunk = if d.len() / chunk > 200 { 65535 } else { chunk };
        let pad = if rng.chance(1, 4) { rng.below(32) as u8 } else { 0 };
        file.extend_from_slice(&gz_member(&g, &stored_stream(&d, chunk, pad), crc32(&d), d.len() as u32));
        payload.extend_from_slice(&d);
    }
    // one structured fault in a third of the cases
    match rng.below(9) {
        0 => {
            let cut = 1 + rng.below(8) as usize;
            file.truncate(file.len() - cut);
            gunzip_case(ctx, "gen-truncated-trailer", file, "err:eof".into(), None);
        }
        1 => {
            let k = file.len() - 8;
            file[k] ^= 0x10;
            gunzip_case(ctx, "gen-crc", file, "err:crc".into(), None);
        }
        2 => {
            let k = file.len() - 4;
            file[k] ^= 0x10;
            gunzip_case(ctx, "gen-isize", file, "err:isize".into(), None);
        }
        _ => gunzip_case(ctx, "gen-ok", file, ok_ans(&payload), Some(&payload)),
    }
}

fn deflate_case(ctx: &mut Ctx, data: &[u8]) {
    let c = lib_deflate(data, 0);
    ctx.corr(format!("c01 stored deflate {}", hex(data)), format!("{}:{}", c.len(), crc32(&c)));
    ctx.bump(&format!("stored:deflate:blocks_{}", if data.is_empty() { 1 } else { data.len().div_ceil(65535) }));
}

fn member_case(ctx: &mut Ctx, data: &[u8]) {
    let h = c01::run_real(0, true, &[Op::All(data.to_vec())]);
    let body = &h.sink[..h.sink.len().saturating_sub(28)];
    ctx.corr(format!("c01 stored member {}", hex(data)), hex(body));
    ctx.bump("stored:member_whole_bytes");
}

pub fn run(ctx: &mut Ctx) {
    // ---- boundary corpus first ----
    let mut r = Rng::new(ctx.seed ^ 0xc0_5707);
    for (i, &len) in [0usize, 1, 2, 65280, 65494, 65495, 65496, 65535, 65536, 2 * 65495, 2 * 65495 + 1].iter().enumerate() {
        let p = if i % 2 == 0 { r.bytes(len) } else { vec![b'A'; len] };
        let ops = if len == 0 { vec![Op::Flush, Op::All(vec![]), Op::Flush] } else { vec![Op::All(p)] };
        run_level0(ctx, i % 3 != 0, &ops, &format!("stored corpus {i}"), true);
    }
    for data in [&b"a"[..], b"abc", &[0u8; 300]] {
        member_case(ctx, data);
    }
    for len in [0usize, 1, 65534, 65535, 65536, 131069, 131070, 131071, 196605, 196606] {
        let d = r.bytes(len);
        deflate_case(ctx, &d);
    }
    gunzip_corpus(ctx);

    // ---- generated ----
    for it in 0..ctx.n(45, 1200) {
        let sub = ctx.seed.wrapping_mul(9_000_011).wrapping_add(it);
        let (finish, ops) = level0_case(sub);
        run_level0(ctx, finish, &ops, &format!("stored level0 {sub}"), it % 3 == 0);
    }
    for it in 0..ctx.n(14, 300) {
        let sub = ctx.seed.wrapping_mul(9_000_011).wrapping_add(it);
        let (level, finish, ops) = fallback_case(sub);
        run_fallback(ctx, level, finish, &ops, &format!("stored fallback {sub}"));
    }
    for it in 0..ctx.n(60, 1500) {
        let sub = ctx.seed.wrapping_mul(9_000_011).wrapping_add(it);
        gunzip_generated(ctx, sub);
    }
    for it in 0..ctx.n(4, 60) {
        let mut rr = Rng::new(ctx.seed.wrapping_mul(31).wrapping_add(it) ^ 0xdef1);
        let len = *rr.pick(&[65535usize, 65536, 131070, 100_000, 200_000]) - rr.below(3) as usize;
        let d = c01::gen_payload(&mut rr, len);
        deflate_case(ctx, &d);
    }
}

pub fn replay(ctx: &mut Ctx, case: &[String]) -> bool {
    if case.first().map(|s| s.as_str()) != Some("stored") {
        return false;
    }
    match case.get(1).map(|s| s.as_str()) {
        Some("level0") => {
            let sub: u64 = case[2].parse().unwrap();
            let (finish, ops) = level0_case(sub);
            let h = c01::run_real(0, finish, &ops);
            oracle_file(ctx, &h, "level 0", &case.join(" "));
            println!("stored level0: {} bytes written, sink {} bytes, end {}", h.written.len(), h.sink.len(), h.end);
        }
        Some("fallback") => {
            let sub: u64 = case[2].parse().unwrap();
            let (level, finish, ops) = fallback_case(sub);
            run_fallback(ctx, level, finish, &ops, &case.join(" "));
            println!("stored fallback: level {level}");
        }
        Some("gunzipfile") => {
            let file = unhex(&case[2]);
            println!("flate2 MultiGzDecoder: {:?}", multi_gunzip(&file).map(|d| d.len()));
        }
        Some("corpus") => println!("stored corpus cases are fixed; rerun the suite"),
        _ => {}
    }
    true
}
