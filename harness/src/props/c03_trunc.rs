//! C03 extension: the multithreaded BGZF reader on damaged / truncated input — where errors surface.
//!
//! Runs inside the per-pool-size child processes of `c03.rs` (RAYON_NUM_THREADS = pool size, so
//! `buffer_count = pool + 2`). The real threads run freely (optionally perturbed by random delays
//! at the start of inflate tasks through the cfg(noodles_verif) hook): only schedule-independent
//! observables are compared — the caller-visible transcript of reads / seeks / finish(), which
//! `Noodles.Props.C03.mtr_trunc_*` / `mt_*` prove to be the same for every schedule.
//!
//! CORRESPONDENCE  `c03 trunc <nbuf> <file> <inflate table> <ops>` → transcript (Lean: `MtTrunc.Sim`).
//! ORACLE          against the single-threaded `bgzf::io::Reader` on the same bytes and ops:
//!   * the bytes agree op by op up to (and including) the op where the single-threaded reader fails
//!     (`mt-trunc-bytes-differ`);
//!   * the single-threaded reader fails ⇒ the multithreaded reader reports an error from that op, a
//!     later op or finish() (`mt-reader-truncation-hidden`);
//!   * the single-threaded reader is clean ⇒ no error from any op nor finish() (`mt-trunc-false-error`);
//!   * no hang (`mt-reader-hang`), no panic (`mt-trunc-panic`).
use std::collections::BTreeSet;
use std::io::{Cursor, Read, Write};
use std::sync::Arc;
use std::time::Duration;

use noodles_bgzf as bgzf;

use super::c01::{make_member, raw_inflate, stored_member, EOF};
use crate::common::*;

#[derive(Clone, Copy, Debug, PartialEq)]
enum Op {
    Read(usize),
    Seek(u64, u16),
}

fn ops_str(ops: &[Op]) -> String {
    if ops.is_empty() {
        return "-".into();
    }
    ops.iter().map(|o| match o { Op::Read(n) => format!("r{n}"), Op::Seek(c, u) => format!("s{c}:{u}") }).collect::<Vec<_>>().join(",")
}

/// inflate table for every frame a reader can delimit when it starts at one of `starts`
fn inf_table(file: &[u8], starts: &[usize]) -> String {
    let mut seen = BTreeSet::new();
    let mut v = vec![];
    for &st in starts {
        let mut s = if st <= file.len() { &file[st..] } else { &file[file.len()..] };
        while s.len() >= 18 {
            let total = u16::from_le_bytes([s[16], s[17]]) as usize + 1;
            if total < 26 || total > s.len() {
                break;
            }
            let m = &s[..total];
            let cdata = &m[18..total - 8];
            let isize = u32::from_le_bytes(m[total - 4..].try_into().unwrap()) as usize;
            if isize <= 65536 && seen.insert((crc32(cdata), cdata.len(), isize)) {
                let d = raw_inflate(cdata, isize);
                v.push(format!("{}:{}:{}:{}", crc32(cdata), cdata.len(), isize, d.map(|d| if d.is_empty() { "-".to_string() } else { hex(&d) }).unwrap_or("!".into())));
            }
            s = &s[total..];
        }
    }
    if v.is_empty() { "-".into() } else { v.join(",") }
}

/// one caller operation on any reader: `r<n>` reads (in calls of at most `chunk` bytes) until `n` bytes
/// were delivered or a call returned Ok(0) / an error
fn do_read<R: Read>(r: &mut R, n: usize, chunk: usize) -> String {
    let mut got = vec![];
    let mut buf = vec![0u8; chunk.min(n).max(1)];
    let mut end = String::new();
    while got.len() < n {
        let want = (n - got.len()).min(buf.len());
        match r.read(&mut buf[..want]) {
            Ok(0) => {
                end = ",eof".into();
                break;
            }
            Ok(k) => got.extend_from_slice(&buf[..k]),
            Err(e) => {
                end = format!(",{}", errclass(&e));
                break;
            }
        }
    }
    format!("d:{}{}", hex(&got), end)
}

fn run_mt(file: Vec<u8>, ops: Vec<Op>, chunk: usize) -> Vec<String> {
    use bgzf::io::Seek as _;
    let mut r = bgzf::io::MultithreadedReader::new(Cursor::new(file));
    let mut out = vec![];
    for op in &ops {
        out.push(match *op {
            Op::Read(n) => do_read(&mut r, n, chunk),
            Op::Seek(c, u) => match r.seek_to_virtual_position(bgzf::VirtualPosition::try_from((c, u)).unwrap()) {
                Ok(_) => "ok".into(),
                Err(e) => errclass(&e).into(),
            },
        });
    }
    out.push(match r.finish() {
        Ok(_) => "fin:ok".into(),
        Err(e) => format!("fin:{}", errclass(&e)),
    });
    out
}

fn run_st(file: &[u8], ops: &[Op], chunk: usize) -> Vec<String> {
    let mut r = bgzf::io::Reader::new(Cursor::new(file));
    let mut out = vec![];
    for op in ops {
        out.push(match *op {
            Op::Read(n) => do_read(&mut r, n, chunk),
            Op::Seek(c, u) => match r.seek(bgzf::VirtualPosition::try_from((c, u)).unwrap()) {
                Ok(_) => "ok".into(),
                Err(e) => errclass(&e).into(),
            },
        });
    }
    out
}

/// as in c03.rs: a hang costs `secs`; the first two timeouts of a process wait much longer so that a
/// slow machine is not mistaken for a hang
fn with_watchdog<T: Send + 'static>(secs: u64, f: impl FnOnce() -> T + Send + 'static) -> Option<Result<T, ()>> {
    let (tx, rx) = std::sync::mpsc::channel();
    std::thread::spawn(move || {
        let r = std::panic::catch_unwind(std::panic::AssertUnwindSafe(f));
        let _ = tx.send(r);
    });
    static TIMEOUTS: std::sync::atomic::AtomicUsize = std::sync::atomic::AtomicUsize::new(0);
    let patient = TIMEOUTS.load(std::sync::atomic::Ordering::Relaxed) < 2;
    match rx.recv_timeout(Duration::from_secs(if patient { secs.max(90) } else { secs })) {
        Ok(Ok(v)) => Some(Ok(v)),
        Ok(Err(_)) => Some(Err(())),
        Err(_) => {
            TIMEOUTS.fetch_add(1, std::sync::atomic::Ordering::Relaxed);
            None
        }
    }
}

fn threads() -> usize {
    std::env::var("RAYON_NUM_THREADS").ok().and_then(|s| s.parse().ok()).unwrap_or(4)
}

/// never more than 3 reads before the first seek and 2 after each seek: every read consumes at most one
/// failing ticket, each failing ticket costs the reader one of its `pool + 2 >= 3` buffers, and a read
/// with none left never returns (modelled: `MtTrunc.Sim.recvLoop`, theorem
/// `mtr_trunc_read_blocks_after_nbuf_errors`) — not provoked here
fn clamp_ops(ops: Vec<Op>) -> Vec<Op> {
    let mut out = vec![];
    let mut budget = 3;
    for op in ops {
        match op {
            Op::Read(_) => {
                if budget > 0 {
                    budget -= 1;
                    out.push(op);
                }
            }
            Op::Seek(..) => {
                budget = 2;
                out.push(op);
            }
        }
    }
    out
}

struct Case {
    file: Vec<u8>,
    ops: Vec<Op>,
    chunk: usize,
    delay: bool,
    kind: String,
}

fn one(ctx: &mut Ctx, c: Case, case: String, emit: bool) {
    let nthreads = threads();
    let nbuf = nthreads + 2;
    let ops = clamp_ops(c.ops);
    // free-running threads, optionally perturbed: random short delays at the start of inflate tasks
    if c.delay {
        let salt = fnv(case.as_bytes());
        bgzf::verif::set_hook(Some(Arc::new(move |ev: &'static str, data: &[u8]| {
            if ev == "inflate:start" {
                let h = fnv(data) ^ salt;
                if h % 3 != 0 {
                    std::thread::sleep(Duration::from_micros(h % 400));
                }
            }
        })));
    }
    let (f2, o2, chunk) = (c.file.clone(), ops.clone(), c.chunk);
    let got = with_watchdog(8, move || run_mt(f2, o2, chunk));
    if c.delay {
        bgzf::verif::set_hook(None);
    }
    ctx.eval(Some(fnv(format!("{}{}{}", hex(&c.file), ops_str(&ops), nbuf).as_bytes())));
    ctx.bump(&format!("trunc:kind:{}", c.kind));
    let mt = match got {
        None => {
            ctx.fail("mt-reader-hang", format!("multithreaded reader on a damaged file ({}) did not return: file {} bytes, ops {}, pool {nthreads}", c.kind, c.file.len(), ops_str(&ops)), case);
            return;
        }
        Some(Err(())) => {
            ctx.fail("mt-trunc-panic", format!("multithreaded reader panicked on a damaged file ({}): ops {}, pool {nthreads}", c.kind, ops_str(&ops)), case);
            if emit {
                let starts: Vec<usize> = std::iter::once(0).chain(ops.iter().filter_map(|o| if let Op::Seek(c, _) = o { Some(*c as usize) } else { None })).collect();
                ctx.corr(format!("c03 trunc {nbuf} {} {} {}", hex(&c.file), inf_table(&c.file, &starts), ops_str(&ops)), "panic".into());
            }
            return;
        }
        Some(Ok(v)) => v,
    };
    // --- correspondence ---
    if emit {
        let starts: Vec<usize> = std::iter::once(0).chain(ops.iter().filter_map(|o| if let Op::Seek(c, _) = o { Some(*c as usize) } else { None })).collect();
        ctx.corr(format!("c03 trunc {nbuf} {} {} {}", hex(&c.file), inf_table(&c.file, &starts), ops_str(&ops)), mt.join(" "));
    }
    // --- histogram: which call reported what ---
    let fin = mt.last().cloned().unwrap_or_default();
    let read_err = mt[..mt.len() - 1].iter().any(|a| a.contains("err:"));
    ctx.bump(&format!("trunc:mt:{}+{}", if read_err { "call-error" } else { "calls-ok" }, fin));
    for a in &mt[..mt.len() - 1] {
        if let Some((_, e)) = a.split_once(',') {
            ctx.bump(&format!("trunc:read-end:{e}"));
        } else if a.starts_with("err:") || a == "ok" {
            ctx.bump(&format!("trunc:seek:{a}"));
        } else {
            ctx.bump("trunc:read-end:count-reached");
        }
    }
    // --- oracle against the single-threaded reader ---
    let st = match guarded(|| run_st(&c.file, &ops, c.chunk)) {
        Ok(v) => v,
        Err(_) => {
            ctx.bump("trunc:st-panicked");
            return;
        }
    };
    let bytes = |a: &str| a.split(',').next().unwrap_or("").to_string();
    let k = st.iter().position(|a| a.contains("err:"));
    let upto = k.map(|k| k + 1).unwrap_or(st.len());
    for i in 0..upto {
        // a failed seek delivers no bytes: nothing to compare at that op
        let (a, b) = (&mt[i], &st[i]);
        let same = if matches!(ops[i], Op::Seek(..)) { k == Some(i) || a == b } else { bytes(a) == bytes(b) };
        if !same {
            ctx.fail("mt-trunc-bytes-differ", format!("damaged file ({}), pool {nthreads}, op {i} of {}: multithreaded reader answered {:?}, single-threaded {:?}", c.kind, ops_str(&ops), a, b), case);
            return;
        }
    }
    match k {
        Some(k) => {
            let reported = mt[k..].iter().any(|a| a.contains("err:"));
            if !reported {
                ctx.fail("mt-reader-truncation-hidden", format!("damaged file ({}), pool {nthreads}, ops {}: the single-threaded reader fails op {k} with {:?}; the multithreaded reader answered {:?} and finish() returned Ok — the damage is reported nowhere", c.kind, ops_str(&ops), st[k], &mt[k..]), case);
                return;
            }
            let by_call = mt[k..mt.len() - 1].iter().any(|a| a.contains("err:"));
            ctx.bump(if by_call { "trunc:st-error-reported-by-a-call" } else { "trunc:st-error-reported-by-finish-only" });
        }
        None => {
            // every op of the single-threaded reader succeeded; if its last read also saw the clean end of the
            // file, the multithreaded reader must be silent too (it may otherwise have read ahead into damage
            // the single-threaded reader has not reached: not an alarm)
            let st_saw_end = st.last().map(|a| a.ends_with(",eof")).unwrap_or(false);
            let any_err = mt.iter().any(|a| a.contains("err:"));
            if st_saw_end && any_err {
                ctx.fail("mt-trunc-false-error", format!("file ({}) the single-threaded reader reads to a clean end, pool {nthreads}, ops {}: the multithreaded reader answered {:?}", c.kind, ops_str(&ops), mt), case);
                return;
            }
            ctx.bump(if any_err { "trunc:mt-read-ahead-error-st-not-there-yet" } else { "trunc:both-clean" });
        }
    }
}

// ---------------------------------------------------------------- generators

fn member(rng: &mut Rng, data: &[u8]) -> Vec<u8> {
    if rng.chance(1, 4) {
        return stored_member(data);
    }
    let mut w = bgzf::io::Writer::new(Vec::new());
    w.write_all(data).unwrap();
    let mut m = w.finish().unwrap();
    m.truncate(m.len() - 28);
    if data.is_empty() { EOF.to_vec() } else { m }
}

fn payload(rng: &mut Rng, i: usize) -> Vec<u8> {
    let len = match rng.below(10) {
        0 => 0,
        1 => 1,
        2 => 200 + rng.below(200) as usize,
        _ => 2 + rng.below(40) as usize,
    };
    (0..len).map(|j| if rng.chance(1, 3) { rng.next() as u8 } else { b'a' + ((i * 7 + j) % 23) as u8 }).collect()
}

/// (file, member starts, payload lengths)
fn gen_file(rng: &mut Rng, nblk: usize, with_eof: bool) -> (Vec<u8>, Vec<usize>, Vec<usize>) {
    let mut file = vec![];
    let mut starts = vec![];
    let mut lens = vec![];
    for i in 0..nblk {
        let p = payload(rng, i);
        starts.push(file.len());
        lens.push(p.len());
        file.extend_from_slice(&member(rng, &p));
    }
    if with_eof {
        starts.push(file.len());
        lens.push(0);
        file.extend_from_slice(&EOF);
    }
    (file, starts, lens)
}

fn gen_ops(rng: &mut Rng, starts: &[usize], lens: &[usize], file_len: usize) -> Vec<Op> {
    const ALL: usize = 1 << 20;
    match rng.below(8) {
        0 | 1 | 2 => vec![Op::Read(ALL)],
        // go on after an error / Ok(0)
        3 => vec![Op::Read(ALL), Op::Read(ALL), Op::Read(ALL)],
        // stop early, then finish(): before the fix the buffer budget decided whether finish() saw the damaged end
        4 => vec![Op::Read(1 + rng.below(60) as usize)],
        _ => {
            let mut ops = vec![];
            if rng.chance(2, 3) {
                ops.push(Op::Read(if rng.chance(1, 2) { ALL } else { 1 + rng.below(80) as usize }));
            }
            let j = rng.below(starts.len() as u64) as usize;
            let (c, u) = match rng.below(10) {
                // not a member boundary / beyond the file
                0 => (rng.below(file_len as u64 + 40), 0),
                1 => (starts[j] as u64, lens[j] as u64 + 1 + rng.below(3)),
                _ => (starts[j] as u64, rng.below(lens[j] as u64 + 1)),
            };
            ops.push(Op::Seek(c, u as u16));
            ops.push(Op::Read(ALL));
            if rng.chance(1, 3) {
                ops.push(Op::Read(ALL));
            }
            ops
        }
    }
}

fn damage(rng: &mut Rng, file: &mut Vec<u8>, starts: &[usize]) -> String {
    let nm = starts.len();
    let end_of = |j: usize, file: &Vec<u8>| if j + 1 < nm { starts[j + 1] } else { file.len() };
    match rng.below(9) {
        0 => "intact".into(),
        1 | 2 => {
            // cut anywhere in the last two members
            let from = starts[nm.saturating_sub(2)];
            let k = from + rng.below((file.len() - from) as u64) as usize;
            file.truncate(k);
            "cut".into()
        }
        3 | 4 | 5 => {
            let j = rng.below(nm as u64) as usize;
            let (s, e) = (starts[j], end_of(j, file));
            let (pos, what) = match rng.below(8) {
                0 => (s + rng.below(4) as usize, "magic"),
                1 => (s + 4 + rng.below(6) as usize, "mtime-xfl-os"),
                2 => (s + 10 + rng.below(6) as usize, "xlen-si-slen"),
                3 => (s + 16 + rng.below(2) as usize, "bsize"),
                4 => (e - 8 + rng.below(4) as usize, "crc"),
                5 => (e - 4 + rng.below(4) as usize, "isize"),
                _ => (s + 18 + rng.below((e - s - 26).max(1) as u64) as usize, "cdata"),
            };
            let bit = 1u8 << rng.below(8);
            file[pos] ^= bit;
            format!("flip-{what}")
        }
        6 => {
            let n = *rng.pick(&[1usize, 5, 17, 18, 19, 30, 60]);
            let g = rng.bytes(n);
            file.extend_from_slice(&g);
            "garbage-appended".into()
        }
        7 => {
            // two damages: a bad checksum somewhere and a cut at the end
            let j = rng.below(nm as u64) as usize;
            let e = end_of(j, file);
            file[e - 6] ^= 0x10;
            let from = starts[nm - 1];
            let k = from + rng.below((file.len() - from) as u64) as usize;
            file.truncate(k.max(e));
            "crc-and-cut".into()
        }
        _ => {
            // several bad members (never more than 2: see clamp_ops)
            for bit in [0x01u8, 0x02] {
                let j = rng.below(nm as u64) as usize;
                let e = end_of(j, file);
                file[e - 7] ^= bit;
            }
            "two-bad-crc".into()
        }
    }
}

fn gen_case(sub: u64) -> Case {
    let mut rng = Rng::new(sub ^ 0xc03_7c03);
    let nblk = 1 + rng.below(7) as usize;
    let with_eof = !rng.chance(1, 6);
    let (mut file, starts, lens) = gen_file(&mut rng, nblk, with_eof);
    let ops = gen_ops(&mut rng, &starts, &lens, file.len());
    let mut kind = damage(&mut rng, &mut file, &starts);
    if !with_eof {
        kind.push_str("+no-eof-marker");
    }
    let chunk = *rng.pick(&[1usize, 7, 64, 70000, 70000]);
    Case { file, ops, chunk, delay: rng.chance(1, 2), kind }
}

/// hand-written boundary cases; `i` indexes the list
fn corpus() -> Vec<Case> {
    const ALL: usize = 1 << 20;
    let a = stored_member(b"noodles");
    let b = stored_member(b"bgzf!");
    let e = EOF.to_vec();
    let cat = |v: &[&[u8]]| v.concat();
    let mk = |file: Vec<u8>, ops: Vec<Op>, kind: &str| Case { file, ops, chunk: 70000, delay: false, kind: format!("corpus:{kind}") };
    let mut v = vec![];
    v.push(mk(vec![], vec![Op::Read(ALL)], "empty-file"));
    v.push(mk(vec![], vec![], "empty-file-finish-only"));
    v.push(mk(e.clone(), vec![Op::Read(ALL)], "eof-marker-only"));
    v.push(mk(cat(&[&a, &b, &e]), vec![Op::Read(ALL)], "intact"));
    v.push(mk(cat(&[&a, &b, &e]), vec![], "intact-finish-only"));
    v.push(mk(cat(&[&a, &b]), vec![Op::Read(ALL)], "no-eof-marker"));
    // 1..17 trailing bytes: `read_frame_into` answers Ok(None) for ANY short header
    for n in [1usize, 17, 18, 19, 27] {
        v.push(mk(cat(&[&a, &e[..n]]), vec![Op::Read(ALL)], &format!("tail-{n}-of-28")));
    }
    // BSIZE too small: InvalidData from the reader thread
    let mut small = a.clone();
    small[16] = 24;
    small[17] = 0;
    v.push(mk(cat(&[&b, &small, &e]), vec![Op::Read(ALL)], "bsize-24"));
    // bad magic / bad ISIZE / bad CRC / bad cdata: the inflate task's errors
    for (pos, name) in [(0usize, "magic"), (3, "flg"), (12, "si1"), (a.len() - 1, "isize-hi"), (a.len() - 8, "crc"), (19, "stored-len")] {
        let mut m = a.clone();
        m[pos] ^= 0x40;
        v.push(mk(cat(&[&b, &m, &b, &e]), vec![Op::Read(ALL), Op::Read(ALL)], &format!("flip-{name}")));
    }
    // ISIZE = 65537
    let big = make_member(&[0x03, 0x00], 0, 65537);
    v.push(mk(cat(&[&b, &big, &e]), vec![Op::Read(ALL)], "isize-65537"));
    // three bad members in a row, the caller goes on (3 errors = all buffers of pool 1; no 4th read)
    let mut bad = a.clone();
    let n = bad.len();
    bad[n - 8] ^= 1;
    v.push(mk(cat(&[&bad, &bad, &bad, &b, &e]), vec![Op::Read(ALL), Op::Read(ALL), Op::Read(ALL)], "three-bad"));
    // a long file cut in its last member, the caller stops early: finish() is Ok (before the fix: only for small pools)
    let many: Vec<u8> = (0..24).flat_map(|_| a.clone()).collect();
    let cutm = cat(&[&many, &b[..b.len() - 3]]);
    v.push(mk(cutm.clone(), vec![Op::Read(1)], "24-members-cut-read-1"));
    v.push(mk(cutm.clone(), vec![Op::Read(50)], "24-members-cut-read-50"));
    v.push(mk(cutm.clone(), vec![Op::Read(ALL)], "24-members-cut-read-all"));
    v.push(mk(cutm.clone(), vec![], "24-members-cut-finish-only"));
    // read to the damaged end, seek back, read a little, finish (before the fix: read answered Ok(0) at the
    // damaged end and pause() discarded the thread's error — the truncation was reported nowhere)
    v.push(mk(cutm.clone(), vec![Op::Read(ALL), Op::Seek(0, 3), Op::Read(2)], "cut-read-all-seek-back-read-2"));
    v.push(mk(cutm.clone(), vec![Op::Read(ALL), Op::Seek(0, 3), Op::Read(ALL)], "cut-read-all-seek-back-read-all"));
    // seek: into a bad member, beyond the data of a member, to the EOF marker, beyond the file, mid-member
    v.push(mk(cat(&[&b, &bad, &b, &e]), vec![Op::Read(2), Op::Seek(b.len() as u64, 0), Op::Read(ALL)], "seek-to-bad-member"));
    v.push(mk(cat(&[&a, &b, &e]), vec![Op::Seek(a.len() as u64, 6), Op::Read(ALL)], "seek-beyond-block-data"));
    v.push(mk(cat(&[&a, &b, &e]), vec![Op::Seek(a.len() as u64, 5), Op::Read(ALL)], "seek-to-block-end"));
    v.push(mk(cat(&[&a, &b, &e]), vec![Op::Seek((a.len() + b.len()) as u64, 0), Op::Read(ALL)], "seek-to-eof-marker"));
    v.push(mk(cat(&[&a, &b, &e]), vec![Op::Seek((a.len() + b.len() + 28) as u64, 0), Op::Read(ALL)], "seek-to-file-end"));
    v.push(mk(cat(&[&a, &b, &e]), vec![Op::Seek((a.len() + b.len() + 28) as u64, 1), Op::Read(ALL)], "seek-to-file-end-u1"));
    v.push(mk(cat(&[&a, &b, &e]), vec![Op::Seek(1000, 0), Op::Read(ALL)], "seek-beyond-file"));
    v.push(mk(cat(&[&a, &b, &e]), vec![Op::Seek(5, 0), Op::Read(ALL)], "seek-mid-member"));
    // an empty member mid-file, bad empty member
    let mut bade = e.clone();
    bade[22] ^= 1;
    v.push(mk(cat(&[&a, &e, &b, &e]), vec![Op::Read(ALL)], "empty-member-mid-file"));
    v.push(mk(cat(&[&a, &bade, &b, &e]), vec![Op::Read(ALL), Op::Read(ALL)], "bad-empty-member-mid-file"));
    v
}

/// every cut offset of the last two members of a small file (plus the whole EOF marker)
fn sweep(ctx: &mut Ctx, nthreads: usize) {
    let sub = ctx.seed.wrapping_mul(97_103).wrapping_add(nthreads as u64);
    let mut rng = Rng::new(sub);
    let (file, starts, _) = gen_file(&mut rng, 3, true);
    let from = starts[starts.len() - 3];
    let step = if ctx.tier_thorough { 1 } else { 1 + (file.len() - from) / 60 };
    let mut k = from;
    while k <= file.len() {
        let c = Case { file: file[..k].to_vec(), ops: vec![Op::Read(1 << 20)], chunk: 70000, delay: k % 2 == 0, kind: "cut-sweep".into() };
        one(ctx, c, format!("trunc {nthreads} sweep {sub} {k}"), true);
        k += step;
    }
}

pub fn run(ctx: &mut Ctx) {
    let nthreads = threads();
    for (i, c) in corpus().into_iter().enumerate() {
        one(ctx, c, format!("trunc {nthreads} corpus {i}"), true);
    }
    sweep(ctx, nthreads);
    let n = ctx.n(150, 4000);
    for it in 0..n {
        let sub = ctx.seed.wrapping_mul(60_013).wrapping_add(it).wrapping_add(nthreads as u64 * 1_000_003);
        one(ctx, gen_case(sub), format!("trunc {nthreads} gen {sub}"), true);
    }
    // a malformed request: the model must refuse it as the harness expects
    ctx.corr("c03 trunc x - - r1".into(), "bad-op".into());
}

/// case words: `trunc <pool> corpus <i>` | `trunc <pool> gen <sub>` | `trunc <pool> sweep <sub> <k>`
pub fn replay(ctx: &mut Ctx, case: &[String]) -> bool {
    if case.first().map(|s| s.as_str()) != Some("trunc") {
        return false;
    }
    let arg = |i: usize| case.get(i).and_then(|s| s.parse::<u64>().ok()).unwrap_or(0);
    let text = case.join(" ");
    match case.get(2).map(|s| s.as_str()) {
        Some("corpus") => {
            if let Some(c) = corpus().into_iter().nth(arg(3) as usize) {
                one(ctx, c, text, true);
            }
        }
        Some("gen") => one(ctx, gen_case(arg(3)), text, true),
        Some("sweep") => {
            let mut rng = Rng::new(arg(3));
            let (file, _, _) = gen_file(&mut rng, 3, true);
            let k = (arg(4) as usize).min(file.len());
            one(ctx, Case { file: file[..k].to_vec(), ops: vec![Op::Read(1 << 20)], chunk: 70000, delay: k % 2 == 0, kind: "cut-sweep".into() }, text, true);
        }
        _ => {}
    }
    true
}
