//! C15, extension C15rec: the CRAM compression header parser, the data-series decoders and the record
//! decoder on HOSTILE input (hooks `noodles_cram::verif_enc`), compared with the C07 encodings models
//! (`lean/Noodles/Cram/{Bits,Encoding,CompressionHeader,RecordCodec}.lean`) plus the `tame` verdict of
//! `lean/Noodles/Hostile/CramRec.lean` (request words `c15 rec hdr|dec|slice`, handled by
//! `lean/Noodles/Hostile/DriverC15Rec.lean`).
//!
//! This file is a child module of `c07_enc` (one `pub mod` line there) so that it can use that
//! module's private generators and formatters; `props/c15_rec.rs` is the facade `c15.rs` calls.
//!
//! * correspondence: a hand-written corpus first (the byte-level witnesses of the Lean theorems,
//!   one entry per rejecting branch of the decoders and of `read_record`, lengths and counts at
//!   their limits), then slices written by the REAL writer under generated headers with hostile
//!   variants of the header bytes (truncated, one byte replaced, bytes inserted / deleted, one series
//!   re-encoded with a core-data codec) and of the streams (truncated / dropped / mutated block, an
//!   ITF8 replaced by a limit value, more records than written, core garbage), hostile headers over
//!   random streams, and single decode runs of generated encodings. The answer is
//!   `<tame|untame|-> <records | error class | panic>`; `tame` is computed HERE by a Rust twin of the
//!   Lean predicate (from the `Debug` rendering of the parsed header), so the correspondence also
//!   checks that the class the theorems speak about is the class the harness judges by.
//! * a header with a byte code that consumes no input (one-symbol alphabet / zero-bit code) lets the
//!   input choose lengths freely (`vec![value; len]`): such mutants are parsed (`rec hdr`) but not
//!   decoded unless they come from the bounded generators. Allocation is out of scope of C15.
//! * oracle: the property on the real code — every evaluation answers `Ok` or `Err`. A panic under a
//!   TAME header is the failure `cram-record-decode-panic` (it would contradict the theorems); a
//!   panic under an UNTAME header is the genuine defect `cram-encoding-decoder-panic`
//!   (`fixes/cram-encoding-decoders-panic.diff`); a panic of the header parser is
//!   `cram-compression-header-panic`.
use super::*;

const CLASS_KNOWN: &str = "cram-encoding-decoder-panic";
const CLASS_NEW: &str = "cram-record-decode-panic";
const CLASS_HDR: &str = "cram-compression-header-panic";

// ------------------------------------------------------------------ the Rust twin of `tame`

/// `huffTame` AFTER the fix `cram-encoding-decoders-panic`: the code book is always built (an empty
/// alphabet gives an empty book, a step of 32 bits or more clears the code, `+ 1` wraps); tame = no word of
/// the final book (a later entry for a symbol replaces the earlier one) is longer than 31 bits
fn huff_tame(alphabet: &[i64], lens: &[u64]) -> bool {
    let mut pairs: Vec<(u64, i64)> = alphabet.iter().zip(lens).map(|(s, l)| (*l, *s)).collect();
    pairs.sort();
    let mut book: Vec<(i64, u64)> = vec![];
    for (len, sym) in pairs {
        match book.iter_mut().find(|e| e.0 == sym) {
            Some(e) => e.1 = len,
            None => book.push((sym, len)),
        }
    }
    book.iter().all(|e| e.1 <= 31)
}

#[derive(Default)]
struct Scan {
    tame: bool,
    /// a byte code that consumes no input
    free_byte: bool,
    kinds: Vec<String>,
}

fn parse_list(s: &str) -> Option<(Vec<i64>, &str)> {
    let end = s.find(']')?;
    let body = &s[..end];
    let v = if body.trim().is_empty() { vec![] } else { body.split(',').map(|x| x.trim().parse::<i64>().ok()).collect::<Option<Vec<_>>>()? };
    Some((v, &s[end + 1..]))
}

fn num_after<'a>(s: &'a str, label: &str) -> Option<(i64, &'a str)> {
    let s = s.strip_prefix(label)?;
    let end = s.find(|c: char| !(c.is_ascii_digit() || c == '-')).unwrap_or(s.len());
    Some((s[..end].parse().ok()?, &s[end..]))
}

/// one `Debug` rendering (`DataSeriesEncodings`, an `Encoding`, an `AnyEncoding`)
fn scan_debug(s: &str, scan: &mut Scan) {
    const BYTE_CTX: [&str; 5] = ["feature_codes: Some(Encoding(", "base_substitution_codes: Some(Encoding(", " bases: Some(Encoding(", " quality_scores: Some(Encoding(", "value_encoding: Encoding("];
    fn note(scan: &mut Scan, kind: &str, t: bool) {
        scan.kinds.push(format!("{kind}:{}", if t { "tame" } else { "untame" }));
        scan.tame &= t;
    }
    for k in ["Golomb {", "Subexp {", "GolombRice {"] {
        for _ in s.matches(k) {
            note(scan, k.trim_end_matches(" {"), false);
        }
    }
    for (i, m) in s.match_indices("Huffman { alphabet: [") {
        let rest = &s[i + m.len()..];
        let parsed = parse_list(rest).and_then(|(a, r)| r.strip_prefix(", bit_lens: [").and_then(parse_list).map(|(l, _)| (a, l)));
        let Some((a, l)) = parsed else {
            note(scan, "huffman-unparsed", false);
            continue;
        };
        let is_byte = BYTE_CTX.iter().any(|c| s[..i].ends_with(c)) || s[..i].ends_with("Byte(Encoding(");
        let l: Vec<u64> = l.iter().map(|x| *x as u64).collect();
        if is_byte && (a.len() == 1 || l.contains(&0)) {
            scan.free_byte = true;
        }
        let t = a.len() == 1 || huff_tame(&a, &l);
        note(scan, if a.len() == 1 { "huffman-1" } else if a.is_empty() || l.is_empty() { "huffman-empty" } else if l.contains(&0) { "huffman-0bit" } else { "huffman" }, t);
    }
    for (i, m) in s.match_indices("Beta { ") {
        let rest = &s[i + m.len()..];
        let p = num_after(rest, "offset: ").and_then(|(o, r)| num_after(r, ", len: ").map(|(l, _)| (o, l)));
        match p {
            Some((o, l)) => note(scan, if l > 31 { "beta-len>31" } else if l == 0 { "beta-len0" } else { "beta" }, l > 31 || ((1i128 << l) - 1 - o as i128) < (1i128 << 31)),
            None => note(scan, "beta-unparsed", false),
        }
    }
    for (i, m) in s.match_indices("Gamma { ") {
        match num_after(&s[i + m.len()..], "offset: ") {
            Some((o, _)) => note(scan, "gamma", o == 0),
            None => note(scan, "gamma-unparsed", false),
        }
    }
}

fn scan_fields(f: &ve::CompressionHeaderFields) -> Scan {
    let mut scan = Scan { tame: true, ..Default::default() };
    scan_debug(&f.data_series_encodings, &mut scan);
    for (_, e) in &f.tag_encodings {
        scan_debug(e, &mut scan);
    }
    scan
}

fn tame_word(t: bool) -> &'static str {
    if t { "tame" } else { "untame" }
}

// ------------------------------------------------------------------------------- the cases

fn parse_ext(s: &str) -> Vec<(i32, Vec<u8>)> {
    if s == "-" { return vec![] }
    s.split(';').filter_map(|p| p.split_once('=')).filter_map(|(i, h)| Some((i.parse().ok()?, unhex(h)))).collect()
}

fn parse_ctx(s: &str) -> (i32, usize, usize) {
    let p: Vec<&str> = s.split(':').collect();
    match p.as_slice() {
        [a, b, c] => (a.parse().unwrap_or(0), b.parse().unwrap_or(0), c.parse().unwrap_or(0)),
        _ => (s.parse().unwrap_or(-1), 0, 0),
    }
}

/// `rec hdr`: the header parser alone
fn hdr_case(ctx: &mut Ctx, chb: &[u8], origin: &str) -> Option<(cram::container::CompressionHeader, Scan)> {
    let r = res_class(guarded(|| ve::read_compression_header(chb)));
    ctx.eval(None);
    ctx.bump(&format!("rec-hdr-{origin}:{}", match &r { Ok(_) => "ok", Err(c) => c.as_str() }));
    match r {
        Ok(h) => {
            let f = ve::compression_header_fields(&h);
            let scan = scan_fields(&f);
            ctx.corr(format!("c15 rec hdr {}", hex(chb)), format!("{} {}", tame_word(scan.tame), fmt_fields(&f)));
            Some((h, scan))
        }
        Err(c) => {
            if c == "panic" {
                ctx.fail(CLASS_HDR, format!("read_compression_header panicked on {}", hex(chb)), format!("rec hdr {}", hex(chb)));
            }
            ctx.corr(format!("c15 rec hdr {}", hex(chb)), format!("- {c}"));
            None
        }
    }
}

/// `rec slice`: header bytes + streams through the real `read_compression_header` and `read_record` loop
fn slice_case2(ctx: &mut Ctx, chb: &[u8], c: (i32, usize, usize), core: &[u8], ext: &[(i32, Vec<u8>)], n: usize, origin: &str, bounded: bool) {
    let Some(rc) = real_ctx(c) else { return };
    let req = format!("c15 rec slice {} {} {} {} {n}", hex(chb), ctx_s(c), hex(core), fmt_ext(ext));
    let case = format!("rec slice {} {} {} {} {n}", hex(chb), ctx_s(c), hex(core), fmt_ext(ext));
    let hr = res_class(guarded(|| ve::read_compression_header(chb)));
    let h = match hr {
        Ok(h) => h,
        Err(cl) => {
            ctx.eval(None);
            ctx.bump(&format!("rec-slice-{origin}:header-{cl}"));
            if cl == "panic" {
                ctx.fail(CLASS_HDR, format!("read_compression_header panicked on {}", hex(chb)), format!("rec hdr {}", hex(chb)));
            }
            ctx.corr(req, format!("- {cl}"));
            return;
        }
    };
    let scan = scan_fields(&ve::compression_header_fields(&h));
    for k in &scan.kinds {
        ctx.bump(&format!("rec-codec:{k}"));
    }
    if scan.free_byte && !bounded {
        // lengths are the input's free choice: parsed, not decoded
        ctx.bump(&format!("rec-slice-{origin}:skipped-free-byte-code"));
        hdr_case(ctx, chb, origin);
        return;
    }
    let r = res_class(guarded(|| ve::read_records(&h, rc, core, ext, n)));
    let out = match &r { Ok(rs) => fmt_recs_out(rs), Err(cl) => cl.clone() };
    ctx.eval(Some(fnv(req.as_bytes())));
    ctx.bump(&format!("rec-slice-{origin}:{}", match &r { Ok(_) => "ok", Err(cl) => cl.as_str() }));
    ctx.bump(&format!("rec-slice:{}:{}", tame_word(scan.tame), match &r { Ok(_) => "ok", Err(cl) => cl.as_str() }));
    if let Ok(rs) = &r {
        ctx.bump(&format!("rec-slice-records:{}", rs.len().min(8)));
    }
    if matches!(&r, Err(cl) if cl == "panic") {
        let cls = if scan.tame { CLASS_NEW } else { CLASS_KNOWN };
        ctx.fail(cls, format!("read_record panicked under a{} header ({origin}; codecs {:?})", if scan.tame { " TAME" } else { "n untame" }, scan.kinds), case);
    }
    ctx.corr(req, format!("{} {out}", tame_word(scan.tame)));
}

/// `rec dec`: one run of decode calls on a set of encodings
fn dec_case(ctx: &mut Ctx, encs: &[E], core: &[u8], ext: &[(i32, Vec<u8>)], ops: &[(usize, Option<usize>)]) {
    let Some(real) = encs.iter().map(|e| e.real()).collect::<Option<Vec<ve::AnyEncoding>>>() else {
        ctx.bump("rec-dec:encoding-rejected");
        return;
    };
    let mut flags = String::new();
    let mut all_tame = true;
    for (e, r) in encs.iter().zip(&real) {
        let mut scan = Scan { tame: true, ..Default::default() };
        scan_debug(&format!("{r:?}"), &mut scan);
        flags.push(if scan.tame { 't' } else { 'u' });
        all_tame &= scan.tame;
        ctx.bump(&format!("rec-dec-enc:{}:{}", e.label(), tame_word(scan.tame)));
    }
    let encs_s = encs.iter().map(|e| e.req()).collect::<Vec<_>>().join(";");
    let ops_s = ops.iter().map(|(i, t)| match t { Some(n) => format!("{i}/{n}"), None => i.to_string() }).collect::<Vec<_>>().join(",");
    let fmt = |vals: &[std::io::Result<ve::Val>]| -> Vec<String> { vals.iter().map(|v| match v { Ok(v) => fmt_val(v), Err(e) => errclass(e).to_string() }).collect() };
    let (vals, panicked) = match guarded(|| ve::decode_values(&real, core, ext, ops)) {
        Ok((vals, _)) => (fmt(&vals), false),
        Err(_) => {
            // the values decoded before the panic, found by replaying prefixes
            let mut prefix: Vec<String> = vec![];
            for k in 0..ops.len() {
                match guarded(|| ve::decode_values(&real, core, ext, &ops[..=k])) {
                    Ok((vals, _)) => prefix = fmt(&vals),
                    Err(_) => break,
                }
            }
            prefix.push("panic".into());
            (prefix, true)
        }
    };
    let req = format!("c15 rec dec {encs_s} {} {} {ops_s}", hex(core), fmt_ext(ext));
    ctx.eval(Some(fnv(req.as_bytes())));
    let last = vals.last().cloned().unwrap_or_default();
    ctx.bump(&format!("rec-dec:{}:{}", tame_word(all_tame), if last.starts_with("err") || last == "panic" { last.as_str() } else { "ok" }));
    if panicked {
        let cls = if all_tame { CLASS_NEW } else { CLASS_KNOWN };
        ctx.fail(cls, format!("decode panicked ({encs_s}; flags {flags})"), format!("rec dec {encs_s} {} {} {ops_s}", hex(core), fmt_ext(ext)));
    }
    ctx.corr(req, format!("{flags} {}", if vals.is_empty() { "-".to_string() } else { vals.join(",") }));
}

// ------------------------------------------------------------------------------- the corpus

fn set(h: &mut Hdr, key: &str, e: E) {
    for (i, x) in h.series.iter_mut() {
        if SERIES[*i].0 == key {
            *x = e.clone();
        }
    }
}

fn put(ext: &mut Vec<(i32, Vec<u8>)>, id: i32, b: Vec<u8>) {
    ext.retain(|x| x.0 != id);
    ext.push((id, b));
    ext.sort();
}

/// the header bytes of the Lean witnesses (`witnessHeader` in Props/C15Rec.lean)
fn witness_header(enc: &[u8]) -> Vec<u8> {
    witness_header_for(b"BF", enc)
}

/// the same header with the one series `key`
fn witness_header_for(key: &[u8; 2], enc: &[u8]) -> Vec<u8> {
    let mut v = vec![12, 2, 83, 77, 27, 27, 27, 27, 27, 84, 68, 1, 0, enc.len() as u8 + 3, 1, key[0], key[1]];
    v.extend(enc);
    v.extend([1, 0]);
    v
}

fn corpus(ctx: &mut Ctx) {
    let none = (-1, 0, 0);
    // the byte-level witnesses of the Lean theorems `cram_slice_decode_can_panic_*`
    slice_case2(ctx, &witness_header(&[2, 2, 0, 1]), none, &[], &[], 1, "witness", true);
    slice_case2(ctx, &witness_header(&[3, 2, 0, 0]), none, &[], &[], 1, "witness", true);
    slice_case2(ctx, &witness_header(&[3, 6, 2, 0, 1, 2, 0, 32]), none, &[], &[], 1, "witness", true);
    slice_case2(ctx, &witness_header(&[6, 6, 248, 0, 0, 0, 0, 1]), none, &[0], &[], 1, "witness", true);
    slice_case2(ctx, &witness_header(&[9, 1, 1]), none, &[0, 0, 0, 1, 0, 0, 0, 0], &[], 1, "witness", true);
    // `cram_huffman_code_book_can_panic_code_overflow`: lengths 1..31, 31
    let a: Vec<i32> = (0..32).collect();
    let mut l: Vec<u32> = (1..=31).collect();
    l.push(31);
    dec_case(ctx, &[E::IntHuff(a.clone(), l.clone())], &[0xff; 8], &[], &[(0, None)]);
    dec_case(ctx, &[E::ByteHuff(a, l)], &[0xff; 8], &[], &[(0, None), (0, Some(3))]);

    // an unmapped and a mapped record under `DataSeriesEncodings::init`, one empty tag set
    let base = Hdr::init(true, true, vec![vec![]]);
    let m1 = vec![0xff, 0xff, 0xff, 0xff, 0x0f];
    let unmapped: Vec<(i32, Vec<u8>)> = vec![(1, vec![4]), (2, vec![0]), (4, vec![2]), (5, vec![0]), (6, m1.clone()), (7, vec![0x61, 0]), (13, vec![0]), (27, vec![65, 67])];
    let mapped: Vec<(i32, Vec<u8>)> = vec![(1, vec![0]), (2, vec![0]), (4, vec![2]), (5, vec![7]), (6, m1.clone()), (7, vec![0x62, 0]), (13, vec![0]), (14, vec![1]), (15, vec![b'X']), (16, vec![1]), (20, vec![0]), (26, vec![30])];
    let chb = base.ser();
    slice_case2(ctx, &chb, none, &[], &unmapped, 1, "corpus", true);
    slice_case2(ctx, &chb, (0, 5, 100), &[], &mapped, 1, "corpus", true);
    slice_case2(ctx, &chb, (-2, 0, 0), &[], &{ let mut e = mapped.clone(); put(&mut e, 3, vec![0]); e }, 1, "corpus", true);
    // counts beyond the data, no blocks at all, count 0
    slice_case2(ctx, &chb, none, &[], &unmapped, 3, "corpus", true);
    slice_case2(ctx, &chb, none, &[], &[], 1, "corpus", true);
    slice_case2(ctx, &chb, none, &[], &unmapped, 0, "corpus", true);
    // one stream at a time replaced by a limit / invalid value
    let i32max = itf8(i32::MAX);
    let i32min = itf8(i32::MIN);
    for (id, on_mapped) in [(1, false), (2, false), (4, false), (5, false), (6, false), (13, false), (1, true), (4, true), (5, true), (14, true), (15, true), (16, true), (20, true), (26, true)] {
        for v in [vec![], m1.clone(), i32max.clone(), i32min.clone(), vec![0x80], vec![0x81, 0x00], vec![0x00], vec![0xc1, 0x00, 0x00], vec![5]] {
            let mut e = if on_mapped { mapped.clone() } else { unmapped.clone() };
            put(&mut e, id, v);
            slice_case2(ctx, &chb, if on_mapped { (0, 5, 100) } else { none }, &[], &e, 1, "corpus-limit", true);
        }
        let mut e = if on_mapped { mapped.clone() } else { unmapped.clone() };
        e.retain(|x| x.0 != id);
        slice_case2(ctx, &chb, if on_mapped { (0, 5, 100) } else { none }, &[], &e, 1, "corpus-missing-block", true);
    }
    // alignment start delta at the i32 limit (`checked_add`), flags that ask for mate / quality series
    slice_case2(ctx, &chb, (0, i32::MAX as usize, i32::MAX as usize), &[], &{ let mut e = mapped.clone(); put(&mut e, 5, vec![1]); e }, 1, "corpus-limit", true);
    slice_case2(ctx, &chb, (0, i32::MAX as usize, i32::MAX as usize), &[], &{ let mut e = mapped.clone(); put(&mut e, 5, i32max.clone()); e }, 1, "corpus-limit", true);
    slice_case2(ctx, &chb, (0, 1, 1), &[], &{ let mut e = mapped.clone(); put(&mut e, 5, i32max.clone()); e }, 1, "corpus-limit", true);
    slice_case2(ctx, &chb, (0, 3, 3), &[], &{ let mut e = mapped.clone(); put(&mut e, 5, i32min.clone()); e }, 1, "corpus-limit", true);
    for cf in [1u8, 2, 3, 4, 5, 8, 15, 16] {
        let mut e = mapped.clone();
        put(&mut e, 2, vec![cf]);
        slice_case2(ctx, &chb, (0, 5, 100), &[], &e, 1, "corpus-flags", true);
        let mut e = unmapped.clone();
        put(&mut e, 2, vec![cf]);
        put(&mut e, 28, vec![0xff, 0xff]);
        put(&mut e, 8, vec![3]);
        put(&mut e, 9, m1.clone());
        put(&mut e, 10, vec![0]);
        put(&mut e, 11, i32min.clone());
        put(&mut e, 12, vec![0]);
        slice_case2(ctx, &chb, none, &[], &e, 1, "corpus-flags", true);
    }
    // every feature code (and two that are none) with its series present / missing
    for code in *b"bqBXIDiQNSPH\x00z" {
        let mut e = mapped.clone();
        put(&mut e, 15, vec![code]);
        slice_case2(ctx, &chb, (0, 5, 100), &[], &e, 1, "corpus-feature", true);
        for (id, v) in [(17, vec![1]), (18, vec![65, 0]), (19, vec![1, 33]), (21, vec![65, 0]), (22, vec![1]), (23, vec![1]), (24, vec![1]), (25, vec![65, 0]), (27, vec![65]), (28, vec![33])] {
            put(&mut e, id, v);
        }
        slice_case2(ctx, &chb, (0, 5, 100), &[], &e, 1, "corpus-feature", true);
        put(&mut e, 16, vec![0]);
        slice_case2(ctx, &chb, (0, 5, 100), &[], &e, 1, "corpus-feature-position-0", true);
        put(&mut e, 16, vec![9]);
        slice_case2(ctx, &chb, (0, 5, 100), &[], &e, 1, "corpus-feature-out-of-read", true);
    }

    // every integer codec on the read length, over a core stream of ones / zeros / a gamma word
    let cores: [&[u8]; 5] = [&[], &[0xff, 0xff, 0xff, 0xff, 0xff], &[0, 0, 0, 0, 0], &[0, 0, 0, 1, 0, 0, 0, 0], &[0x5a, 0xc3, 0x01, 0x80]];
    let mut encs: Vec<E> = vec![E::IntGolomb(0, 1), E::IntSubexp(0, 1), E::IntRice(0, 1), E::IntGolomb(i32::MIN, i32::MAX)];
    for (a, l) in [(vec![], vec![]), (vec![1, 2], vec![]), (vec![], vec![1, 2]), (vec![1, 2], vec![1]), (vec![2], vec![99]), (vec![2], vec![]), (vec![0, 1], vec![0, 32]), (vec![0, 1], vec![0, 31]), (vec![0, 1], vec![1, 33]), (vec![0, 1], vec![32, 32]), (vec![0, 1], vec![40, 40]), (vec![0, 1, 2], vec![1, 2, 2]), (vec![0, 1, 2], vec![1, 1, 1]), (vec![1, 1], vec![1, 40]), (vec![1, 1], vec![40, 1]), (vec![0, 1], vec![0, 0]), (vec![3, 2], vec![0, 1]), (vec![0, 1], vec![1, 70000])] {
        encs.push(E::IntHuff(a, l));
    }
    for len in [0u32, 1, 8, 30, 31, 32, 33, 40, 1 << 20] {
        for o in [0, 1, -1, i32::MAX, i32::MIN, i32::MIN + 1] {
            encs.push(E::IntBeta(o, len));
        }
    }
    for o in [0, 1, -1, 2, i32::MAX, i32::MIN] {
        encs.push(E::IntGamma(o));
    }
    for e in &encs {
        let mut h = base.clone();
        set(&mut h, "RL", e.clone());
        let chb = h.ser();
        for core in cores {
            slice_case2(ctx, &chb, none, core, &unmapped, 1, "corpus-codec", true);
            dec_case(ctx, &[e.clone()], core, &[], &[(0, None), (0, None)]);
        }
    }
    // byte codecs (zero-bit codes: lengths kept small by the streams) and ByteArrayLength nesting
    let byte_encs = [E::ByteHuff(vec![65], vec![0]), E::ByteHuff(vec![65], vec![7]), E::ByteHuff(vec![65, 67], vec![0, 1]), E::ByteHuff(vec![65, 67], vec![1, 1]), E::ByteHuff(vec![], vec![]), E::ByteHuff(vec![65, 67], vec![1, 33]), E::ByteHuff(vec![300, -1], vec![1, 1]), E::ByteExt(27), E::ByteExt(99)];
    for e in &byte_encs {
        let mut h = base.clone();
        set(&mut h, "BA", e.clone());
        let chb = h.ser();
        for core in cores {
            slice_case2(ctx, &chb, none, core, &unmapped, 1, "corpus-byte-codec", true);
            dec_case(ctx, &[e.clone()], core, &[(27, vec![1, 2, 3])], &[(0, None), (0, Some(0)), (0, Some(2)), (0, Some(40))]);
        }
        for l in [E::IntHuff(vec![3], vec![0]), E::IntHuff(vec![-1], vec![0]), E::IntBeta(0, 2), E::IntBeta(1, 2), E::IntExt(7), E::IntGamma(0), E::IntGolomb(0, 0)] {
            let arr = E::ArrLen(Box::new(l), Box::new(e.clone()));
            let mut h = base.clone();
            set(&mut h, "RN", arr.clone());
            let chb = h.ser();
            for core in cores {
                slice_case2(ctx, &chb, none, core, &{ let mut x = unmapped.clone(); put(&mut x, 7, vec![2, 0x61, 0x62]); x }, 1, "corpus-bytes-len", true);
                dec_case(ctx, &[arr.clone()], core, &[(7, vec![2, 0x61, 0x62]), (27, vec![9, 9, 9])], &[(0, None), (0, None)]);
            }
        }
    }
    // tags: one set with an `i` and a `Z` value; lengths negative / beyond the block; the set id out of range
    let th = Hdr::init(true, true, vec![vec![], vec![*b"NMi", *b"COZ"]]);
    let chb = th.ser();
    let (nm, co) = (key_id(b"NMi"), key_id(b"COZ"));
    for (tl, nmv, cov) in [(vec![1], vec![4, 1, 0, 0, 0], vec![2, 0x61, 0]), (vec![1], vec![3, 1, 0, 0], vec![2, 0x61, 0]), (vec![1], vec![4, 1, 0, 0, 0], vec![2, 0x61, 0x62]), (vec![1], m1.clone(), vec![1, 0]), (vec![1], i32max.clone(), vec![1, 0]), (vec![1], vec![0], vec![0]), (vec![2], vec![], vec![]), (m1.clone(), vec![], vec![]), (vec![1], vec![], vec![])] {
        let mut e = unmapped.clone();
        put(&mut e, 13, tl);
        if !nmv.is_empty() { put(&mut e, nm, nmv); }
        if !cov.is_empty() { put(&mut e, co, cov); }
        slice_case2(ctx, &chb, none, &[], &e, 1, "corpus-tags", true);
    }
    // header bytes: every truncation of the base header and of a header with core codecs, every byte
    // of the small witness header replaced by boundary values
    let mut hh = base.clone();
    set(&mut hh, "RL", E::IntHuff(vec![0, 1, 2], vec![1, 2, 2]));
    set(&mut hh, "AP", E::IntBeta(-3, 5));
    set(&mut hh, "RG", E::IntGamma(1));
    set(&mut hh, "RN", E::ArrLen(Box::new(E::IntHuff(vec![3], vec![0])), Box::new(E::ByteHuff(vec![65, 66], vec![1, 1]))));
    for b in [base.ser(), hh.ser(), th.ser()] {
        for cut in 0..b.len() {
            hdr_case(ctx, &b[..cut], "corpus-truncated");
        }
    }
    // every codec kind with empty / cut / odd argument arrays, on a series of each value type
    for key in [b"BF", b"FC", b"RN", b"TC"] {
        for kind in 0u8..=10 {
            for args in [vec![], vec![0x80], vec![0], vec![0, 0x80], vec![1, 0], vec![0xff, 0xff, 0xff, 0xff, 0x0f], vec![1, 1, 0, 1, 1, 0]] {
                let mut enc = vec![kind, args.len() as u8];
                enc.extend(&args);
                hdr_case(ctx, &witness_header_for(key, &enc), "corpus-codec-args");
            }
        }
    }
    let w = witness_header(&[3, 6, 2, 0, 1, 2, 0, 31]);
    for i in 0..w.len() {
        for v in [0u8, 1, 2, 3, 4, 5, 6, 7, 8, 9, 10, 0x7f, 0x80, 0xc0, 0xe0, 0xf0, 0xff] {
            let mut m = w.clone();
            m[i] = v;
            slice_case2(ctx, &m, none, &[0x5a, 0xc3, 0x01, 0x80], &[], 1, "corpus-header-byte", false);
        }
    }
}

// ----------------------------------------------------------------- generated hostile variants

const BOUNDARY: [u8; 20] = [0, 1, 2, 3, 4, 5, 6, 7, 8, 9, 31, 32, 0x42, 0x58, 0x7f, 0x80, 0xc0, 0xe0, 0xf0, 0xff];

fn mutate_header(rng: &mut Rng, chb: &[u8]) -> (Vec<u8>, &'static str) {
    let mut b = chb.to_vec();
    if b.is_empty() { return (b, "empty") }
    match rng.below(5) {
        0 => {
            b.truncate(rng.below(b.len() as u64) as usize);
            (b, "header-truncated")
        }
        1 | 2 => {
            let i = rng.below(b.len() as u64) as usize;
            b[i] = if rng.chance(3, 4) { *rng.pick(&BOUNDARY) } else { rng.next() as u8 };
            (b, "header-byte")
        }
        3 => {
            let i = rng.below(b.len() as u64 + 1) as usize;
            let ne = 1 + rng.below(3);
            let mut extra: Vec<u8> = vec![];
            for _ in 0..ne {
                extra.push(*rng.pick(&BOUNDARY));
            }
            b.splice(i..i, extra);
            (b, "header-insert")
        }
        _ => {
            let i = rng.below(b.len() as u64) as usize;
            let j = (i + 1 + rng.below(3) as usize).min(b.len());
            b.drain(i..j);
            (b, "header-delete")
        }
    }
}

fn mutate_streams(rng: &mut Rng, core: &mut Vec<u8>, b: &mut Vec<(i32, Vec<u8>)>, n: &mut usize) -> &'static str {
    match rng.below(8) {
        0 if !b.is_empty() => {
            let k = rng.below(b.len() as u64) as usize;
            let cut = rng.below(b[k].1.len() as u64) as usize;
            b[k].1.truncate(cut);
            "block-truncated"
        }
        1 if !b.is_empty() => {
            let k = rng.below(b.len() as u64) as usize;
            b.remove(k);
            "block-dropped"
        }
        2 | 3 if !b.is_empty() => {
            let k = rng.below(b.len() as u64) as usize;
            let j = rng.below(b[k].1.len() as u64) as usize;
            b[k].1[j] = *rng.pick(&BOUNDARY);
            "block-byte"
        }
        4 if !b.is_empty() => {
            // an ITF8 at a limit in place of one byte
            let k = rng.below(b.len() as u64) as usize;
            let j = rng.below(b[k].1.len() as u64) as usize;
            let v = itf8(*rng.pick(&[-1, i32::MAX, i32::MIN, 1 << 28, 65536, 255, 256, -2]));
            b[k].1.splice(j..j + 1, v);
            "block-limit-value"
        }
        5 => {
            *n += *rng.pick(&[1usize, 2, 100]);
            "more-records"
        }
        6 => {
            let k = rng.below(6) as usize;
            *core = rng.bytes(k);
            "core-garbage"
        }
        _ => {
            if let Some(k) = (!b.is_empty()).then(|| rng.below(b.len() as u64) as usize) {
                let m = 1 + rng.below(3) as usize;
                let extra = rng.bytes(m);
                b[k].1.extend(extra);
            }
            "block-trailing"
        }
    }
}

/// a slice written by the real writer under a generated header, then hostile variants of it
fn written_case(ctx: &mut Ctx, seed: u64, it: u64) {
    let mut rng = Rng::new(seed ^ 0xC15_0EC ^ it.wrapping_mul(0x9E3779B1));
    let s = gen_slice_case(seed ^ 0xC15, it);
    let chb = s.hdr.ser();
    let (Some(h), Some(rc)) = (real_header(&chb), real_ctx(s.ctx)) else {
        ctx.bump("rec-written:header-or-context-rejected");
        return;
    };
    let Some(vrecs) = s.recs.iter().map(to_vrecord).collect::<Option<Vec<_>>>() else {
        ctx.bump("rec-written:tag-value-rejected");
        return;
    };
    let Ok((core, ext)) = res_class(guarded(|| ve::write_records(&h, rc, &s.ids, &vrecs))) else {
        ctx.bump("rec-written:writer-refused");
        return;
    };
    let blocks: Vec<(i32, Vec<u8>)> = ext.into_iter().filter(|(_, b)| !b.is_empty()).collect();
    let n = s.recs.len();
    ctx.bump(&format!("rec-written:records-{}", n.min(8)));
    slice_case2(ctx, &chb, s.ctx, &core, &blocks, n, "written-intact", true);
    for _ in 0..ctx.n(5, 8) {
        let (mut core2, mut b2, mut n2) = (core.clone(), blocks.clone(), n);
        match rng.below(4) {
            0 => {
                let (m, origin) = mutate_header(&mut rng, &chb);
                slice_case2(ctx, &m, s.ctx, &core2, &b2, n2, origin, false);
            }
            1 => {
                // one series re-encoded with a generated (often core-data) codec: the streams no longer fit it
                let mut hd = s.hdr.clone();
                let k = rng.below(hd.series.len() as u64) as usize;
                let i = hd.series[k].0;
                hd.series[k].1 = match SERIES[i].1 {
                    'a' => gen_arr_enc(&mut rng, true),
                    'b' => gen_byte_enc(&mut rng, true),
                    _ => gen_int_enc(&mut rng, true),
                };
                if rng.chance(1, 2) {
                    let k = 1 + rng.below(8) as usize;
                    core2 = rng.bytes(k);
                }
                slice_case2(ctx, &hd.ser(), s.ctx, &core2, &b2, n2, "series-recoded", false);
            }
            _ => {
                let origin = mutate_streams(&mut rng, &mut core2, &mut b2, &mut n2);
                slice_case2(ctx, &chb, s.ctx, &core2, &b2, n2, origin, true);
            }
        }
    }
}

/// a hostile generated header (core-data codecs, dropped / duplicate series) over small random streams,
/// intact and with its bytes mutated
fn random_case(ctx: &mut Ctx, seed: u64, it: u64) {
    let mut rng = Rng::new(seed ^ 0xC15_4057 ^ it.wrapping_mul(0x9E3779B1));
    let h = gen_hdr(&mut rng, true);
    let chb = h.ser();
    let mut ext: Vec<(i32, Vec<u8>)> = vec![];
    for id in h.all_ids() {
        if rng.chance(5, 6) {
            let n = rng.below(24) as usize;
            ext.push((id, (0..n).map(|_| match rng.below(6) { 0 => rng.next() as u8, 1 => *rng.pick(b"bqBXIDiQNSPH"), _ => rng.below(6) as u8 }).collect()));
        }
    }
    let k = rng.below(12) as usize;
    let core = rng.bytes(k);
    let c = match rng.below(3) {
        0 => (-1, 0, 0),
        1 => (-2, 0, 0),
        _ => (rng.below(3) as i32, 1 + rng.below(100) as usize, 200),
    };
    let n = 1 + rng.below(3) as usize;
    slice_case2(ctx, &chb, c, &core, &ext, n, "random-header", true);
    for _ in 0..2 {
        let (m, origin) = mutate_header(&mut rng, &chb);
        slice_case2(ctx, &m, c, &core, &ext, n, origin, false);
    }
}

/// decode runs of generated encodings on random streams
fn random_dec_case(ctx: &mut Ctx, seed: u64, it: u64) {
    let mut rng = Rng::new(seed ^ 0xC15_DEC ^ it.wrapping_mul(0x9E3779B1));
    let ne = 1 + rng.below(3);
    let mut encs: Vec<E> = vec![];
    for _ in 0..ne {
        encs.push(match rng.below(3) { 0 => gen_byte_enc(&mut rng, true), 1 => gen_arr_enc(&mut rng, true), _ => gen_int_enc(&mut rng, true) });
    }
    let mut ids = vec![];
    for e in &encs {
        let mut h = Hdr::init(true, true, vec![]);
        h.series = vec![(0, e.clone())];
        ids.extend(h.all_ids());
    }
    ids.sort();
    ids.dedup();
    let mut ext: Vec<(i32, Vec<u8>)> = vec![];
    for id in ids {
        if rng.chance(5, 6) {
            let n = rng.below(16) as usize;
            let mut b = vec![];
            for _ in 0..n {
                b.push(if rng.chance(1, 5) { rng.next() as u8 } else { rng.below(5) as u8 });
            }
            ext.push((id, b));
        }
    }
    let core = { let n = rng.below(10) as usize; if rng.chance(1, 4) { vec![0; n] } else { rng.bytes(n) } };
    let nops = 1 + rng.below(5);
    let mut ops: Vec<(usize, Option<usize>)> = vec![];
    for _ in 0..nops {
        let i = rng.below(encs.len() as u64) as usize;
        let take = if encs[i].kind() == 'b' && rng.chance(1, 2) { Some(rng.below(20) as usize) } else { None };
        ops.push((i, take));
    }
    dec_case(ctx, &encs, &core, &ext, &ops);
}

pub fn run(ctx: &mut Ctx) {
    let t0 = std::time::Instant::now();
    corpus(ctx);
    for it in 0..ctx.n(1200, 15_000) {
        written_case(ctx, ctx.seed, it);
    }
    for it in 0..ctx.n(1200, 15_000) {
        random_case(ctx, ctx.seed, it);
    }
    for it in 0..ctx.n(4000, 50_000) {
        random_dec_case(ctx, ctx.seed, it);
    }
    ctx.bump_by("c15rec-millis", t0.elapsed().as_millis() as u64);
    ctx.sample(|| "c15 rec hdr|dec|slice … (harness/src/props/c07_enc/c15_rec.rs): hostile compression headers and slices vs the C07 encodings models + tame verdict".into());
}

pub fn replay(ctx: &mut Ctx, case: &[String]) -> bool {
    if case.first().map(|s| s.as_str()) != Some("rec") {
        return false;
    }
    let arg = |k: usize| case.get(k).map(|s| s.as_str()).unwrap_or("-");
    let num = |k: usize| -> u64 { case.get(k).and_then(|s| s.parse().ok()).unwrap_or(0) };
    match arg(1) {
        "corpus" => corpus(ctx),
        "written" => written_case(ctx, num(2), num(3)),
        "random" => random_case(ctx, num(2), num(3)),
        "rdec" => random_dec_case(ctx, num(2), num(3)),
        "hdr" => {
            hdr_case(ctx, &unhex(arg(2)), "replay");
        }
        "slice" => slice_case2(ctx, &unhex(arg(2)), parse_ctx(arg(3)), &unhex(arg(4)), &parse_ext(arg(5)), num(6) as usize, "replay", true),
        "dec" => {
            // `rec dec <encs> <core> <ext> <ops>`: the encodings are re-read from their parameter bytes
            let encs: Option<Vec<E>> = arg(2).split(';').map(|item| item.split_once('.').and_then(|(k, h)| parse_e(k, &unhex(h)))).collect();
            let ops: Vec<(usize, Option<usize>)> = arg(5).split(',').filter_map(|o| match o.split_once('/') { Some((i, t)) => Some((i.parse().ok()?, Some(t.parse().ok()?))), None => Some((o.parse().ok()?, None)) }).collect();
            match encs {
                Some(encs) => dec_case(ctx, &encs, &unhex(arg(3)), &parse_ext(arg(4)), &ops),
                None => ctx.bump("rec-dec:replay-unparsed"),
            }
        }
        _ => return false,
    }
    true
}

/// parameter bytes back to the harness's `E` (replay only; the shapes `E::ser` writes)
fn parse_e(kind: &str, b: &[u8]) -> Option<E> {
    fn rd(b: &mut &[u8]) -> Option<i32> {
        let (v, n) = {
            let s = *b;
            let b0 = *s.first()? as u32;
            if b0 < 0x80 { (b0, 1) } else if b0 < 0xc0 { (((b0 & 0x7f) << 8) | *s.get(1)? as u32, 2) } else if b0 < 0xe0 { (((b0 & 0x3f) << 16) | (*s.get(1)? as u32) << 8 | *s.get(2)? as u32, 3) } else if b0 < 0xf0 { (((b0 & 0x1f) << 24) | (*s.get(1)? as u32) << 16 | (*s.get(2)? as u32) << 8 | *s.get(3)? as u32, 4) } else { (((b0 & 0x0f) << 28) | (*s.get(1)? as u32) << 20 | (*s.get(2)? as u32) << 12 | (*s.get(3)? as u32) << 4 | (*s.get(4)? as u32 & 0x0f), 5) }
        };
        *b = &b[n..];
        Some(v as i32)
    }
    fn go(kind: &str, b: &mut &[u8]) -> Option<E> {
        let k = rd(b)?;
        let len = rd(b)? as usize;
        let (mut a, rest) = (b.get(..len)?, b.get(len..)?);
        *b = rest;
        let a = &mut a;
        let huff = |a: &mut &[u8]| -> Option<(Vec<i32>, Vec<u32>)> {
            let n = rd(a)?;
            let al = (0..n).map(|_| rd(a)).collect::<Option<Vec<_>>>()?;
            let m = rd(a)?;
            let l = (0..m).map(|_| rd(a).map(|x| x as u32)).collect::<Option<Vec<_>>>()?;
            Some((al, l))
        };
        Some(match (kind, k) {
            ("i", 1) => E::IntExt(rd(a)?),
            ("b", 1) => E::ByteExt(rd(a)?),
            ("i", 2) => E::IntGolomb(rd(a)?, rd(a)?),
            ("i", 3) => { let (x, y) = huff(a)?; E::IntHuff(x, y) }
            ("b", 3) => { let (x, y) = huff(a)?; E::ByteHuff(x, y) }
            ("a", 4) => { let l = go("i", a)?; let v = go("b", a)?; E::ArrLen(Box::new(l), Box::new(v)) }
            ("a", 5) => { let sb = *a.first()?; *a = &a[1..]; E::ArrStop(sb, rd(a)?) }
            ("i", 6) => E::IntBeta(rd(a)?, rd(a)? as u32),
            ("i", 7) => E::IntSubexp(rd(a)?, rd(a)?),
            ("i", 8) => E::IntRice(rd(a)?, rd(a)?),
            ("i", 9) => E::IntGamma(rd(a)?),
            _ => return None,
        })
    }
    let mut s = b;
    go(kind, &mut s)
}
