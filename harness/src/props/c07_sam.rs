//! C07 (extension) — SAM ⇄ CRAM slice conversion against the Lean model `Noodles.Cram.SamConv`.
//!
//! CORRESPONDENCE (`c07 sam …`): the generated C07 cases with their tags stripped are written by the real
//! CRAM writer through the public API (library default encoders) and read back slice by slice with
//! `Slice::records`; one request per slice carries the writer options, the slice's record counter, the
//! container's substitution matrix, every reference and the INPUT records of the slice; the answer is the
//! slice header's reference sequence context and the records the real reader returned, through the
//! `sam::alignment::Record` accessors.
//! ORACLE (on the real code): for every well-formed input record (`sam_wf`) flags, reference, position,
//! mapping quality, CIGAR (normal form), bases (case-insensitive), qualities and — under
//! preserve_read_names — the name come back unchanged. Mate fields / template length are judged by c07.rs.
//!
//! `Slice::header()` is crate-private: the slice header fields (context triple, record counter) and the
//! substitution matrix come from the independent container walker (`c07/walker.rs`) over the same bytes,
//! in file order.
use crate::common::*;
use noodles_cram as cram;
use noodles_fasta as fasta;
use noodles_sam as sam;
use sam::alignment::io::Write as _;

#[path = "c07/cases.rs"]
#[allow(dead_code)]
mod cases;
#[path = "c07/walker.rs"]
#[allow(dead_code)]
mod walker;
use cases::{Case, Rec};
use walker::{walk, ExpRec, Expect};

fn repository(refs: &[(String, Vec<u8>)]) -> fasta::Repository {
    let recs: Vec<fasta::Record> = refs
        .iter()
        .map(|(n, s)| fasta::Record::new(fasta::record::Definition::new(n.as_bytes(), None), fasta::record::Sequence::from(s.clone())))
        .collect();
    fasta::Repository::new(recs)
}

struct Parsed {
    header: sam::Header,
    bufs: Vec<sam::alignment::RecordBuf>,
    lazy: Vec<sam::Record>,
}

fn parse_sam(text: &str) -> std::io::Result<Parsed> {
    let mut rd = sam::io::Reader::new(text.as_bytes());
    let header = rd.read_header()?;
    let bufs: Vec<sam::alignment::RecordBuf> = rd.record_bufs(&header).collect::<std::io::Result<_>>()?;
    let mut rd = sam::io::Reader::new(text.as_bytes());
    rd.read_header()?;
    let lazy: Vec<sam::Record> = rd.records().collect::<std::io::Result<_>>()?;
    Ok(Parsed { header, bufs, lazy })
}

enum WriteOut {
    Ok(Vec<u8>),
    Rejected(String),
    Panic,
}

/// the real writer through the public API, library default encoders
fn write_cram(case: &Case, p: &Parsed) -> WriteOut {
    let o = &case.opts;
    let r = guarded(|| -> std::io::Result<Vec<u8>> {
        let b = cram::io::writer::Builder::default()
            .set_reference_sequence_repository(repository(&case.refs))
            .preserve_read_names(o.preserve_names)
            .encode_alignment_start_positions_as_deltas(o.deltas);
        let mut w = if o.rps == 0 { b.build_from_writer(Vec::new()) } else { b.verif_build_from_writer_with_layout(Vec::new(), o.rps, o.spc.max(1)) };
        w.write_header(&p.header)?;
        if o.lazy {
            for r in &p.lazy {
                w.write_alignment_record(&p.header, r)?;
            }
        } else {
            for r in &p.bufs {
                w.write_alignment_record(&p.header, r)?;
            }
        }
        w.try_finish(&p.header)?;
        Ok(w.get_ref().clone())
    });
    match r {
        Ok(Ok(v)) => WriteOut::Ok(v),
        Ok(Err(e)) => WriteOut::Rejected(format!("{}: {e}", errclass(&e))),
        Err(_) => WriteOut::Panic,
    }
}

fn expect_of(case: &Case) -> Expect {
    Expect {
        recs: case
            .recs
            .iter()
            .map(|r| {
                let placed = r.rid.is_some() && r.pos > 0;
                ExpRec {
                    rid: r.rid.map(|x| x as i32).unwrap_or(-1),
                    start: r.pos,
                    end: if placed { if r.unmapped() { r.pos } else { r.end() } } else { 0 },
                    read_len: r.seq.len(),
                    exact: placed && !r.unmapped() && r.ref_span() > 0 && !r.seq.is_empty(),
                }
            })
            .collect(),
        refs: case.refs.iter().map(|r| r.1.clone()).collect(),
        preserve_names: case.opts.preserve_names,
        deltas: case.opts.deltas,
    }
}

/// one record as the real reader returned it
struct OutRec {
    name: Option<Vec<u8>>,
    flags: u16,
    rid: Option<usize>,
    pos: Option<usize>,
    mapq: Option<u8>,
    cigar: Vec<(u8, usize)>,
    mrid: Option<usize>,
    mpos: Option<usize>,
    tlen: i32,
    seq: Vec<u8>,
    qual: Vec<u8>,
    downstream: bool,
}

fn opt(x: Option<usize>) -> String {
    x.map(|v| v.to_string()).unwrap_or_else(|| "-".into())
}

fn cigar_string(c: &[(u8, usize)]) -> String {
    if c.is_empty() { "*".into() } else { c.iter().map(|(k, n)| format!("{n}{}", *k as char)).collect() }
}

impl OutRec {
    fn render(&self) -> String {
        format!(
            "{},{},{},{},{},{},{},{},{},{},{}",
            match &self.name {
                Some(n) => hex(n),
                None => "-".into(),
            },
            self.flags,
            opt(self.rid),
            opt(self.pos),
            self.mapq.map(|v| v.to_string()).unwrap_or_else(|| "-".into()),
            cigar_string(&self.cigar),
            opt(self.mrid),
            opt(self.mpos),
            self.tlen,
            hex(&self.seq),
            hex(&self.qual)
        )
    }
}

fn render_input(r: &Rec) -> String {
    format!(
        "{},{},{},{},{},{},{},{},{},{},{}",
        if r.name == b"*" { "-".to_string() } else { hex(&r.name) },
        r.flag,
        opt(r.rid),
        if r.pos > 0 { r.pos.to_string() } else { "-".into() },
        if r.mapq == 255 { "-".to_string() } else { r.mapq.to_string() },
        r.cigar_str(),
        opt(r.rnext),
        if r.pnext > 0 { r.pnext.to_string() } else { "-".into() },
        r.tlen,
        hex(&r.seq),
        hex(&r.qual)
    )
}

/// the real reader at the container / slice level: records per slice, in file order
fn read_slices(bytes: &[u8], refs: &[(String, Vec<u8>)]) -> Result<Vec<Vec<OutRec>>, String> {
    use sam::alignment::Record as _;
    let r = guarded(|| -> std::io::Result<Vec<Vec<OutRec>>> {
        let mut rd = cram::io::reader::Builder::default().set_reference_sequence_repository(repository(refs)).build_from_reader(bytes);
        let header = rd.read_header()?;
        let mut container = cram::io::reader::Container::default();
        let mut out = vec![];
        while rd.read_container(&mut container)? != 0 {
            let ch = container.compression_header()?;
            for slice in container.slices() {
                let slice = slice?;
                let (core, ext) = slice.decode_blocks()?;
                let recs = slice.records(repository(refs), &header, &ch, &core, &ext)?;
                let mut v = vec![];
                for r in &recs {
                    let d = format!("{r:?}");
                    let downstream = d.contains("MATE_IS_DOWNSTREAM");
                    let mut cigar = vec![];
                    for o in r.cigar().iter() {
                        let o = o?;
                        use sam::alignment::record::cigar::op::Kind as K;
                        let c = match o.kind() {
                            K::Match => b'M',
                            K::Insertion => b'I',
                            K::Deletion => b'D',
                            K::Skip => b'N',
                            K::SoftClip => b'S',
                            K::HardClip => b'H',
                            K::Pad => b'P',
                            K::SequenceMatch => b'=',
                            K::SequenceMismatch => b'X',
                        };
                        cigar.push((c, o.len()));
                    }
                    v.push(OutRec {
                        name: r.name().map(|n| n.to_vec()),
                        flags: u16::from(r.flags()?),
                        rid: r.reference_sequence_id(&header).transpose()?,
                        pos: r.alignment_start().transpose()?.map(usize::from),
                        mapq: r.mapping_quality().transpose()?.map(u8::from),
                        cigar,
                        mrid: r.mate_reference_sequence_id(&header).transpose()?,
                        mpos: r.mate_alignment_start().transpose()?.map(usize::from),
                        tlen: r.template_length()?,
                        seq: r.sequence().iter().collect(),
                        qual: r.quality_scores().iter().collect::<std::io::Result<_>>()?,
                        downstream,
                    });
                }
                out.push(v);
            }
        }
        Ok(out)
    });
    match r {
        Ok(Ok(v)) => Ok(v),
        Ok(Err(e)) => Err(format!("{}: {e}", errclass(&e))),
        Err(p) => Err(format!("panic: {p}")),
    }
}

fn matrix_string(m: &[[u8; 4]; 5]) -> String {
    m.iter().flat_map(|row| row.iter().map(|b| *b as char)).collect()
}

/// the input records the oracle judges: everything the SAM specification asks of a record that the CRAM
/// conversion relies on
fn sam_wf(r: &Rec, refs: &[(String, Vec<u8>)]) -> bool {
    if r.name == b"*" {
        return false;
    }
    if !(r.qual.is_empty() || (r.qual.len() == r.seq.len() && !r.qual.iter().all(|q| *q == 0xff))) {
        return false;
    }
    if r.unmapped() {
        r.cigar.is_empty() && r.mapq == 255
    } else {
        let Some(rid) = r.rid else { return false };
        let Some(rf) = refs.get(rid) else { return false };
        r.pos > 0 && r.pos - 1 + r.ref_span() <= rf.1.len() && r.read_len_cigar() == r.seq.len() && r.cigar.iter().all(|(_, n)| *n > 0)
    }
}

fn judge(ctx: &mut Ctx, case: &Case, idx: usize, r: &Rec, x: &OutRec, replay_case: &str) {
    let shown = || r.sam_line(&case.refs).replace('\t', " ");
    let mut bad = |field: &str, want: String, got: String| {
        ctx.fail(&format!("sam-roundtrip-{field}"), format!("record {idx} ({}) {field}: wrote {want:?} read {got:?}", shown()), replay_case.to_string());
    };
    if x.flags != r.flag {
        bad("flags", r.flag.to_string(), x.flags.to_string());
    }
    if x.rid != r.rid {
        bad("rid", opt(r.rid), opt(x.rid));
    }
    let pos = if r.pos > 0 { Some(r.pos) } else { None };
    if x.pos != pos {
        bad("pos", opt(pos), opt(x.pos));
    }
    let mapq = if r.mapq == 255 { None } else { Some(r.mapq) };
    if x.mapq != mapq {
        bad("mapq", format!("{mapq:?}"), format!("{:?}", x.mapq));
    }
    let (wc, gc) = (super::c07::norm_cigar(&r.cigar), super::c07::norm_cigar(&x.cigar));
    if wc != gc {
        bad("cigar", wc, gc);
    }
    if !x.seq.eq_ignore_ascii_case(&r.seq) {
        bad("seq", hex(&r.seq), hex(&x.seq));
    }
    let qual_ok = x.qual == r.qual;
    if !qual_ok {
        bad("qual", hex(&r.qual), hex(&x.qual));
    }
    if case.opts.preserve_names && x.name.as_deref() != Some(&r.name[..]) {
        bad("name", hex(&r.name), x.name.as_ref().map(|n| hex(n)).unwrap_or_else(|| "-".into()));
    }
}

fn sam_case(ctx: &mut Ctx, orig: &Case, replay_case: &str) {
    if orig.refs.iter().any(|r| r.1.len() > 1500) {
        ctx.bump("sam_skip_long_reference");
        return;
    }
    if orig.recs.len() > 40 {
        ctx.bump("sam_skip_many_records");
        return;
    }
    // the model of this request carries no tags
    let mut case = orig.clone();
    for r in &mut case.recs {
        r.tags.clear();
    }
    let case = &case;
    let text = case.sam_text();
    let p = match guarded(|| parse_sam(&text)) {
        Ok(Ok(p)) => p,
        Ok(Err(_)) => {
            ctx.bump("sam_skip_sam_parser_rejected");
            return;
        }
        Err(_) => {
            ctx.bump("sam_skip_sam_parser_panic");
            return;
        }
    };
    let bytes = match write_cram(case, &p) {
        WriteOut::Ok(b) => b,
        WriteOut::Rejected(e) => {
            ctx.bump("sam_writer_rejected");
            if std::env::var("NVH_SHOW").is_ok() {
                eprintln!("{replay_case}: writer rejected: {e}");
            }
            return;
        }
        WriteOut::Panic => {
            ctx.bump("sam_writer_panic");
            return;
        }
    };
    let slices = match read_slices(&bytes, &case.refs) {
        Ok(s) => s,
        Err(e) => {
            ctx.fail("sam-read-error", format!("container-level read of an accepted file (tags stripped, default encoders) failed: {e}"), replay_case.to_string());
            return;
        }
    };
    let n: usize = slices.iter().map(|s| s.len()).sum();
    if n != case.recs.len() {
        ctx.bump("sam_skip_count_mismatch");
        return;
    }
    // slice header fields and the container's matrix, from the walker's own parse, in file order
    let w = walk(&bytes, &expect_of(case));
    let mut info: Vec<(String, i64, Option<String>, i32)> = vec![];
    for c in &w.containers {
        for s in &c.slices {
            let cx = match s.ref_id {
                -1 => "none".to_string(),
                -2 => "many".to_string(),
                id => format!("some:{id}:{}:{}", s.start, s.start as i64 + s.span as i64 - 1),
            };
            info.push((cx, s.counter, c.ch.sm.as_ref().map(matrix_string), s.nrec));
        }
    }
    if info.len() != slices.len() || info.iter().zip(&slices).any(|(a, b)| a.3 as usize != b.len()) {
        ctx.bump("sam_skip_walker_mismatch");
        return;
    }
    ctx.bump("sam_cases");
    ctx.bump(if case.opts.preserve_names { "sam_case_names_preserved" } else { "sam_case_names_dropped" });
    ctx.bump(if case.opts.deltas { "sam_case_ap_deltas" } else { "sam_case_ap_absolute" });
    ctx.bump(if case.opts.lazy { "sam_case_input_lazy" } else { "sam_case_input_record_buf" });
    let refs_hex: Vec<String> = case.refs.iter().map(|r| hex(&r.1)).collect();
    let refs_hex = refs_hex.join(",");
    let mut i = 0usize;
    for (sl, (cx, counter, matrix, _)) in slices.iter().zip(&info) {
        let recs = &case.recs[i..i + sl.len()];
        i += sl.len();
        if sl.is_empty() {
            ctx.bump("sam_skip_empty_slice");
            continue;
        }
        let Some(matrix) = matrix else {
            ctx.bump("sam_skip_no_matrix");
            continue;
        };
        let inp: Vec<String> = recs.iter().map(render_input).collect();
        let out: Vec<String> = sl.iter().map(|x| x.render()).collect();
        ctx.corr(
            format!("c07 sam {} {} {} {} {} {}", case.opts.preserve_names as u8, case.opts.deltas as u8, counter, matrix, refs_hex, inp.join(";")),
            format!("{cx} {}", out.join(";")),
        );
        ctx.bump("sam_slices");
        ctx.bump_by("sam_records", sl.len() as u64);
        ctx.bump(&format!("sam_ctx_{}", cx.split(':').next().unwrap_or("")));
        if sl.iter().any(|x| x.downstream) {
            ctx.bump("sam_slice_with_attached_pair");
        }
        ctx.bump(&format!("sam_slice_records_{}", match sl.len() { 1 => "1", 2..=5 => "2-5", 6..=15 => "6-15", _ => "16+" }));
        for (k, (r, x)) in recs.iter().zip(sl).enumerate() {
            if r.unmapped() {
                ctx.bump(if r.rid.is_some() { "sam_rec_unmapped_placed" } else { "sam_rec_unmapped" });
            } else {
                ctx.bump("sam_rec_mapped");
            }
            let has = |ks: &[u8]| r.cigar.iter().any(|(c, _)| ks.contains(c));
            if has(b"ID") {
                ctx.bump("sam_rec_indel");
            }
            if has(b"S") {
                ctx.bump("sam_rec_softclip");
            }
            if has(b"H") {
                ctx.bump("sam_rec_hardclip");
            }
            if has(b"N") {
                ctx.bump("sam_rec_skip");
            }
            if has(b"P") {
                ctx.bump("sam_rec_pad");
            }
            if has(b"=X") {
                ctx.bump("sam_rec_eq_or_x");
            }
            if r.seq.is_empty() {
                ctx.bump("sam_rec_seq_missing");
            }
            if r.qual.is_empty() {
                ctx.bump("sam_rec_qual_missing");
            }
            if r.name == b"*" {
                ctx.bump("sam_rec_name_missing");
            }
            if r.flag & 1 != 0 {
                ctx.bump("sam_rec_paired");
            }
            if sam_wf(r, &case.refs) {
                ctx.bump("sam_rec_judged");
                let key = format!("{} {} {}", render_input(r), case.opts.preserve_names, case.opts.deltas);
                ctx.eval(Some(fnv(key.as_bytes())));
                judge(ctx, case, i - sl.len() + k, r, x, replay_case);
            } else {
                ctx.bump("sam_rec_not_wf");
                ctx.eval(None);
            }
        }
    }
}

/// hand-written boundary slices, replayed first: the example beside the Lean theorem in both name modes;
/// a chain of THREE mapped primary segments of one name (set_mates links 0 -> 1 -> 2: the chain walks of
/// resolve_mates beyond pairs); a pair without names; nameless records one per slice (generated names from
/// a record counter > 0); a mapped record without bases / CIGAR; a placed unmapped read; all nine CIGAR
/// operations; a read that ends at the last reference base; a read whose mate is in another slice
fn hand_corpus() -> Vec<Case> {
    let refs: Vec<(String, Vec<u8>)> = vec![("r0".to_string(), b"ACGTACGTACGTACGT".to_vec()), ("r1".to_string(), b"GGGATTTCCCAAANNACGTacgt".to_vec())];
    let mut header = String::from("@HD\tVN:1.6\tSO:unsorted\n");
    for (n, s) in &refs {
        header.push_str(&format!("@SQ\tSN:{n}\tLN:{}\n", s.len()));
    }
    let mk = |lines: &[&str], preserve_names: bool, deltas: bool, rps: usize, lazy: bool| -> Case {
        let recs: Vec<Rec> = lines.iter().map(|l| cases::rec_of_line(l, &refs)).collect();
        Case { refs: refs.clone(), header_text: header.clone(), recs, opts: cases::Opts { preserve_names, deltas, rps, spc: if rps == 0 { 0 } else { 1 }, plan: None, lazy }, label: "samhand".into() }
    };
    let example = ["a 99 r0 2 30 4M = 9 10 CGTA ?@AB", "b 4 * 0 255 * * 0 0 AC *", "c 0 r0 3 20 1S1=1X1I1M2D1M * 0 0 TGCNaT *", "a 147 r0 9 30 3M = 2 -10 ACG 555"];
    let chain = ["t 65 r0 1 30 4M = 5 12 ACGT IIII", "x 0 r1 2 11 3M * 0 0 GGA *", "t 193 r0 5 30 4M = 9 0 ACGT IIII", "t 129 r0 9 30 4M = 1 -12 ACGT IIII"];
    let nameless_pair = ["* 99 r0 1 30 4M = 9 12 ACGT IIII", "* 147 r0 9 30 4M = 1 -12 ACGT IIII", "* 4 * 0 255 * * 0 0 ACGT *"];
    let nameless = ["* 4 * 0 255 * * 0 0 A *", "* 0 r0 3 9 2M * 0 0 GT II", "* 4 * 0 255 * * 0 0 * *", "q 0 r1 1 9 3M * 0 0 GGG *"];
    let shapes = [
        "s0 0 r0 5 60 * * 0 0 * *",
        "s1 4 r0 7 255 * * 0 0 ACGTN IIIII",
        "s2 0 r0 2 9 1H1S2M1I1M1D1M2N1P1=1X1S2H * 0 0 TCGAAGCGT ABCDEFGHI",
        "s3 16 r0 13 3 4M * 0 0 ACGT *",
        "s4 16 r1 14 3 2S10M * 0 0 TTNACGTACGTA *",
        "s5 73 r0 1 30 4M = 1 0 ACGT IIII",
        "s6 97 r0 1 30 4M r1 3 0 ACGA IIII",
        "s7 2113 r1 5 30 2H3M * 0 0 TTT III",
    ];
    let mut v = vec![];
    for pn in [true, false] {
        v.push(mk(&example, pn, true, 0, false));
        v.push(mk(&chain, pn, false, 0, false));
        v.push(mk(&nameless_pair, pn, true, 0, true));
        v.push(mk(&nameless, pn, true, 1, false));
        v.push(mk(&shapes, pn, false, 0, false));
        v.push(mk(&shapes, pn, true, 3, true));
    }
    v
}

pub fn replay(ctx: &mut Ctx, case: &[String]) -> bool {
    let num = |k: usize| -> u64 { case.get(k).and_then(|s| s.parse().ok()).unwrap_or(0) };
    match case.first().map(|s| s.as_str()) {
        Some("sam") => {
            let sub = num(1);
            let c = cases::gen_case(sub, ctx.tier_thorough);
            if std::env::var("NVH_SHOW").is_ok() {
                eprintln!("{}\n{:?}", c.sam_text(), c.opts);
            }
            sam_case(ctx, &c, &format!("sam {sub}"));
            true
        }
        Some("samhand") => {
            let k = num(1) as usize;
            if let Some(c) = hand_corpus().get(k) {
                sam_case(ctx, c, &format!("samhand {k}"));
            }
            true
        }
        Some("samcorpus") => {
            let k = num(1) as usize;
            if let Some(c) = cases::corpus().get(k) {
                sam_case(ctx, c, &format!("samcorpus {k}"));
            }
            true
        }
        _ => false,
    }
}

pub fn run(ctx: &mut Ctx) {
    let t0 = std::time::Instant::now();
    for (k, c) in hand_corpus().iter().enumerate() {
        sam_case(ctx, c, &format!("samhand {k}"));
    }
    for (k, c) in cases::corpus().iter().enumerate() {
        sam_case(ctx, c, &format!("samcorpus {k}"));
    }
    let n = ctx.n(500, 4000);
    for it in 0..n {
        let sub = ctx.seed.wrapping_mul(1_000_003).wrapping_add(7_000_000 + it);
        let c = cases::gen_case(sub, ctx.tier_thorough);
        sam_case(ctx, &c, &format!("sam {sub}"));
    }
    if std::env::var("NVH_TIME").is_ok() {
        eprintln!("c07_sam::run: {:.2} s", t0.elapsed().as_secs_f64());
    }
    ctx.sample(|| "c07 sam <pn> <delta> <counter> <matrix> <refs hex,…> <name,flags,ref,pos,mapq,CIGAR,mref,mpos,tlen,bases,quals;…> (harness/src/props/c07_sam.rs)".into());
}
