//! The harness's own CRAM 3.x layout walker: file definition, container headers, blocks.
//! Used to (a) recompute the container-header and block CRC32s after a mutation, so that the
//! corruption reaches the decoders behind the checksum, and (b) locate the length/count fields
//! for structured mutations. Independent of noodles' reader.
use crate::common::crc32;

pub fn read_itf8(b: &[u8], p: &mut usize) -> Option<i32> {
    let b0 = *b.get(*p)? as u32;
    let (n, v) = if b0 < 0x80 {
        (0, b0)
    } else if b0 < 0xc0 {
        (1, b0 & 0x3f)
    } else if b0 < 0xe0 {
        (2, b0 & 0x1f)
    } else if b0 < 0xf0 {
        (3, b0 & 0x0f)
    } else {
        (4, b0 & 0x0f)
    };
    let mut v = v;
    for i in 1..=n {
        let x = *b.get(*p + i)? as u32;
        if i == 4 {
            v = (v << 4) | (x & 0x0f);
        } else {
            v = (v << 8) | x;
        }
    }
    *p += n + 1;
    Some(v as i32)
}

pub fn write_itf8(v: i32) -> Vec<u8> {
    let n = v as u32;
    if n >> 7 == 0 {
        vec![n as u8]
    } else if n >> 14 == 0 {
        vec![(n >> 8) as u8 | 0x80, n as u8]
    } else if n >> 21 == 0 {
        vec![(n >> 16) as u8 | 0xc0, (n >> 8) as u8, n as u8]
    } else if n >> 28 == 0 {
        vec![(n >> 24) as u8 | 0xe0, (n >> 16) as u8, (n >> 8) as u8, n as u8]
    } else {
        vec![(n >> 28) as u8 | 0xf0, (n >> 20) as u8, (n >> 12) as u8, (n >> 4) as u8, (n & 0x0f) as u8]
    }
}

pub fn read_ltf8(b: &[u8], p: &mut usize) -> Option<i64> {
    let b0 = *b.get(*p)?;
    let n = b0.leading_ones() as usize; // number of following bytes (0..=8)
    let mut v: u64 = if n >= 8 { 0 } else { (b0 as u64) & (0xffu64 >> (n + 1)) };
    for i in 1..=n {
        v = (v << 8) | *b.get(*p + i)? as u64;
    }
    *p += n + 1;
    Some(v as i64)
}

#[derive(Clone, Debug)]
pub struct Field {
    pub off: usize,
    pub len: usize,
    /// 'i' = little-endian int of `len` bytes, 't' = ITF8, 'l' = LTF8, 'b' = single byte enum
    pub kind: char,
    pub what: &'static str,
}

#[derive(Clone, Debug)]
pub struct Block {
    pub start: usize,
    pub data_start: usize,
    pub data_len: usize,
    pub crc_off: usize,
    pub method: u8,
    pub content_type: u8,
}

#[derive(Clone, Debug)]
pub struct Container {
    pub start: usize,
    pub crc_off: usize,
    pub body_start: usize,
    pub body_len: usize,
    pub blocks: Vec<Block>,
}

#[derive(Clone, Debug, Default)]
pub struct Layout {
    pub containers: Vec<Container>,
    pub fields: Vec<Field>,
}

pub const FILE_DEFINITION_LEN: usize = 26;

pub fn walk(b: &[u8]) -> Option<Layout> {
    if b.len() < FILE_DEFINITION_LEN || &b[..4] != b"CRAM" {
        return None;
    }
    let mut lay = Layout::default();
    lay.fields.push(Field { off: 4, len: 1, kind: 'b', what: "major" });
    lay.fields.push(Field { off: 5, len: 1, kind: 'b', what: "minor" });
    let mut p = FILE_DEFINITION_LEN;
    while p < b.len() {
        let start = p;
        if p + 4 > b.len() {
            return None;
        }
        let len = i32::from_le_bytes(b[p..p + 4].try_into().unwrap());
        lay.fields.push(Field { off: p, len: 4, kind: 'i', what: "container.length" });
        p += 4;
        macro_rules! itf {
            ($what:literal) => {{
                let o = p;
                let v = read_itf8(b, &mut p)?;
                lay.fields.push(Field { off: o, len: p - o, kind: 't', what: $what });
                v
            }};
        }
        macro_rules! ltf {
            ($what:literal) => {{
                let o = p;
                let v = read_ltf8(b, &mut p)?;
                lay.fields.push(Field { off: o, len: p - o, kind: 'l', what: $what });
                v
            }};
        }
        itf!("container.ref_id");
        itf!("container.start");
        itf!("container.span");
        itf!("container.n_records");
        ltf!("container.record_counter");
        ltf!("container.bases");
        let n_blocks = itf!("container.n_blocks");
        let n_landmarks = itf!("container.n_landmarks");
        for _ in 0..n_landmarks.max(0) {
            itf!("container.landmark");
        }
        let crc_off = p;
        p += 4;
        if len < 0 || p + len as usize > b.len() {
            return None;
        }
        let body_start = p;
        let body_end = p + len as usize;
        let mut blocks = vec![];
        let mut k = 0;
        while p < body_end && k < n_blocks.max(0) as usize + 64 {
            let bs = p;
            if p + 2 > body_end {
                return None;
            }
            let method = b[p];
            let content_type = b[p + 1];
            lay.fields.push(Field { off: p, len: 1, kind: 'b', what: "block.method" });
            lay.fields.push(Field { off: p + 1, len: 1, kind: 'b', what: "block.content_type" });
            p += 2;
            itf!("block.content_id");
            let csize = itf!("block.size");
            itf!("block.raw_size");
            if csize < 0 || p + csize as usize + 4 > body_end {
                return None;
            }
            let data_start = p;
            p += csize as usize;
            blocks.push(Block { start: bs, data_start, data_len: csize as usize, crc_off: p, method, content_type });
            p += 4;
            k += 1;
        }
        if p != body_end {
            return None;
        }
        lay.containers.push(Container { start, crc_off, body_start, body_len: len as usize, blocks });
    }
    Some(lay)
}

/// recompute every CRC32 the layout names (offsets beyond the buffer are skipped)
pub fn reseal_with(b: &mut [u8], lay: &Layout) {
    for c in &lay.containers {
        for blk in &c.blocks {
            if blk.crc_off + 4 <= b.len() && blk.start <= blk.crc_off {
                let crc = crc32(&b[blk.start..blk.crc_off]);
                b[blk.crc_off..blk.crc_off + 4].copy_from_slice(&crc.to_le_bytes());
            }
        }
        if c.crc_off + 4 <= b.len() && c.start <= c.crc_off {
            let crc = crc32(&b[c.start..c.crc_off]);
            b[c.crc_off..c.crc_off + 4].copy_from_slice(&crc.to_le_bytes());
        }
    }
}

/// re-seal a mutated CRAM: by the mutated file's own layout when it still walks, otherwise by the
/// seed's layout (the checksums of the structures that did not move are then still repaired)
pub fn reseal(b: &mut [u8], seed_layout: &Layout) {
    match walk(b) {
        Some(l) => reseal_with(b, &l),
        None => reseal_with(b, seed_layout),
    }
}

#[cfg(test)]
mod tests {
    use super::*;
    #[test]
    fn itf8_roundtrip() {
        for v in [0, 1, 127, 128, 16383, 16384, 1 << 21, 1 << 28, i32::MAX, -1, i32::MIN] {
            let e = write_itf8(v);
            let mut p = 0;
            assert_eq!(read_itf8(&e, &mut p), Some(v));
            assert_eq!(p, e.len());
        }
    }
}
