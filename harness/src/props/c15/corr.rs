//! Correspondence suites for C15: the decoders transcribed in `lean/Noodles/Hostile/*.lean` are
//! run on structured hostile inputs through the public API (and the `noodles_cram::verif` hook for
//! the integer readers) and compared with the Lean model by class and by the bytes of every
//! field the accessors return. A panic of the real code is the answer `panic`.
//!
//! The models of `bcfsite` and `query` describe the code AFTER the fixes written for this property
//! (`bcf-record-bounds.diff`, `csi-index-geometry.diff`); on a tree without them the real code
//! answers `panic` where the model answers `err:…`, and the correspondence says so.
use super::seeds;
use crate::common::*;
use crate::props::c01::{make_member, raw_inflate, stored_member, EOF};
use noodles_bam as bam;
use noodles_bcf as bcf;
use noodles_bgzf as bgzf;
use noodles_core::Position;
use noodles_cram::verif as cv;
use std::io::{BufRead, Read};

thread_local! {
    /// replay: only the request with this hash is evaluated
    static ONLY: std::cell::Cell<Option<u64>> = const { std::cell::Cell::new(None) };
}

fn emit(ctx: &mut Ctx, req: String, f: impl FnOnce() -> String) {
    let h = fnv(req.as_bytes());
    if let Some(only) = ONLY.with(|o| o.get()) {
        if only != h {
            return;
        }
    }
    let suite = req.split(' ').nth(1).unwrap_or("?").to_string();
    let ans = match guarded(f) {
        Ok(a) => a,
        Err(p) => {
            // a panic of a modelled decoder is itself the property's failure, with this input
            ctx.eval(Some(h));
            let shown = if req.len() > 600 { format!("{}…", &req[..600]) } else { req.clone() };
            ctx.fail(&format!("panic:corr:{suite}"), format!("PANIC {p} — request `{shown}`"), format!("corr {suite} {h}"));
            "panic".to_string()
        }
    };
    let key = format!("corr:{suite}:{}", ans.split([':', ' ']).take(if ans.starts_with("err") { 2 } else { 1 }).collect::<Vec<_>>().join(":"));
    ctx.bump(&key);
    ctx.corr(req, ans);
}

fn io_class(e: &std::io::Error) -> String {
    errclass(e).to_string()
}

// ---------------------------------------------------------------- ITF8 / LTF8 / uint7

fn num_case(ctx: &mut Ctx, which: &str, bytes: &[u8]) {
    let b = bytes.to_vec();
    let w = which.to_string();
    emit(ctx, format!("c15 {which} {}", hex(bytes)), move || {
        let mut s = &b[..];
        match w.as_str() {
            "itf8" => cv::read_itf8(&mut s).map(|v| format!("ok:{v}:{}", b.len() - s.len())),
            "ltf8" => cv::read_ltf8(&mut s).map(|v| format!("ok:{v}:{}", b.len() - s.len())),
            _ => cv::read_uint7(&mut s).map(|v| format!("ok:{v}:{}", b.len() - s.len())),
        }
        .unwrap_or_else(|e| io_class(&e))
    });
}

fn num_suite(ctx: &mut Ctx) {
    // corpus: the boundary encodings
    for (w, b) in [
        ("itf8", vec![]),
        ("itf8", vec![0x00]),
        ("itf8", vec![0x7f]),
        ("itf8", vec![0x80]),
        ("itf8", vec![0x87, 0x55]),
        ("itf8", vec![0xbf, 0xff]),
        ("itf8", vec![0xc7, 0x55, 0x99]),
        ("itf8", vec![0xe7, 0x55, 0x99, 0x66]),
        ("itf8", vec![0xf7, 0x55, 0x99, 0x66, 0x02]),
        ("itf8", vec![0xf7, 0x55, 0x99, 0x66, 0x82]),
        ("itf8", vec![0xff, 0xff, 0xff, 0xff, 0x0f]),
        ("itf8", vec![0xff, 0xff, 0xff, 0xff, 0xff]),
        ("itf8", vec![0xf8, 0x00, 0x00, 0x00, 0x00]),
        ("itf8", vec![0xff, 0xff, 0xff, 0xff]),
        ("ltf8", vec![]),
        ("ltf8", vec![0x7f]),
        ("ltf8", vec![0xff, 0xff, 0xff, 0xff, 0xff, 0xff, 0xff, 0xff, 0xff]),
        ("ltf8", vec![0xff, 0x80, 0, 0, 0, 0, 0, 0, 0]),
        ("ltf8", vec![0xfe, 0xff, 0xff, 0xff, 0xff, 0xff, 0xff, 0xff]),
        ("ltf8", vec![0xfe, 0xff, 0xff, 0xff, 0xff, 0xff, 0xff]),
        ("ltf8", vec![0xfc, 1, 2, 3, 4, 5, 6]),
        ("ltf8", vec![0xf8, 1, 2, 3, 4, 5]),
        ("ltf8", vec![0xf0, 1, 2, 3, 4]),
        ("uint7", vec![]),
        ("uint7", vec![0x00]),
        ("uint7", vec![0x80]),
        ("uint7", vec![0xff, 0xff, 0xff, 0xff, 0x7f]),
        ("uint7", vec![0xff, 0xff, 0xff, 0xff, 0xff]),
        ("uint7", vec![0xff, 0xff, 0xff, 0xff, 0xff, 0x7f]),
        ("uint7", vec![0x81, 0x80, 0x80, 0x80, 0x00]),
        ("uint7", vec![0x90, 0x80, 0x80, 0x80, 0x00]),
    ] {
        num_case(ctx, w, &b);
    }
    // every lead byte × every tail length 0..=9
    let reps = ctx.n(1, 8);
    for which in ["itf8", "ltf8", "uint7"] {
        for lead in 0..=255u8 {
            for tail in 0..=9usize {
                for _ in 0..reps {
                    let mut b = vec![lead];
                    for _ in 0..tail {
                        let x = match ctx.rng.below(4) {
                            0 => 0xff,
                            1 => 0x80 | ctx.rng.next() as u8,
                            _ => ctx.rng.next() as u8,
                        };
                        b.push(x);
                    }
                    num_case(ctx, which, &b);
                }
            }
        }
    }
}

// ---------------------------------------------------------------- BGZF frames

fn frame_table(stream: &[u8]) -> String {
    // walk the stream the way the reader frames it (BSIZE-driven), tolerate garbage
    let mut v = vec![];
    let mut s = stream;
    while s.len() >= 18 {
        let total = u16::from_le_bytes([s[16], s[17]]) as usize + 1;
        if total < 26 || total > s.len() {
            break;
        }
        let m = &s[..total];
        let cdata = &m[18..total - 8];
        let isize = u32::from_le_bytes(m[total - 4..].try_into().unwrap()) as usize;
        if isize <= 65536 {
            let d = raw_inflate(cdata, isize);
            v.push(format!("{}:{}:{}:{}", crc32(cdata), cdata.len(), isize, d.map(|d| hex(&d)).unwrap_or("!".into())));
        }
        s = &s[total..];
    }
    if v.is_empty() {
        "-".into()
    } else {
        v.join(",")
    }
}

fn frame_case(ctx: &mut Ctx, stream: &[u8]) {
    let s = stream.to_vec();
    emit(ctx, format!("c15 frame {} {}", hex(stream), frame_table(stream)), move || {
        let mut out = vec![];
        match bgzf::io::Reader::new(&s[..]).read_to_end(&mut out) {
            Ok(_) => format!("ok:{}:{}", out.len(), crc32(&out)),
            Err(e) => io_class(&e),
        }
    });
}

fn frame_suite(ctx: &mut Ctx) {
    let m1 = stored_member(b"hostile");
    let m2 = stored_member(b"");
    let m3 = {
        let mut c = flate2::Compress::new(flate2::Compression::new(6), false);
        let d = b"aaaaaaaaaaaaaaaaaaaaaaaabbbbbbbbbbbbbbbbbbbb";
        let mut cd = Vec::with_capacity(256);
        c.compress_vec(d, &mut cd, flate2::FlushCompress::Finish).unwrap();
        make_member(&cd, crc32(d), d.len() as u32)
    };
    let base: Vec<u8> = [m1.clone(), m2, m3.clone(), EOF.to_vec()].concat();
    frame_case(ctx, &[]);
    frame_case(ctx, &base);
    frame_case(ctx, &EOF);
    // truncation at every offset
    for k in 0..base.len() {
        frame_case(ctx, &base[..k]);
    }
    // every byte of the first member (header, stored deflate block, trailer): the substitutions
    for pos in 0..m1.len() {
        for k in 0..super::mutate::SUBS {
            let v = super::mutate::sub_value(base[pos], k);
            if v != base[pos] {
                let mut s = base.clone();
                s[pos] = v;
                frame_case(ctx, &s);
            }
        }
    }
    // BSIZE and ISIZE of the first and of the compressed member
    let off3 = base.len() - EOF.len() - m3.len();
    for (moff, mlen) in [(0usize, m1.len()), (off3, m3.len())] {
        for bsize in [0u16, 1, 17, 24, 25, 26, 27, (mlen - 2) as u16, (mlen - 1) as u16, mlen as u16, (mlen + 1) as u16, 0x7fff, 0xfffe, 0xffff] {
            let mut s = base.clone();
            s[moff + 16..moff + 18].copy_from_slice(&bsize.to_le_bytes());
            frame_case(ctx, &s);
        }
        let isz = u32::from_le_bytes(base[moff + mlen - 4..moff + mlen].try_into().unwrap());
        for isize in [0u32, 1, isz.wrapping_sub(1), isz + 1, 65535, 65536, 65537, 0x7fff_ffff, 0x8000_0000, 0xffff_ffff] {
            let mut s = base.clone();
            s[moff + mlen - 4..moff + mlen].copy_from_slice(&isize.to_le_bytes());
            frame_case(ctx, &s);
        }
    }
    // random multi-byte damage
    let n = ctx.n(300, 6000);
    for _ in 0..n {
        let mut s = base.clone();
        for _ in 0..1 + ctx.rng.below(3) {
            let p = ctx.rng.below(s.len() as u64) as usize;
            s[p] = ctx.rng.next() as u8;
        }
        if ctx.rng.chance(1, 3) {
            let k = ctx.rng.below(s.len() as u64 + 1) as usize;
            s.truncate(k);
        }
        frame_case(ctx, &s);
    }
}

// ---------------------------------------------------------------- Data::as_ref after any history

fn asref_suite(ctx: &mut Ctx) {
    use bgzf::io::Seek as _;
    let n = ctx.n(400, 8000);
    for it in 0..n + 3 {
        // small layouts: stored members of 0..40 bytes, empty members in the middle, optional EOF
        let nblk = if it < 3 { it as usize } else { ctx.rng.below(5) as usize };
        let mut file = vec![];
        let mut layout: Vec<(usize, Vec<u8>)> = vec![];
        for _ in 0..nblk {
            let len = if ctx.rng.chance(1, 4) { 0 } else { 1 + ctx.rng.below(40) as usize };
            let d = ctx.rng.bytes(len);
            let m = stored_member(&d);
            layout.push((m.len(), d));
            file.extend_from_slice(&m);
        }
        if ctx.rng.chance(2, 3) {
            layout.push((EOF.len(), vec![]));
            file.extend_from_slice(&EOF);
        }
        let mut offs = vec![0u64];
        for (c, _) in &layout {
            offs.push(offs.last().unwrap() + *c as u64);
        }
        let nops = 1 + ctx.rng.below(10) as usize;
        let mut ops: Vec<String> = vec![];
        for _ in 0..nops {
            let op = match ctx.rng.below(8) {
                0 => format!("r{}", *ctx.rng.pick(&[0usize, 1, 5, 40, 100, 65536, 70000])),
                1 => format!("x{}", *ctx.rng.pick(&[0usize, 1, 5, 41, 200])),
                2 => "b".to_string(),
                3 => format!("c{}", *ctx.rng.pick(&[0usize, 1, 7, 40, 41, 1000, 65536])),
                4 => "t".to_string(),
                _ => {
                    // a hostile seek: any member boundary (incl. end of file), any in-block offset
                    let c = *ctx.rng.pick(&offs);
                    let u = *ctx.rng.pick(&[0u16, 1, 2, 7, 39, 40, 41, 42, 100, 1000, 65535]);
                    format!("s{c}/{u}")
                }
            };
            ops.push(op);
        }
        let lay = if layout.is_empty() { "-".to_string() } else { layout.iter().map(|(c, d)| format!("{c}:{}", hex(d))).collect::<Vec<_>>().join(",") };
        let (f, o) = (file.clone(), ops.clone());
        emit(ctx, format!("c15 asref {lay} {}", ops.join(",")), move || {
            let mut rd = bgzf::io::Reader::new(std::io::Cursor::new(f));
            for op in &o {
                let (k, arg) = op.split_at(1);
                match k {
                    "r" => {
                        let mut b = vec![0u8; arg.parse().unwrap()];
                        let _ = rd.read(&mut b);
                    }
                    "x" => {
                        let mut b = vec![0u8; arg.parse().unwrap()];
                        let _ = rd.read_exact(&mut b);
                    }
                    "b" => {
                        let _ = rd.fill_buf().map(|b| b.len());
                    }
                    "c" => rd.consume(arg.parse().unwrap()),
                    "t" => {
                        let _ = rd.virtual_position();
                    }
                    _ => {
                        let (c, u) = arg.split_once('/').unwrap();
                        if let Ok(vp) = bgzf::VirtualPosition::try_from((c.parse::<u64>().unwrap(), u.parse::<u16>().unwrap())) {
                            let _ = rd.seek_to_virtual_position(vp);
                        }
                    }
                }
                // `Data::as_ref` at this state
                let _ = rd.virtual_position();
            }
            // the state's buffer is sliced by the next buffered read
            let mut one = [0u8; 1];
            let _ = rd.read(&mut one);
            let _ = rd.fill_buf().map(|b| b.len());
            "ok".to_string()
        });
    }
}

// ---------------------------------------------------------------- BAM record

fn bam_case(ctx: &mut Ctx, body: &[u8]) {
    if body.is_empty() {
        return; // block_size 0 is the end-of-stream answer of `read_record`, not a record
    }
    let b = body.to_vec();
    emit(ctx, format!("c15 bamrec {}", hex(body)), move || {
        let mut stream = (b.len() as u32).to_le_bytes().to_vec();
        stream.extend_from_slice(&b);
        let mut rd = bam::io::Reader::from(&stream[..]);
        let mut rec = bam::Record::default();
        match rd.read_record(&mut rec) {
            Err(e) => io_class(&e),
            Ok(_) => {
                let name = match rec.name() {
                    None => "none".to_string(),
                    Some(n) => hex(n),
                };
                // the `kS mN` placeholder sends `cigar()` to the CG tag: reported as `cg`
                let n_cigar = u16::from_le_bytes([b[12], b[13]]);
                let l_seq = u32::from_le_bytes([b[16], b[17], b[18], b[19]]);
                let nl = b[8] as usize;
                let cg = n_cigar == 2 && {
                    let o1 = u32::from_le_bytes(b[32 + nl..36 + nl].try_into().unwrap());
                    let o2 = u32::from_le_bytes(b[36 + nl..40 + nl].try_into().unwrap());
                    o1 & 0xf == 4 && o1 >> 4 == l_seq && o2 & 0xf == 3
                };
                let cigar = if cg {
                    let _ = rec.cigar().len();
                    "cg".to_string()
                } else {
                    hex(rec.cigar().as_bytes())
                };
                format!("ok name={name} cigar={cigar} seq={} qual={} data={}", hex(rec.sequence().as_bytes()), hex(rec.quality_scores().as_bytes()), hex(rec.data().as_bytes()))
            }
        }
    });
}

fn bam_records(payload: &[u8]) -> Vec<Vec<u8>> {
    // the harness's own walk of the seed payload
    let l_text = u32::from_le_bytes(payload[4..8].try_into().unwrap()) as usize;
    let mut p = 8 + l_text;
    let n_ref = u32::from_le_bytes(payload[p..p + 4].try_into().unwrap());
    p += 4;
    for _ in 0..n_ref {
        let l = u32::from_le_bytes(payload[p..p + 4].try_into().unwrap()) as usize;
        p += 4 + l + 4;
    }
    let mut out = vec![];
    while p + 4 <= payload.len() {
        let n = u32::from_le_bytes(payload[p..p + 4].try_into().unwrap()) as usize;
        out.push(payload[p + 4..p + 4 + n].to_vec());
        p += 4 + n;
    }
    out
}

fn bam_suite(ctx: &mut Ctx) {
    let (_, payload) = seeds::bam();
    let recs = bam_records(&payload);
    // corpus: the default record, 31/32/33 bytes, a 32-byte head claiming a 255-byte name
    let default: Vec<u8> = vec![0xff, 0xff, 0xff, 0xff, 0xff, 0xff, 0xff, 0xff, 2, 0xff, 0x48, 0x12, 0, 0, 4, 0, 0, 0, 0, 0, 0xff, 0xff, 0xff, 0xff, 0xff, 0xff, 0xff, 0xff, 0, 0, 0, 0, b'*', 0];
    bam_case(ctx, &default);
    bam_case(ctx, &default[..31]);
    bam_case(ctx, &default[..32]);
    bam_case(ctx, &default[..33]);
    let mut h = default[..32].to_vec();
    h[8] = 255;
    bam_case(ctx, &h);
    for r in &recs {
        bam_case(ctx, r);
        // truncation at every length
        for k in 1..r.len() {
            bam_case(ctx, &r[..k]);
        }
        // the three length fields at and around the values that make the record end exactly at the buffer end
        let nl = r[8] as usize;
        let nc = u16::from_le_bytes([r[12], r[13]]) as usize;
        let ls = u32::from_le_bytes([r[16], r[17], r[18], r[19]]) as usize;
        let used = 32 + nl + 4 * nc + ls.div_ceil(2) + ls;
        let slack = r.len() - used; // bytes of aux data
        for d in [-2i64, -1, 0, 1, 2, slack as i64 - 1, slack as i64, slack as i64 + 1] {
            let v = nl as i64 + d;
            if (0..=255).contains(&v) {
                let mut m = r.clone();
                m[8] = v as u8;
                bam_case(ctx, &m);
            }
            let v = nc as i64 + d.div_euclid(4);
            if (0..=65535).contains(&v) {
                let mut m = r.clone();
                m[12..14].copy_from_slice(&(v as u16).to_le_bytes());
                bam_case(ctx, &m);
            }
        }
        for v in [0u32, 1, 2, ls as u32 + 1, (ls + slack) as u32, (ls + slack * 2 / 3) as u32, (ls + slack * 2 / 3 + 1) as u32, 0xffff, 0x7fff_ffff, 0xffff_ffff] {
            let mut m = r.clone();
            m[16..20].copy_from_slice(&v.to_le_bytes());
            bam_case(ctx, &m);
        }
        for v in [0u8, 1, 2, 254, 255] {
            let mut m = r.clone();
            m[8] = v;
            bam_case(ctx, &m);
        }
        for v in [0u16, 1, 2, 3, 0x7fff, 0xffff] {
            let mut m = r.clone();
            m[12..14].copy_from_slice(&v.to_le_bytes());
            bam_case(ctx, &m);
        }
        // substitutions in the fixed 32 bytes and the variable part
        for pos in 0..r.len() {
            for k in 0..super::mutate::SUBS {
                let v = super::mutate::sub_value(r[pos], k);
                if v != r[pos] && (pos < 32 || k < 2) {
                    let mut m = r.clone();
                    m[pos] = v;
                    bam_case(ctx, &m);
                }
            }
        }
    }
    let n = ctx.n(300, 10000);
    for _ in 0..n {
        let mut m = ctx.rng.pick(&recs).clone();
        for _ in 0..1 + ctx.rng.below(3) {
            let p = if ctx.rng.chance(1, 2) { *ctx.rng.pick(&[8usize, 12, 13, 16, 17, 18, 19]) } else { ctx.rng.below(m.len() as u64) as usize };
            m[p] = ctx.rng.next() as u8;
        }
        if ctx.rng.chance(1, 4) {
            let k = 1 + ctx.rng.below(m.len() as u64) as usize;
            m.truncate(k);
        }
        bam_case(ctx, &m);
    }
}

// ---------------------------------------------------------------- BCF site block

fn bcf_case(ctx: &mut Ctx, site: &[u8]) {
    if site.is_empty() {
        return; // l_shared 0 is the end-of-stream answer of `read_record`
    }
    let s = site.to_vec();
    emit(ctx, format!("c15 bcfsite {}", hex(site)), move || {
        let mut stream = (s.len() as u32).to_le_bytes().to_vec();
        stream.extend_from_slice(&0u32.to_le_bytes());
        stream.extend_from_slice(&s);
        let mut rd = bcf::io::Reader::from(&stream[..]);
        let mut rec = bcf::Record::default();
        match rd.read_record(&mut rec) {
            Err(e) => io_class(&e),
            Ok(_) => format!(
                "ok ids={} ref={} alt={} flt={}",
                hex(AsRef::<[u8]>::as_ref(&rec.ids())),
                hex(AsRef::<[u8]>::as_ref(&rec.reference_bases())),
                hex(AsRef::<[u8]>::as_ref(&rec.alternate_bases())),
                hex(AsRef::<[u8]>::as_ref(&rec.filters()))
            ),
        }
    });
}

fn bcf_sites(payload: &[u8]) -> Vec<Vec<u8>> {
    let l_text = u32::from_le_bytes(payload[5..9].try_into().unwrap()) as usize;
    let mut p = 9 + l_text;
    let mut out = vec![];
    while p + 8 <= payload.len() {
        let ls = u32::from_le_bytes(payload[p..p + 4].try_into().unwrap()) as usize;
        let li = u32::from_le_bytes(payload[p + 4..p + 8].try_into().unwrap()) as usize;
        out.push(payload[p + 8..p + 8 + ls].to_vec());
        p += 8 + ls + li;
    }
    out
}

fn bcf_suite(ctx: &mut Ctx) {
    let (_, payload) = seeds::bcf();
    let sites = bcf_sites(&payload);
    let head = |n_allele: u16| -> Vec<u8> {
        let mut h = vec![0u8; 24];
        h[18..20].copy_from_slice(&n_allele.to_le_bytes());
        h
    };
    let with = |n_allele: u16, tail: &[u8]| -> Vec<u8> {
        let mut h = head(n_allele);
        h.extend_from_slice(tail);
        h
    };
    // corpus: every shape of the typed descriptors
    let corpus: Vec<Vec<u8>> = vec![
        with(1, &[0x07, 0x17, b'A', 0x00]),                         // `.` id, REF A, PASS-less
        with(1, &[0x07, 0x17, b'A']),                               // filters missing: eof
        with(1, &[0x77, b'A']),                                     // string longer than the block (was a panic)
        with(0, &[0x07, 0x17, b'A', 0x00]),                         // allele count 0 (was a panic)
        with(2, &[0x07, 0x17, b'A', 0x17, b'C', 0x11, 0x00]),       // one ALT, one filter
        with(2, &[0x07, 0x17, b'A', 0x11, 0x00]),                   // ALT is not a string
        with(3, &[0x37, b'r', b's', b'1', 0x17, b'A', 0x17, b'C', 0x27, b'G', b'T', 0x21, 0x00, 0x01]),
        with(1, &[0x17, 0xff, 0x17, b'A', 0x00]),                   // id is not UTF-8
        with(1, &[0x27, 0xc3, 0xa9, 0x17, b'A', 0x00]),             // id is UTF-8 (é)
        with(1, &[0x27, 0xc3, 0x28, 0x17, b'A', 0x00]),             // bad continuation
        with(1, &[0x37, 0xed, 0xa0, 0x80, 0x17, b'A', 0x00]),       // surrogate
        with(1, &[0x47, 0xf4, 0x90, 0x80, 0x80, 0x17, b'A', 0x00]), // above U+10FFFF
        with(1, &[0xf7, 0x11, 0x10, b'a', b'b', b'c', b'd', b'e', b'f', b'g', b'h', b'i', b'j', b'k', b'l', b'm', b'n', b'o', b'p', 0x17, b'A', 0x00]), // long form, 16
        with(1, &[0xf7, 0x11, 0x10, b'a']),                         // long form, short data
        with(1, &[0xf7, 0x12, 0x02, 0x00, b'a', b'b', 0x17, b'A', 0x00]), // length as int16
        with(1, &[0xf7, 0x13, 0x02, 0x00, 0x00, 0x00, b'a', b'b', 0x17, b'A', 0x00]), // int32
        with(1, &[0xf7, 0x13, 0xff, 0xff, 0xff, 0x7f]),             // 2^31-1 bytes claimed
        with(1, &[0xf7, 0x13, 0x00, 0x00, 0x00, 0x80]),             // MISSING as a length
        with(1, &[0xf7, 0x11, 0x80]),                               // MISSING int8
        with(1, &[0xf7, 0x11, 0x81]),                               // END_OF_VECTOR
        with(1, &[0xf7, 0x11, 0xff]),                               // -1
        with(1, &[0xf7, 0x21, 0x01, 0x02]),                         // a vector as a length
        with(1, &[0xf7, 0x01]),                                     // empty int8 as a length
        with(1, &[0xf7, 0x15, 0, 0, 0, 0]),                         // float as a length
        with(1, &[0xf7, 0x17, b'1']),                               // string as a length
        with(1, &[0xf7, 0x00]),                                     // untyped as a length
        with(1, &[0xf7, 0x14, 0x01]),                               // invalid type as a length
        with(1, &[0xf7]),                                           // length missing
        with(1, &[0xf7, 0x11]),                                     // length value missing
        with(1, &[0xf7, 0xf1, 0x11, 0x01, 0x01, b'a']),             // nested long form (rejected by the fix)
        with(1, &[0xf7, 0xf7]),
        with(1, &[0xf4, 0x11, 0x01]),                               // long form of an invalid type
        with(1, &[0x04]),                                           // invalid type
        with(1, &[0x00]),                                           // untyped id
        with(1, &[0x11, 0x01]),                                     // id is an integer
        with(1, &[0x07, 0x17, b'A', 0x15, 0, 0, 0, 0]),             // filters are floats
        with(1, &[0x07, 0x17, b'A', 0x21, 0x00]),                   // filters short
        with(1, &[0x07, 0x17, b'A', 0x22, 0x00, 0x00, 0x01, 0x00]), // int16 filters
        with(1, &[0x07, 0x17, b'A', 0x13, 0x00, 0x00, 0x00, 0x00, 0xaa]), // int32 filter + info byte
        with(1, &[0x07, 0x17, b'A', 0xf1, 0x13, 0xff, 0xff, 0xff, 0x7f]), // 2^31-1 filters
        with(65535, &[0x07, 0x17, b'A', 0x00]),
        head(1),
        head(1)[..23].to_vec(),
        vec![0u8; 1],
    ];
    for c in &corpus {
        bcf_case(ctx, c);
    }
    for s in &sites {
        bcf_case(ctx, s);
        for k in 1..s.len() {
            bcf_case(ctx, &s[..k]);
        }
        // every byte from the allele count on
        for pos in 16..s.len() {
            for k in 0..super::mutate::SUBS {
                let v = super::mutate::sub_value(s[pos], k);
                if v != s[pos] {
                    let mut m = s.clone();
                    m[pos] = v;
                    bcf_case(ctx, &m);
                }
            }
        }
        // every descriptor value at the first few typed positions
        for pos in 24..s.len().min(24 + 12) {
            for v in [0x00u8, 0x01, 0x07, 0x11, 0x17, 0x21, 0x27, 0x77, 0xe7, 0xf1, 0xf2, 0xf3, 0xf7, 0xff, 0x04, 0x15] {
                let mut m = s.clone();
                m[pos] = v;
                bcf_case(ctx, &m);
            }
        }
    }
    let n = ctx.n(400, 12000);
    for _ in 0..n {
        let mut m = if ctx.rng.chance(1, 2) { ctx.rng.pick(&sites).clone() } else { ctx.rng.pick(&corpus).clone() };
        for _ in 0..1 + ctx.rng.below(3) {
            if m.len() > 18 {
                let p = 18 + ctx.rng.below((m.len() - 18) as u64) as usize;
                m[p] = match ctx.rng.below(3) {
                    0 => *ctx.rng.pick(&[0x07u8, 0x17, 0x27, 0xf7, 0x11, 0x12, 0x13, 0xf1, 0x00, 0x80, 0xff]),
                    _ => ctx.rng.next() as u8,
                };
            }
        }
        if ctx.rng.chance(1, 4) {
            let k = 1 + ctx.rng.below(m.len() as u64) as usize;
            m.truncate(k);
        }
        bcf_case(ctx, &m);
    }
}

// ---------------------------------------------------------------- index query

fn query_case(ctx: &mut Ctx, ms: u8, d: u8, ids: &[usize], start: Option<usize>, end: Option<usize>) {
    use noodles_csi::binning_index::index::reference_sequence::{bin::Chunk, index::LinearIndex, Bin};
    use noodles_csi::binning_index::index::ReferenceSequence;
    let mut uniq: Vec<usize> = vec![];
    for i in ids {
        if !uniq.contains(i) {
            uniq.push(*i);
        }
    }
    let f = |o: Option<usize>| o.map(|x| x.to_string()).unwrap_or("-".into());
    let idstr = if uniq.is_empty() { "-".to_string() } else { uniq.iter().map(|i| i.to_string()).collect::<Vec<_>>().join(",") };
    let req = format!("c15 query {ms} {d} {idstr} {} {}", f(start), f(end));
    emit(ctx, req, move || {
        let vp = |n: u64| bgzf::VirtualPosition::from(n);
        let bins: indexmap::IndexMap<usize, Bin> = uniq.iter().enumerate().map(|(k, id)| (*id, Bin::new(vec![Chunk::new(vp(k as u64 + 1), vp(k as u64 + 2))]))).collect();
        let rs: ReferenceSequence<LinearIndex> = ReferenceSequence::new(bins, vec![], None);
        let p = |x: usize| Position::new(x).expect("positions are non-zero");
        let iv: noodles_core::region::Interval = match (start, end) {
            (Some(a), Some(b)) => (p(a)..=p(b)).into(),
            (Some(a), None) => (p(a)..).into(),
            (None, Some(b)) => (..=p(b)).into(),
            (None, None) => (..).into(),
        };
        match rs.query(ms, d, iv) {
            Err(e) => io_class(&e),
            Ok(found) => {
                let got: Vec<String> = found.iter().map(|b| uniq[u64::from(b.chunks()[0].start()) as usize - 1].to_string()).collect();
                format!("ok:{}", if got.is_empty() { "-".to_string() } else { got.join(",") })
            }
        }
    });
}

fn query_suite(ctx: &mut Ctx) {
    // corpus: finding F9 and the edges of the geometry
    let all5: Vec<usize> = vec![0, 1, 8, 9, 72, 73, 584, 585, 4680, 4681, 37448, 37449, 37450, 40000, usize::MAX];
    for (ms, d) in [(14u8, 5u8), (0, 5), (14, 0), (1, 0), (14, 9), (14, 10), (14, 11), (14, 255), (255, 5), (255, 255), (63, 0), (64, 0), (61, 1), (60, 1), (34, 10), (33, 10), (1, 21), (4, 2), (1, 1)] {
        for (s, e) in [(Some(1), Some(10)), (None, None), (Some(8), Some(13)), (Some(1), Some(1 << 29)), (Some(1 << 29), None), (None, Some((1usize << 29) - 1)), (Some(20), Some(10))] {
            if d >= 9 && ms > 0 && (ms as u32 + 3 * d as u32) < 64 && (s.is_none() || e.is_none() || e > Some(1 << 20)) {
                continue; // a whole-range query at depth 9/10 marks 10^8..10^9 bins: seconds per request
            }
            query_case(ctx, ms, d, &all5, s, e);
        }
    }
    let n = ctx.n(1500, 30000);
    for _ in 0..n {
        let (ms, d) = match ctx.rng.below(6) {
            0 => (14, 5),
            1 => (ctx.rng.next() as u8, ctx.rng.next() as u8),
            2 => (ctx.rng.below(20) as u8, ctx.rng.below(12) as u8),
            3 => (*ctx.rng.pick(&[0u8, 1, 14, 32, 33, 34, 40, 60, 63, 64]), *ctx.rng.pick(&[0u8, 1, 5, 8])),
            _ => (1 + ctx.rng.below(16) as u8, ctx.rng.below(7) as u8),
        };
        if d >= 9 && d <= 10 {
            continue;
        }
        let bits = (ms as u32 + 3 * d as u32).min(62);
        let maxp = (1usize << bits).max(2) - 1;
        let nb = ctx.rng.below(8) as usize;
        let maxid = if d <= 8 { ((1u64 << ((d as u32 + 1) * 3)) / 7) as usize } else { 1 << 20 };
        let ids: Vec<usize> = (0..nb)
            .map(|_| match ctx.rng.below(5) {
                0 => ctx.rng.below(10) as usize,
                1 => maxid.saturating_sub(ctx.rng.below(3) as usize),
                2 => maxid + ctx.rng.below(3) as usize,
                3 => ctx.rng.below(maxid as u64 * 2 + 1) as usize,
                _ => ctx.rng.below(maxid as u64 + 1) as usize,
            })
            .collect();
        let pos = |rng: &mut Rng| match rng.below(5) {
            0 => 1,
            1 => maxp,
            2 => maxp + 1,
            3 => 1 + rng.below(maxp.min(1 << 20) as u64) as usize,
            _ => 1 + rng.below(maxp as u64) as usize,
        };
        let s = if ctx.rng.chance(1, 5) { None } else { Some(pos(&mut ctx.rng)) };
        let e = if ctx.rng.chance(1, 5) { None } else { Some(pos(&mut ctx.rng)) };
        query_case(ctx, ms, d, &ids, s, e);
    }
}

pub fn run(ctx: &mut Ctx) {
    num_suite(ctx);
    frame_suite(ctx);
    asref_suite(ctx);
    bam_suite(ctx);
    bcf_suite(ctx);
    query_suite(ctx);
}

/// `corr <suite> <request hash>`: re-run that one request of the suite
pub fn replay(ctx: &mut Ctx, case: &[String]) {
    let only: Option<u64> = case.get(1).and_then(|s| s.parse().ok());
    ONLY.with(|o| o.set(only));
    // the suites share one PRNG stream: run them all in order, evaluating only that request
    run(ctx);
    ONLY.with(|o| o.set(None));
}
