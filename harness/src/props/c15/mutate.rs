//! The mutation engine: single-byte substitutions, truncations, structured mutations of
//! length/count fields (binary formats) and of tokens (text formats). Every mutation is named by
//! an index into a deterministic enumeration over a fixed seed file.
use super::cramwalk::{self, Field};

/// substitution values tried at every position
pub const SUBS: usize = 7;
pub fn sub_value(orig: u8, k: usize) -> u8 {
    match k {
        0 => 0x00,
        1 => 0xff,
        2 => orig.wrapping_add(1),
        3 => orig.wrapping_sub(1),
        4 => orig ^ 0x01,
        5 => orig ^ 0x80,
        _ => orig ^ 0x10,
    }
}

pub fn n_sub(len: usize) -> usize {
    len * SUBS
}

/// `None` when the substitution would not change the byte or duplicates an earlier `k`
pub fn apply_sub(data: &[u8], idx: usize) -> Option<(Vec<u8>, usize)> {
    let (pos, k) = (idx / SUBS, idx % SUBS);
    let orig = *data.get(pos)?;
    let v = sub_value(orig, k);
    if v == orig || (0..k).any(|j| sub_value(orig, j) == v) {
        return None;
    }
    let mut out = data.to_vec();
    out[pos] = v;
    Some((out, pos))
}

// ---------------------------------------------------------------- binary field locators

fn le(b: &[u8], off: usize, n: usize) -> Option<u64> {
    let s = b.get(off..off + n)?;
    let mut v = 0u64;
    for (i, x) in s.iter().enumerate() {
        v |= (*x as u64) << (8 * i);
    }
    Some(v)
}

struct W<'a> {
    b: &'a [u8],
    p: usize,
    f: Vec<Field>,
}
impl<'a> W<'a> {
    fn int(&mut self, n: usize, what: &'static str) -> Option<u64> {
        let v = le(self.b, self.p, n)?;
        self.f.push(Field { off: self.p, len: n, kind: 'i', what });
        self.p += n;
        Some(v)
    }
    fn skip(&mut self, n: usize) -> Option<()> {
        if self.p + n > self.b.len() {
            return None;
        }
        self.p += n;
        Some(())
    }
}

/// BAM payload: header + reference dictionary + every record's fixed fields and aux `B` counts
pub fn bam_fields(b: &[u8]) -> Vec<Field> {
    let mut w = W { b, p: 4, f: vec![] };
    let _ = (|| -> Option<()> {
        let l_text = w.int(4, "bam.l_text")?;
        w.skip(l_text as usize)?;
        let n_ref = w.int(4, "bam.n_ref")?;
        for _ in 0..n_ref {
            let l_name = w.int(4, "bam.ref.l_name")?;
            w.skip(l_name as usize)?;
            w.int(4, "bam.ref.l_ref")?;
        }
        while w.p < b.len() {
            let start = w.p;
            let block_size = w.int(4, "bam.rec.block_size")? as usize;
            w.int(4, "bam.rec.ref_id")?;
            w.int(4, "bam.rec.pos")?;
            let l_name = w.int(1, "bam.rec.l_read_name")? as usize;
            w.int(1, "bam.rec.mapq")?;
            w.int(2, "bam.rec.bin")?;
            let n_cigar = w.int(2, "bam.rec.n_cigar_op")? as usize;
            w.int(2, "bam.rec.flag")?;
            let l_seq = w.int(4, "bam.rec.l_seq")? as usize;
            w.int(4, "bam.rec.next_ref_id")?;
            w.int(4, "bam.rec.next_pos")?;
            w.int(4, "bam.rec.tlen")?;
            w.skip(l_name)?;
            for _ in 0..n_cigar {
                w.int(4, "bam.rec.cigar_op")?;
            }
            w.skip(l_seq.div_ceil(2) + l_seq)?;
            let end = start + 4 + block_size;
            while w.p + 3 <= end {
                w.skip(2)?;
                let ty = *b.get(w.p)?;
                w.f.push(Field { off: w.p, len: 1, kind: 'b', what: "bam.aux.type" });
                w.p += 1;
                match ty {
                    b'A' | b'c' | b'C' => w.skip(1)?,
                    b's' | b'S' => w.skip(2)?,
                    b'i' | b'I' | b'f' => w.skip(4)?,
                    b'Z' | b'H' => {
                        while *b.get(w.p)? != 0 {
                            w.p += 1;
                        }
                        w.f.push(Field { off: w.p, len: 1, kind: 'b', what: "bam.aux.nul" });
                        w.p += 1;
                    }
                    b'B' => {
                        let sub = *b.get(w.p)?;
                        w.f.push(Field { off: w.p, len: 1, kind: 'b', what: "bam.aux.subtype" });
                        w.p += 1;
                        let n = w.int(4, "bam.aux.array_count")? as usize;
                        let sz = match sub {
                            b'c' | b'C' => 1,
                            b's' | b'S' => 2,
                            _ => 4,
                        };
                        w.skip(n * sz)?;
                    }
                    _ => return None,
                }
            }
            w.p = end;
        }
        Some(())
    })();
    w.f
}

/// walk one BCF typed value, recording its descriptor byte(s); returns None when malformed
fn bcf_typed(w: &mut W, what: &'static str) -> Option<(u8, usize)> {
    let d = *w.b.get(w.p)?;
    w.f.push(Field { off: w.p, len: 1, kind: 'b', what });
    w.p += 1;
    let ty = d & 0x0f;
    let mut len = (d >> 4) as usize;
    if len == 15 {
        let (t2, l2) = bcf_typed(w, "bcf.typed.len_descriptor")?;
        if l2 != 1 {
            return None;
        }
        let n = match t2 {
            1 => w.int(1, "bcf.typed.len")?,
            2 => w.int(2, "bcf.typed.len")?,
            3 => w.int(4, "bcf.typed.len")?,
            _ => return None,
        };
        len = n as usize;
        return Some((ty, len));
    }
    Some((ty, len))
}

fn bcf_size(ty: u8) -> usize {
    match ty {
        1 | 7 => 1,
        2 => 2,
        3 | 5 => 4,
        _ => 0,
    }
}

fn bcf_value(w: &mut W, what: &'static str) -> Option<(u8, usize)> {
    let (ty, len) = bcf_typed(w, what)?;
    // the length descriptor of a long vector consumed its own integer already
    Some((ty, len))
}

pub fn bcf_fields(b: &[u8]) -> Vec<Field> {
    let mut w = W { b, p: 5, f: vec![] };
    let _ = (|| -> Option<()> {
        let l_text = w.int(4, "bcf.l_text")?;
        w.skip(l_text as usize)?;
        while w.p < b.len() {
            let l_shared = w.int(4, "bcf.rec.l_shared")? as usize;
            let l_indiv = w.int(4, "bcf.rec.l_indiv")? as usize;
            let site_end = w.p + l_shared;
            let end = site_end + l_indiv;
            w.int(4, "bcf.rec.chrom")?;
            w.int(4, "bcf.rec.pos")?;
            w.int(4, "bcf.rec.rlen")?;
            w.int(4, "bcf.rec.qual")?;
            let n_info = w.int(2, "bcf.rec.n_info")? as usize;
            let n_allele = w.int(2, "bcf.rec.n_allele")? as usize;
            let n_sample = w.int(3, "bcf.rec.n_sample")? as usize;
            let n_fmt = w.int(1, "bcf.rec.n_fmt")? as usize;
            let _ = (|| -> Option<()> {
                let (t, l) = bcf_value(&mut w, "bcf.id.descriptor")?;
                w.skip(l * bcf_size(t))?;
                for _ in 0..n_allele {
                    let (t, l) = bcf_value(&mut w, "bcf.allele.descriptor")?;
                    w.skip(l * bcf_size(t))?;
                }
                let (t, l) = bcf_value(&mut w, "bcf.filter.descriptor")?;
                w.skip(l * bcf_size(t))?;
                for _ in 0..n_info {
                    let (t, l) = bcf_value(&mut w, "bcf.info.key_descriptor")?;
                    w.f.push(Field { off: w.p, len: bcf_size(t).max(1), kind: 'i', what: "bcf.info.key" });
                    w.skip(l * bcf_size(t))?;
                    let (t, l) = bcf_value(&mut w, "bcf.info.value_descriptor")?;
                    if l > 0 && bcf_size(t) > 0 {
                        w.f.push(Field { off: w.p, len: bcf_size(t), kind: 'i', what: "bcf.info.first_value" });
                    }
                    w.skip(l * bcf_size(t))?;
                }
                Some(())
            })();
            w.p = site_end;
            let _ = (|| -> Option<()> {
                for _ in 0..n_fmt {
                    let (t, l) = bcf_value(&mut w, "bcf.fmt.key_descriptor")?;
                    w.f.push(Field { off: w.p, len: bcf_size(t).max(1), kind: 'i', what: "bcf.fmt.key" });
                    w.skip(l * bcf_size(t))?;
                    let (t, l) = bcf_value(&mut w, "bcf.fmt.value_descriptor")?;
                    let sz = bcf_size(t);
                    // first element of every sample's vector: sentinel values live here
                    for s in 0..n_sample {
                        if sz > 0 && l > 0 {
                            w.f.push(Field { off: w.p + s * l * sz, len: sz, kind: 'i', what: "bcf.fmt.sample_value" });
                            if l > 1 {
                                w.f.push(Field { off: w.p + s * l * sz + (l - 1) * sz, len: sz, kind: 'i', what: "bcf.fmt.sample_last_value" });
                            }
                        }
                    }
                    w.skip(l * sz * n_sample)?;
                }
                Some(())
            })();
            w.p = end;
            if end > b.len() {
                break;
            }
        }
        Some(())
    })();
    w.f
}

fn binning_refs(w: &mut W, csi: bool) -> Option<()> {
    let n_ref = w.int(4, "index.n_ref")?;
    for _ in 0..n_ref {
        let n_bin = w.int(4, "index.n_bin")?;
        for _ in 0..n_bin {
            w.int(4, "index.bin_id")?;
            if csi {
                w.int(8, "index.loffset")?;
            }
            let n_chunk = w.int(4, "index.n_chunk")?;
            for _ in 0..n_chunk {
                w.int(8, "index.chunk_beg")?;
                w.int(8, "index.chunk_end")?;
            }
        }
        if !csi {
            let n_intv = w.int(4, "index.n_intv")?;
            for _ in 0..n_intv {
                w.int(8, "index.ioffset")?;
            }
        }
    }
    if w.p + 8 <= w.b.len() {
        w.int(8, "index.n_no_coor")?;
    }
    Some(())
}

pub fn bai_fields(b: &[u8]) -> Vec<Field> {
    let mut w = W { b, p: 4, f: vec![] };
    let _ = binning_refs(&mut w, false);
    w.f
}

pub fn csi_fields(b: &[u8]) -> Vec<Field> {
    let mut w = W { b, p: 4, f: vec![] };
    let _ = (|| -> Option<()> {
        w.int(4, "csi.min_shift")?;
        w.int(4, "csi.depth")?;
        let l_aux = w.int(4, "csi.l_aux")? as usize;
        if l_aux >= 28 {
            let save = w.p;
            for what in ["tbx.format", "tbx.col_seq", "tbx.col_beg", "tbx.col_end", "tbx.meta", "tbx.skip", "tbx.l_nm"] {
                w.int(4, what)?;
            }
            w.p = save;
        }
        w.skip(l_aux)?;
        binning_refs(&mut w, true)
    })();
    w.f
}

pub fn tbi_fields(b: &[u8]) -> Vec<Field> {
    let mut w = W { b, p: 4, f: vec![] };
    let _ = (|| -> Option<()> {
        let n_ref = w.int(4, "tbi.n_ref")?;
        for what in ["tbx.format", "tbx.col_seq", "tbx.col_beg", "tbx.col_end", "tbx.meta", "tbx.skip"] {
            w.int(4, what)?;
        }
        let l_nm = w.int(4, "tbx.l_nm")? as usize;
        w.skip(l_nm)?;
        for _ in 0..n_ref {
            let n_bin = w.int(4, "index.n_bin")?;
            for _ in 0..n_bin {
                w.int(4, "index.bin_id")?;
                let n_chunk = w.int(4, "index.n_chunk")?;
                for _ in 0..n_chunk {
                    w.int(8, "index.chunk_beg")?;
                    w.int(8, "index.chunk_end")?;
                }
            }
            let n_intv = w.int(4, "index.n_intv")?;
            for _ in 0..n_intv {
                w.int(8, "index.ioffset")?;
            }
        }
        if w.p + 8 <= w.b.len() {
            w.int(8, "index.n_no_coor")?;
        }
        Some(())
    })();
    w.f
}

pub fn gzi_fields(b: &[u8]) -> Vec<Field> {
    let mut w = W { b, p: 0, f: vec![] };
    let _ = (|| -> Option<()> {
        let n = w.int(8, "gzi.count")?;
        for _ in 0..n {
            w.int(8, "gzi.compressed")?;
            w.int(8, "gzi.uncompressed")?;
        }
        Some(())
    })();
    w.f
}

/// BGZF member fields of a file (BSIZE, ISIZE, CRC, XLEN, SLEN, header constants)
pub fn bgzf_fields(b: &[u8]) -> Vec<Field> {
    let mut f = vec![];
    let mut p = 0;
    while p + 18 <= b.len() {
        let bsize = u16::from_le_bytes([b[p + 16], b[p + 17]]) as usize + 1;
        f.push(Field { off: p + 3, len: 1, kind: 'b', what: "bgzf.flg" });
        f.push(Field { off: p + 10, len: 2, kind: 'i', what: "bgzf.xlen" });
        f.push(Field { off: p + 14, len: 2, kind: 'i', what: "bgzf.slen" });
        f.push(Field { off: p + 16, len: 2, kind: 'i', what: "bgzf.bsize" });
        if p + bsize > b.len() || bsize < 26 {
            break;
        }
        f.push(Field { off: p + bsize - 8, len: 4, kind: 'i', what: "bgzf.crc32" });
        f.push(Field { off: p + bsize - 4, len: 4, kind: 'i', what: "bgzf.isize" });
        p += bsize;
    }
    f
}

pub fn cram_fields(b: &[u8]) -> Vec<Field> {
    cramwalk::walk(b).map(|l| l.fields).unwrap_or_default()
}

/// values tried for a field
pub fn field_values(f: &Field, orig: &[u8]) -> Vec<Vec<u8>> {
    let mut out: Vec<Vec<u8>> = vec![];
    match f.kind {
        'i' => {
            let n = f.len;
            let o = le(orig, 0, n).unwrap_or(0);
            let max = if n >= 8 { u64::MAX } else { (1u64 << (8 * n)) - 1 };
            let mut vals = vec![0, 1, 2, max, max - 1, max / 2, max / 2 + 1, max / 2 - 1, o.wrapping_add(1) & max, o.wrapping_sub(1) & max, o.wrapping_mul(2) & max, o / 2];
            if n >= 4 {
                vals.extend([0x10000, 0x1000000, 0x0fff_ffff, 0x1000_0000, 0x2000_0000, 0x7fff_fff0, 0x8000_0001, 37450, 37449, 4681, 299593]);
            }
            if n >= 8 {
                vals.extend([1 << 32, 1 << 48, (1 << 48) - 1, i64::MAX as u64, 0xffff_ffff, 0xffff_0000, 0x1_0000]);
            }
            if n == 1 {
                vals.extend([10, 11, 14, 15, 16, 21, 63, 64, 65]);
            }
            for v in vals {
                out.push((0..n).map(|i| (v >> (8 * i)) as u8).collect());
            }
        }
        't' => {
            for v in [0, 1, 2, 127, 128, 16383, 16384, 1 << 21, 1 << 28, i32::MAX, i32::MAX - 1, -1, -2, i32::MIN, 65536, 1 << 24] {
                out.push(cramwalk::write_itf8(v));
            }
        }
        'l' => {
            for v in [vec![0u8], vec![1], vec![0x7f], vec![0x80, 0x80], vec![0xff; 9], vec![0xfe, 0xff, 0xff, 0xff, 0xff, 0xff, 0xff, 0xff], vec![0xff, 0x7f, 0xff, 0xff, 0xff, 0xff, 0xff, 0xff, 0xff], vec![0xf0, 1, 0, 0, 0]] {
                out.push(v);
            }
        }
        _ => {
            // enums / descriptor bytes: every type nibble with the interesting lengths, plus ASCII type letters
            let vals: &[u8] = &[
                0x00, 0x01, 0x02, 0x03, 0x04, 0x05, 0x06, 0x07, 0x08, 0x0f, 0x10, 0x11, 0x12, 0x13, 0x14, 0x15, 0x17, 0x21, 0x27, 0x71, 0xe1, 0xe7, 0xf0, 0xf1, 0xf2, 0xf3, 0xf5, 0xf7, 0xff, b'A', b'B', b'Z', b'H', b'c', b'C', b's', b'S', b'i', b'I', b'f', b'd', b'*', 0x7f, 0x80,
            ];
            for v in vals {
                out.push(vec![*v]);
            }
        }
    }
    out.retain(|v| v.as_slice() != orig);
    out.dedup();
    out
}

pub const FIELD_VALUES_MAX: usize = 48;

pub fn n_field(fields: &[Field]) -> usize {
    fields.len() * FIELD_VALUES_MAX
}

pub fn apply_field(data: &[u8], fields: &[Field], idx: usize) -> Option<(Vec<u8>, String)> {
    let f = fields.get(idx / FIELD_VALUES_MAX)?;
    let orig = data.get(f.off..f.off + f.len)?;
    let vals = field_values(f, orig);
    let v = vals.get(idx % FIELD_VALUES_MAX)?;
    let mut out = data[..f.off].to_vec();
    out.extend_from_slice(v);
    out.extend_from_slice(&data[f.off + f.len..]);
    Some((out, format!("{}@{}:={}", f.what, f.off, crate::common::hex(v))))
}

// ---------------------------------------------------------------- text tokens

pub fn tokens(data: &[u8]) -> Vec<(usize, usize)> {
    let is_delim = |b: u8| matches!(b, b'\t' | b'\n' | b';' | b',' | b':' | b'=' | b' ' | b'|' | b'/' | b'<' | b'>' | b'"');
    let mut out = vec![];
    let mut start = 0;
    for (i, &b) in data.iter().enumerate() {
        if is_delim(b) {
            out.push((start, i));
            start = i + 1;
        }
    }
    out.push((start, data.len()));
    out
}

pub const TOKEN_VALUES: &[&[u8]] = &[
    b"",
    b"0",
    b"-1",
    b"1",
    b"2147483647",
    b"2147483648",
    b"-2147483648",
    b"4294967295",
    b"4294967296",
    b"18446744073709551615",
    b"18446744073709551616",
    b"99999999999999999999999999",
    b".",
    b"*",
    b"=",
    b"\x00",
    b"\xc3\xa9",
    b"\xff\xfe",
    b"%",
    b"%zz",
    b"%2",
    b"1e400",
    b"nan",
    b"-inf",
    b"\t",
    b"\n",
    b"\r",
    b"@",
    b">",
    b"#",
    b"AAAAAAAAAAAAAAAAAAAAAAAAAAAAAAAAAAAAAAAAAAAAAAAAAAAAAAAAAAAAAAAAAAAAAAAAAAAAAAAAAAAAAAAAAAAAAAAAAAAAAAAAAAAAAAAAAAAAAAAAAAAAAAAAAAAAAAAAAAAAAAAAAAAAAAAAAAAAAAAAAAAAAAAAAAAAAAAAAAAAAAAAAAAAAAAAAAAAAAAAAAAAAAAAAAAAAAAAAAAAAAAAAAAAAAAAAAAAAAAAAAAAAAAAAAAAAAAAAAAAAAAAAAAAAAAAAAAAAA",
    b"1M1M1M1M1M1M1M1M1M1M1M1M1M1M1M1M1M1M1M1M",
    b"0|0|0|0|0|0",
    b"B:Z:",
    b"B:c",
];

pub fn n_token(data: &[u8]) -> usize {
    tokens(data).len() * (TOKEN_VALUES.len() + 2)
}

/// replace / delete (with its delimiter) / duplicate the token
pub fn apply_token(data: &[u8], idx: usize) -> Option<(Vec<u8>, String)> {
    let toks = tokens(data);
    let per = TOKEN_VALUES.len() + 2;
    let (s, e) = *toks.get(idx / per)?;
    let k = idx % per;
    let mut out = data[..s].to_vec();
    let what;
    if k < TOKEN_VALUES.len() {
        if &data[s..e] == TOKEN_VALUES[k] {
            return None;
        }
        out.extend_from_slice(TOKEN_VALUES[k]);
        out.extend_from_slice(&data[e..]);
        what = format!("token@{s}..{e}:={}", crate::common::hex(TOKEN_VALUES[k]));
    } else if k == TOKEN_VALUES.len() {
        // delete the token and the delimiter after it
        out.extend_from_slice(data.get(e + 1..).unwrap_or(&[]));
        what = format!("token@{s}..{e} deleted");
    } else {
        out.extend_from_slice(&data[s..(e + 1).min(data.len())]);
        out.extend_from_slice(&data[s..]);
        what = format!("token@{s}..{e} duplicated");
    }
    Some((out, what))
}
