//! Small VALID files of every format, produced by the real noodles writers (or written out by
//! hand for the text formats). They are fixed (seed-independent) so that a mutation is named by
//! `(format, kind, index)` alone and replays exactly.
use crate::common::*;
use crate::props::c01::{raw_inflate, split_members, stored_member, EOF};
use noodles_bam as bam;
use noodles_bcf as bcf;
use noodles_bgzf as bgzf;
use noodles_cram as cram;
use noodles_fasta as fasta;
use noodles_sam as sam;
use noodles_vcf as vcf;
use std::io::Write as _;

pub const SAM_TEXT: &str = "@HD\tVN:1.6\tSO:coordinate\n\
@SQ\tSN:sq0\tLN:64\n\
@SQ\tSN:sq1\tLN:40\n\
@RG\tID:rg0\tSM:s0\n\
@PG\tID:pg0\tPN:nvh\n\
@CO\tseed file\n\
r0\t99\tsq0\t3\t40\t4M1I3M\t=\t20\t25\tACGTTACG\tIIIIHHHH\tNH:i:1\tXA:A:c\tXc:i:-100\tXC:i:200\tXs:i:-30000\tXS:i:60000\tXi:i:-100000\tXI:i:3000000000\tXF:f:1.5\tXZ:Z:hello\tXH:H:1AE301\tBa:B:c,-1,2\tBb:B:C,1,2\tBc:B:s,-300,4\tBd:B:S,300,4\tBe:B:i,-70000,1\tBf:B:I,70000,1\tBg:B:f,1.5,2.5\tRG:Z:rg0\n\
r1\t147\tsq0\t20\t40\t2S6M\t=\t3\t-25\tTTACGTAC\tHHHHIIII\n\
r2\t0\tsq1\t5\t0\t3M2D2M1N2M\t*\t0\t0\tACGTACG\tHHHHHHH\tMD:Z:3^AC4\n\
*\t4\t*\t0\t0\t*\t*\t0\t0\tACGT\tIIII\n\
r4\t4\t*\t0\t0\t*\t*\t0\t0\t*\t*\n";

/// the subset the CRAM writer round-trips (no record with bases but without qualities, F24)
pub const SAM_TEXT_CRAM_RECORDS: usize = 4;

pub const VCF_TEXT: &str = "##fileformat=VCFv4.4\n\
##contig=<ID=sq0,length=1000>\n\
##contig=<ID=sq1,length=500>\n\
##INFO=<ID=DP,Number=1,Type=Integer,Description=\"d\">\n\
##INFO=<ID=AF,Number=A,Type=Float,Description=\"d\">\n\
##INFO=<ID=DB,Number=0,Type=Flag,Description=\"d\">\n\
##INFO=<ID=TXT,Number=1,Type=String,Description=\"d\">\n\
##INFO=<ID=CH,Number=1,Type=Character,Description=\"d\">\n\
##INFO=<ID=AC,Number=A,Type=Integer,Description=\"d\">\n\
##INFO=<ID=END,Number=1,Type=Integer,Description=\"d\">\n\
##FILTER=<ID=PASS,Description=\"All filters passed\">\n\
##FILTER=<ID=q10,Description=\"d\">\n\
##FORMAT=<ID=GT,Number=1,Type=String,Description=\"d\">\n\
##FORMAT=<ID=DP,Number=1,Type=Integer,Description=\"d\">\n\
##FORMAT=<ID=AD,Number=R,Type=Integer,Description=\"d\">\n\
##FORMAT=<ID=GL,Number=G,Type=Float,Description=\"d\">\n\
##FORMAT=<ID=FT,Number=1,Type=String,Description=\"d\">\n\
##FORMAT=<ID=CC,Number=1,Type=Character,Description=\"d\">\n\
#CHROM\tPOS\tID\tREF\tALT\tQUAL\tFILTER\tINFO\tFORMAT\ts0\ts1\n\
sq0\t10\trs1;rs2\tA\tC,G\t30.5\tPASS\tDP=14;AF=0.5,0.25;DB;TXT=hello;CH=x;AC=300,70000\tGT:DP:AD:GL:FT:CC\t0|1:7:3,4,0:-1.5,-2.5,-3,-4,-5,-6:ok:a\t1/2:.:.:.:.:.\n\
sq0\t20\t.\tAT\tA\t.\tq10\tDP=1\tGT\t./.\t0/0\n\
sq1\t5\t.\tG\t<DEL>\t10\t.\tEND=40\tGT:DP\t0/1:40000\t1/1:3\n";

pub const FASTA_TEXT: &str = ">sq0 first sequence\nACGTACGTAC\nGTACGTACGT\nACGT\n>sq1\nTTTTGGGGCC\nAA\n>sq2 desc\nN\n";
pub const FASTQ_TEXT: &str = "@r0 desc\nACGT\n+\nIIII\n@r1\nTTGGCCAA\n+r1\nHHHHHHHH\n@r2\nN\n+\n!\n";
pub const GFF_TEXT: &str = "##gff-version 3\n##sequence-region sq0 1 1000\n#a comment\n\
sq0\tsrc\tgene\t10\t200\t.\t+\t.\tID=gene0;Name=g%3B0;Alias=a,b\n\
sq0\tsrc\tmRNA\t10\t200\t1.5\t-\t.\tID=mrna0;Parent=gene0\n\
sq0\tsrc\tCDS\t20\t100\t.\t+\t2\tID=cds0;Parent=mrna0;Note=hello%20world\n\
sq%201\t.\texon\t1\t5\t.\t.\t.\t.\n\
##FASTA\n>sq0\nACGT\n";
pub const GTF_TEXT: &str = "#comment\n\
sq0\tsrc\tgene\t10\t200\t.\t+\t.\tgene_id \"g0\"; transcript_id \"t0\";\n\
sq0\tsrc\texon\t10\t50\t1.5\t-\t0\tgene_id \"g0\"; transcript_id \"t0\"; exon_number 1; tag \"a b\";\n\
sq1\t.\tCDS\t1\t5\t.\t.\t2\tgene_id \"g1\"; transcript_id \"\";\n";
pub const BED_TEXT: &str = "sq0\t7\t13\tname0\t100\t+\t7\t13\t255,0,0\n\
sq0\t20\t34\tname1\t0\t-\n\
sq1\t0\t5\t.\t1000\t.\textra\n\
sq1\t5\t9\n";

pub const REF_SQ0: &[u8] = b"ACGTACGTACGTACGTACGTACGTACGTACGTACGTACGTACGTACGTACGTACGTACGTACGT";
pub const REF_SQ1: &[u8] = b"TTTTGGGGCCCCAAAATTTTGGGGCCCCAAAATTTTGGGG";

pub fn repository() -> fasta::Repository {
    use fasta::record::{Definition, Sequence};
    fasta::Repository::new(vec![
        fasta::Record::new(Definition::new("sq0", None), Sequence::from(REF_SQ0.to_vec())),
        fasta::Record::new(Definition::new("sq1", None), Sequence::from(REF_SQ1.to_vec())),
    ])
}

/// re-seal an inflated payload as BGZF: stored (uncompressed) members with correct CRC32/ISIZE, so
/// that a mutated payload byte reaches the format decoder verbatim; EOF marker appended.
pub fn bgzf_reseal(payload: &[u8]) -> Vec<u8> {
    let mut out = vec![];
    for c in payload.chunks(60000) {
        out.extend_from_slice(&stored_member(c));
    }
    out.extend_from_slice(&EOF);
    out
}

/// inflate a BGZF file with the harness's own member splitter + flate2
pub fn bgzf_payload(file: &[u8]) -> Vec<u8> {
    let mut out = vec![];
    for m in split_members(file).expect("seed is well-formed BGZF") {
        out.extend_from_slice(&raw_inflate(m.cdata, m.isize as usize).expect("seed member inflates"));
    }
    out
}

pub fn sam_records() -> (sam::Header, Vec<sam::alignment::RecordBuf>) {
    let mut r = sam::io::Reader::new(SAM_TEXT.as_bytes());
    let h = r.read_header().expect("seed SAM header");
    let recs: Vec<_> = r.record_bufs(&h).collect::<Result<_, _>>().expect("seed SAM records");
    (h, recs)
}

/// a hand-encoded BAM record using the long-CIGAR convention: `kS mN` placeholder + `CG:B,I`
pub fn bam_cg_record() -> Vec<u8> {
    let name = b"cg\0";
    let l_seq = 6u32;
    let real_cigar: [u32; 3] = [(2 << 4) | 0, (1 << 4) | 2, (4 << 4) | 0]; // 2M1D4M
    let mut body = vec![];
    body.extend_from_slice(&0i32.to_le_bytes()); // ref_id
    body.extend_from_slice(&9i32.to_le_bytes()); // pos
    body.push(name.len() as u8);
    body.push(30); // mapq
    body.extend_from_slice(&4681u16.to_le_bytes()); // bin
    body.extend_from_slice(&2u16.to_le_bytes()); // n_cigar_op
    body.extend_from_slice(&0u16.to_le_bytes()); // flag
    body.extend_from_slice(&l_seq.to_le_bytes());
    body.extend_from_slice(&(-1i32).to_le_bytes());
    body.extend_from_slice(&(-1i32).to_le_bytes());
    body.extend_from_slice(&0i32.to_le_bytes());
    body.extend_from_slice(name);
    body.extend_from_slice(&((l_seq << 4) | 4).to_le_bytes()); // 6S
    body.extend_from_slice(&((7u32 << 4) | 3).to_le_bytes()); // 7N
    body.extend_from_slice(&[0x12, 0x48, 0x81]); // ACGTTA
    body.extend_from_slice(&[30, 31, 32, 33, 34, 35]);
    body.extend_from_slice(b"NHC\x01");
    body.extend_from_slice(b"CGBI");
    body.extend_from_slice(&(real_cigar.len() as u32).to_le_bytes());
    for op in real_cigar {
        body.extend_from_slice(&op.to_le_bytes());
    }
    let mut out = (body.len() as u32).to_le_bytes().to_vec();
    out.extend_from_slice(&body);
    out
}

/// BAM: (real writer's compressed file, inflated payload incl. the hand-made CG record)
pub fn bam() -> (Vec<u8>, Vec<u8>) {
    use sam::alignment::io::Write as _;
    let (h, recs) = sam_records();
    let mut w = bam::io::Writer::new(Vec::new());
    w.write_header(&h).unwrap();
    for r in &recs {
        w.write_alignment_record(&h, r).unwrap();
    }
    w.try_finish().unwrap();
    let file = w.into_inner().into_inner();
    let mut payload = bgzf_payload(&file);
    payload.extend_from_slice(&bam_cg_record());
    (file, payload)
}

pub fn vcf_records() -> (vcf::Header, Vec<vcf::variant::RecordBuf>) {
    let mut r = vcf::io::Reader::new(VCF_TEXT.as_bytes());
    let h = r.read_header().expect("seed VCF header");
    let recs: Vec<_> = r.record_bufs(&h).collect::<Result<_, _>>().expect("seed VCF records");
    (h, recs)
}

pub fn bcf() -> (Vec<u8>, Vec<u8>) {
    use vcf::variant::io::Write as _;
    let (h, recs) = vcf_records();
    let mut w = bcf::io::Writer::new(Vec::new());
    w.write_header(&h).unwrap();
    for r in &recs {
        w.write_variant_record(&h, r).unwrap();
    }
    w.try_finish().unwrap();
    let file = w.into_inner().into_inner();
    let payload = bgzf_payload(&file);
    (file, payload)
}

pub fn vcf_gz() -> Vec<u8> {
    let mut w = bgzf::io::Writer::new(Vec::new());
    w.write_all(VCF_TEXT.as_bytes()).unwrap();
    w.finish().unwrap()
}

/// plain BGZF: two data members (one by an explicit flush) + EOF marker, by the real writer
pub fn bgzf_file() -> Vec<u8> {
    let mut w = bgzf::io::Writer::new(Vec::new());
    w.write_all(b"noodles bgzf seed, first member. ").unwrap();
    w.flush().unwrap();
    w.write_all(b"second member: 0123456789 0123456789 0123456789").unwrap();
    w.finish().unwrap()
}

/// CRAM by the real writer. `raw` = every block stored uncompressed (so that byte mutations reach
/// the compression-header / slice / record decoders); otherwise the default (gzip) or the 3.1
/// codec set.
pub fn cram(kind: &str) -> Vec<u8> {
    // The CRAM writer's output is not reproducible from one process to the next (hash-map
    // iteration order decides the order of tag encodings and blocks), and a mutation is named by
    // an offset into the seed: the seeds are therefore files written ONCE by the real writer
    // (`NVH_C15_WRITE_ASSETS=<dir> nvh replay C15child <dir> codec.itf8 0 0 1` regenerates them)
    // and checked to be readable by the real reader every time the seeds are built.
    match kind {
        "raw" => include_bytes!("assets/cram_raw.cram").to_vec(),
        "v31" => include_bytes!("assets/cram_v31.cram").to_vec(),
        _ => include_bytes!("assets/cram_gz.cram").to_vec(),
    }
}

pub fn cram_generate(kind: &str) -> Vec<u8> {
    use cram::codecs::Encoder;
    use cram::container::block_content_encoder_map::BlockContentEncoderMap;
    use cram::container::compression_header::data_series_encodings::DataSeries as D;
    const STANDARD_DATA_SERIES: &[D] = &[
        D::BamFlags, D::CramFlags, D::ReferenceSequenceIds, D::ReadLengths, D::AlignmentStarts, D::ReadGroupIds, D::Names, D::MateFlags,
        D::MateReferenceSequenceIds, D::MateAlignmentStarts, D::TemplateLengths, D::MateDistances, D::TagSetIds, D::FeatureCounts, D::FeatureCodes,
        D::FeaturePositionDeltas, D::DeletionLengths, D::StretchesOfBases, D::StretchesOfQualityScores, D::BaseSubstitutionCodes, D::InsertionBases,
        D::ReferenceSkipLengths, D::PaddingLengths, D::HardClipLengths, D::SoftClipBases, D::MappingQualities, D::Bases, D::QualityScores,
    ];
    use sam::alignment::io::Write as _;
    let (h, recs) = sam_records();
    let mut b = cram::io::writer::Builder::default().set_reference_sequence_repository(repository());
    match kind {
        "raw" => {
            let mut m = BlockContentEncoderMap::builder().set_core_data_encoder(None).set_default_encoder(None);
            for ds in STANDARD_DATA_SERIES.iter() {
                m = m.set_data_series_encoder(*ds, None);
            }
            b = b.set_block_content_encoder_map(m.build());
        }
        "v31" => {
            // (the AAC and rANS-4x8 order-1 encoders reject or panic on these tiny blocks — C08 findings —
            // so the 3.1 seed uses the encoders that work; AAC gets its bytes in the codec groups)
            use cram::codecs::rans_nx16;
            let mut m = BlockContentEncoderMap::builder()
                .set_core_data_encoder(Some(Encoder::RansNx16(rans_nx16::Flags::empty())))
                .set_default_encoder(Some(Encoder::RansNx16(rans_nx16::Flags::ORDER)));
            for (i, ds) in STANDARD_DATA_SERIES.iter().enumerate() {
                // (rANS Nx16 order-0 and rANS 4x8 on the data-series blocks of this file do not read
                // back — C08 findings — so the series use Nx16 order-1, xz and bzip2)
                let e = match i % 3 {
                    0 => Encoder::RansNx16(rans_nx16::Flags::ORDER),
                    1 => Encoder::Lzma(1),
                    _ => Encoder::Bzip2(Default::default()),
                };
                m = m.set_data_series_encoder(*ds, Some(e));
            }
            b = b.set_block_content_encoder_map(m.build());
        }
        _ => {}
    }
    let mut w = b.build_from_writer(Vec::new());
    w.write_header(&h).unwrap();
    for r in recs.iter().take(SAM_TEXT_CRAM_RECORDS) {
        w.write_alignment_record(&h, r).unwrap();
    }
    w.try_finish(&h).unwrap();
    w.get_ref().clone()
}

pub struct Seeds {
    pub dir: String,
    pub bgzf: Vec<u8>,
    pub bam_file: Vec<u8>,
    pub bam_payload: Vec<u8>,
    pub bcf_file: Vec<u8>,
    pub bcf_payload: Vec<u8>,
    pub vcf_gz: Vec<u8>,
    pub cram_raw: Vec<u8>,
    pub cram_gz: Vec<u8>,
    pub cram_v31: Vec<u8>,
    pub bai: Vec<u8>,
    pub csi_payload: Vec<u8>,
    pub tbi_payload: Vec<u8>,
    pub gzi: Vec<u8>,
    pub fai: Vec<u8>,
    pub fqfai: Vec<u8>,
    pub crai_text: Vec<u8>,
}

fn write_file(path: &str, data: &[u8]) {
    std::fs::write(path, data).expect("write seed file");
}

pub fn gzip(data: &[u8]) -> Vec<u8> {
    let mut e = flate2::write::GzEncoder::new(Vec::new(), flate2::Compression::new(1));
    e.write_all(data).unwrap();
    e.finish().unwrap()
}

pub fn gunzip(data: &[u8]) -> Vec<u8> {
    use std::io::Read as _;
    let mut out = vec![];
    flate2::read::MultiGzDecoder::new(data).read_to_end(&mut out).expect("seed gzip");
    out
}

impl Seeds {
    /// build every seed; files that the path-based indexers need go to `<dir>/seeds/`
    pub fn build(dir: &str) -> Seeds {
        let d = format!("{dir}/seeds");
        std::fs::create_dir_all(&d).expect("seed dir");
        for kind in ["raw", "gz", "v31"] {
            // the stored seed must still be a CRAM the reader under test accepts
            let c = cram(kind);
            let mut rd = cram::io::reader::Builder::default().set_reference_sequence_repository(repository()).build_from_reader(&c[..]);
            let h = rd.read_header().expect("stored CRAM seed: header");
            let n = rd.records(&h).filter(|r| r.is_ok()).count();
            assert_eq!(n, SAM_TEXT_CRAM_RECORDS, "stored CRAM seed `{kind}` no longer reads back");
        }
        let (bam_file, bam_payload) = bam();
        let (bcf_file, bcf_payload) = bcf();
        let vcf_gz = vcf_gz();
        let cram_gz = cram("gz");
        write_file(&format!("{d}/s.bam"), &bam_file);
        write_file(&format!("{d}/s.bcf"), &bcf_file);
        write_file(&format!("{d}/s.vcf.gz"), &vcf_gz);
        write_file(&format!("{d}/s.cram"), &cram_gz);
        write_file(&format!("{d}/s.fa"), FASTA_TEXT.as_bytes());
        write_file(&format!("{d}/s.fq"), FASTQ_TEXT.as_bytes());
        let bai = {
            let ix = bam::fs::index(format!("{d}/s.bam")).expect("bai of seed");
            let mut w = bam::bai::io::Writer::new(Vec::new());
            w.write_index(&ix).unwrap();
            w.into_inner()
        };
        let csi_payload = {
            let ix = bcf::fs::index(format!("{d}/s.bcf")).expect("csi of seed");
            let mut w = noodles_csi::io::Writer::new(Vec::new());
            w.write_index(&ix).unwrap();
            bgzf_payload(&w.into_inner().finish().unwrap())
        };
        let tbi_payload = {
            let ix = vcf::fs::index(format!("{d}/s.vcf.gz")).expect("tabix of seed");
            let mut w = noodles_tabix::io::Writer::new(Vec::new());
            w.write_index(&ix).unwrap();
            w.try_finish().unwrap();
            bgzf_payload(&w.into_inner().into_inner())
        };
        let gzi = {
            // the harness's own member walk of the seed BAM
            let mut v = vec![];
            let (mut c, mut u) = (0u64, 0u64);
            let ms = split_members(&bam_file).unwrap();
            for m in &ms[..ms.len() - 1] {
                c += m.whole.len() as u64;
                u += m.isize as u64;
                v.push((c, u));
            }
            v.push((c + 40, u + 100));
            let mut w = bgzf::gzi::io::Writer::new(Vec::new());
            w.write_index(&bgzf::gzi::Index::from(v)).unwrap();
            w.into_inner()
        };
        let fai = {
            let ix = fasta::fs::index(format!("{d}/s.fa")).expect("fai of seed");
            let mut w = fasta::fai::io::Writer::new(Vec::new());
            w.write_index(&ix).unwrap();
            w.into_inner()
        };
        let fqfai = {
            let ix = noodles_fastq::fs::index(format!("{d}/s.fq")).expect("fastq fai of seed");
            let mut w = noodles_fastq::fai::io::Writer::new(Vec::new());
            for r in &ix {
                w.write_record(r).unwrap();
            }
            w.into_inner()
        };
        let crai_text = {
            // `cram::fs::index` panics on multi-reference slices (finding F15), so the seed index is
            // assembled from the harness's own walk of the file: one entry per reference of the slice
            let lay = super::cramwalk::walk(&cram_gz).expect("seed cram walks");
            let c = &lay.containers[1];
            let sh = c.blocks.iter().find(|b| b.content_type == 2).expect("slice header block");
            let landmark = (sh.start - c.body_start) as u64;
            let slice_len = c.body_len as u64 - landmark;
            let pos = |n: usize| noodles_core::Position::new(n);
            let recs = vec![
                cram::crai::Record::new(Some(0), pos(3), 25, c.start as u64, landmark, slice_len),
                cram::crai::Record::new(Some(1), pos(5), 12, c.start as u64, landmark, slice_len),
                cram::crai::Record::new(None, None, 0, c.start as u64, landmark, slice_len),
            ];
            let mut w = cram::crai::io::Writer::new(Vec::new());
            w.write_index(&recs).unwrap();
            gunzip(&w.finish().unwrap())
        };
        Seeds {
            dir: d,
            bgzf: bgzf_file(),
            bam_file,
            bam_payload,
            bcf_file,
            bcf_payload,
            vcf_gz,
            cram_raw: cram("raw"),
            cram_gz,
            cram_v31: cram("v31"),
            bai,
            csi_payload,
            tbi_payload,
            gzi,
            fai,
            fqfai,
            crai_text,
        }
    }
}

pub fn describe(s: &Seeds) -> String {
    format!(
        "seed sizes: bgzf {} bam {}/{} bcf {}/{} vcf.gz {} cram raw/gz/v31 {}/{}/{} bai {} csi {} tbi {} gzi {} fai {} fqfai {} crai {} (crc {:08x})",
        s.bgzf.len(), s.bam_file.len(), s.bam_payload.len(), s.bcf_file.len(), s.bcf_payload.len(), s.vcf_gz.len(),
        s.cram_raw.len(), s.cram_gz.len(), s.cram_v31.len(), s.bai.len(), s.csi_payload.len(), s.tbi_payload.len(),
        s.gzi.len(), s.fai.len(), s.fqfai.len(), s.crai_text.len(), crc32(&s.bam_payload)
    )
}
