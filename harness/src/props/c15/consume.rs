//! Consumers: feed bytes to the real noodles readers / index readers and, after every `Ok`, touch
//! every field accessor of what was returned and query every index with a few regions.
//! A consumer returns a coarse outcome (`ok…` / `err:…`) for the histogram; panics propagate to
//! the caller's `catch_unwind`.
use super::{st, stb};
use crate::common::errclass;
use noodles_bam as bam;
use noodles_bcf as bcf;
use noodles_bgzf as bgzf;
use noodles_core::{Position, Region};
use noodles_cram as cram;
use noodles_csi::{self as csi, BinningIndex};
use noodles_fasta as fasta;
use noodles_sam as sam;
use noodles_vcf as vcf;
use std::io::{self, BufRead, Cursor, Read};

pub const MAX_RECORDS: usize = 64;

fn cls<T>(r: &io::Result<T>) -> String {
    match r {
        Ok(_) => "ok".into(),
        Err(e) => errclass(e).into(),
    }
}

fn regions(names: &[&str]) -> Vec<Region> {
    let mut out = vec![];
    for n in names {
        for r in [format!("{n}"), format!("{n}:1-10"), format!("{n}:5"), format!("{n}:20-64"), format!("{n}:1-536870911"), format!("{n}:536870912-536870913")] {
            if let Ok(r) = r.parse() {
                out.push(r);
            }
        }
    }
    out
}

// ---------------------------------------------------------------- alignment records

pub fn touch_alignment<R: sam::alignment::Record>(h: &sam::Header, r: &R) {
    use sam::alignment::record::data::field::{value::Array, Value};
    st(|| {
        let _ = r.name();
    });
    st(|| {
        let _ = r.flags();
    });
    st(|| {
        let _ = r.reference_sequence_id(h);
    });
    st(|| {
        let _ = r.alignment_start();
    });
    st(|| {
        let _ = r.mapping_quality();
    });
    st(|| {
        let _ = r.mate_reference_sequence_id(h);
    });
    st(|| {
        let _ = r.mate_alignment_start();
    });
    st(|| {
        let _ = r.template_length();
    });
    st(|| {
        let c = r.cigar();
        let _ = (c.is_empty(), c.len());
        for op in c.iter().take(1 << 20) {
            let _ = op;
        }
        let _ = c.alignment_span();
        let _ = c.read_length();
    });
    st(|| {
        let s = r.sequence();
        let n = s.len();
        let _ = s.is_empty();
        for i in [0, n / 2, n.wrapping_sub(1), n, n.wrapping_add(1)] {
            let _ = s.get(i);
        }
        let mut k = 0usize;
        for b in s.iter().take(1 << 20) {
            k += b as usize;
        }
        std::hint::black_box(k);
    });
    st(|| {
        let q = r.quality_scores();
        let _ = (q.is_empty(), q.len());
        for x in q.iter().take(1 << 20) {
            let _ = x;
        }
    });
    st(|| {
        let d = r.data();
        let _ = d.is_empty();
        for f in d.iter().take(1 << 10) {
            if let Ok((tag, v)) = f {
                let _ = v.ty();
                let _ = v.as_int();
                if let Value::Array(a) = &v {
                    let _ = a.subtype();
                    macro_rules! it {
                        ($x:expr) => {{
                            let _ = $x.len();
                            for e in $x.iter().take(1 << 20) {
                                let _ = e;
                            }
                        }};
                    }
                    match a {
                        Array::Int8(x) => it!(x),
                        Array::UInt8(x) => it!(x),
                        Array::Int16(x) => it!(x),
                        Array::UInt16(x) => it!(x),
                        Array::Int32(x) => it!(x),
                        Array::UInt32(x) => it!(x),
                        Array::Float(x) => it!(x),
                    }
                }
                let _ = d.get(&tag);
            }
        }
        use sam::alignment::record::data::field::Tag;
        let _ = d.get(&Tag::ALIGNMENT_HIT_COUNT);
        let _ = d.get(&Tag::CIGAR);
        let _ = d.get(&Tag::READ_GROUP);
    });
    st(|| {
        let _ = r.reference_sequence(h);
    });
    st(|| {
        let _ = r.mate_reference_sequence(h);
    });
    st(|| {
        let _ = r.alignment_span();
    });
    st(|| {
        let _ = r.alignment_end();
    });
    st(|| {
        let _ = r.cigar_ref();
    });
    st(|| {
        let _ = r.sequence_ref();
    });
    st(|| {
        let _ = r.quality_scores_ref();
    });
    st(|| {
        let _ = r.data_ref();
    });
    // eager conversion and re-serialisation iterate every field again through the trait
    let mut rb = None;
    st(|| rb = Some(sam::alignment::RecordBuf::try_from_alignment_record(h, r)));
    st(|| {
        use sam::alignment::io::Write as _;
        let mut w = sam::io::Writer::new(Vec::new());
        let _ = w.write_alignment_record(h, r);
    });
    st(|| {
        use sam::alignment::io::Write as _;
        let mut w = bam::io::Writer::from(Vec::new());
        let _ = w.write_alignment_record(h, r);
    });
    st(|| {
        use sam::alignment::io::Write as _;
        if let Some(Ok(rb)) = &rb {
            let mut w = sam::io::Writer::new(Vec::new());
            let _ = w.write_alignment_record(h, rb);
        }
    });
}

pub fn sam_text(data: &[u8]) -> String {
    let mut rd = sam::io::Reader::new(data);
    let hr = rd.read_header();
    let out = cls(&hr);
    let h = hr.unwrap_or_default();
    // lazy records
    let mut rec = sam::Record::default();
    let mut n = 0;
    let mut last = "ok".to_string();
    loop {
        match rd.read_record(&mut rec) {
            Ok(0) => break,
            Ok(_) => {
                super::dbg(&rec);
                let _ = rec.reference_sequence_name();
                let _ = rec.mate_reference_sequence_name();
                touch_alignment(&h, &rec);
                n += 1;
            }
            Err(e) => {
                last = errclass(&e).into();
                // a text reader resynchronises at the next line: keep going a little
                n += 1;
            }
        }
        if n > MAX_RECORDS {
            break;
        }
    }
    // eager records on a fresh reader
    st(|| {
        let mut rd = sam::io::Reader::new(data);
        if let Ok(h) = rd.read_header() {
            for r in rd.record_bufs(&h).take(MAX_RECORDS) {
                if let Ok(r) = r {
                    touch_alignment(&h, &r);
                }
            }
        }
    });
    format!("{out}/{last}")
}

pub fn bam_stream<R: Read>(rd: &mut bam::io::Reader<R>) -> String {
    let hr = rd.read_header();
    let out = cls(&hr);
    let Ok(h) = hr else { return out };
    let mut rec = bam::Record::default();
    let mut n = 0;
    let last;
    loop {
        match rd.read_record(&mut rec) {
            Ok(0) => {
                last = "ok".to_string();
                break;
            }
            Ok(_) => {
                super::dbg(&rec);
                touch_alignment(&h, &rec);
                n += 1;
            }
            Err(e) => {
                last = errclass(&e).into();
                break;
            }
        }
        if n > MAX_RECORDS {
            last = "ok".into();
            break;
        }
    }
    format!("{out}/{last}")
}

/// a BAM file (BGZF) — lazy pass, eager pass, and region queries through `index` when given
pub fn bam_file(data: &[u8], index: Option<&bam::bai::Index>) -> String {
    let out = bam_stream(&mut bam::io::Reader::new(data));
    st(|| {
        let mut rd = bam::io::Reader::new(data);
        if let Ok(h) = rd.read_header() {
            let mut rb = sam::alignment::RecordBuf::default();
            let mut n = 0;
            while let Ok(k) = rd.read_record_buf(&h, &mut rb) {
                if k == 0 || n > MAX_RECORDS {
                    break;
                }
                touch_alignment(&h, &rb);
                n += 1;
            }
        }
    });
    if let Some(ix) = index {
        st(|| bam_queries(data, ix));
    }
    out
}

pub fn bam_queries<I: BinningIndex>(data: &[u8], ix: &I) {
    let mut rd = bam::io::Reader::new(Cursor::new(data));
    let Ok(h) = rd.read_header() else { return };
    for region in regions(&["sq0", "sq1", "nope"]) {
        // a panic inside the reader ends the use of this reader
        if !stb(|| {
            if let Ok(q) = rd.query(&h, ix, &region) {
                for r in q.records().take(MAX_RECORDS) {
                    if let Ok(r) = r {
                        touch_alignment(&h, &r);
                    }
                }
            }
        }) {
            return;
        }
    }
    if let Ok(q) = rd.query_unmapped(ix) {
        for r in q.take(MAX_RECORDS) {
            if let Ok(r) = r {
                touch_alignment(&h, &r);
            }
        }
    }
}

// ---------------------------------------------------------------- variant records

pub fn touch_variant<R: vcf::variant::Record>(h: &vcf::Header, r: &R) {
    use vcf::variant::record_buf as vb;
    st(|| {
        let _ = r.reference_sequence_name(h);
    });
    st(|| {
        let _ = r.variant_start();
    });
    st(|| {
        let x = r.ids();
        let _ = (x.is_empty(), x.len());
        for i in x.iter().take(1 << 10) {
            let _ = i;
        }
    });
    st(|| {
        let x = r.reference_bases();
        let _ = (x.is_empty(), x.len());
        for b in x.iter().take(1 << 20) {
            let _ = b;
        }
    });
    st(|| {
        let x = r.alternate_bases();
        let _ = (x.is_empty(), x.len());
        for b in x.iter().take(1 << 10) {
            let _ = b;
        }
    });
    st(|| {
        let _ = r.quality_score();
    });
    st(|| {
        let x = r.filters();
        let _ = (x.is_empty(), x.len());
        for f in x.iter(h).take(1 << 10) {
            let _ = f;
        }
        let _ = x.is_pass(h);
    });
    st(|| {
        let x = r.info();
        let _ = (x.is_empty(), x.len());
        for f in x.iter(h).take(1 << 10) {
            if let Ok((_, Some(v))) = f {
                let _ = vb::info::field::Value::try_from(v);
            }
        }
        for k in h.infos().keys() {
            if let Some(Ok(Some(v))) = x.get(h, k) {
                let _ = vb::info::field::Value::try_from(v);
            }
        }
        let _ = x.get(h, "nope");
    });
    let mut samples = None;
    st(|| samples = r.samples().ok());
    if let Some(s) = &samples {
        let mut n = 0;
        st(|| {
            n = s.len();
            let _ = s.is_empty();
            for c in s.column_names(h).take(1 << 9) {
                let _ = c;
            }
        });
        let mut k = 0;
        loop {
            // one stage per series, so that a defect in one column does not hide the next
            let mut more = false;
            st(|| {
                if let Some(series) = s.series().nth(k) {
                    more = true;
                    if let Ok(series) = series {
                        st(|| {
                            let _ = series.name(h);
                        });
                        st(|| {
                            for v in series.iter(h).take(1 << 10) {
                                if let Ok(Some(v)) = v {
                                    let _ = vb::samples::sample::Value::try_from(v);
                                }
                            }
                        });
                        for i in [0, 1, n.wrapping_sub(1), n, n.wrapping_add(1)] {
                            st(|| {
                                if let Some(Some(Ok(v))) = series.get(h, i) {
                                    let _ = vb::samples::sample::Value::try_from(v);
                                }
                            });
                        }
                    }
                }
            });
            k += 1;
            if !more || k > 64 {
                break;
            }
        }
        for k in h.formats().keys() {
            st(|| {
                if let Some(Ok(series)) = s.select(h, k) {
                    for v in series.iter(h).take(1 << 10) {
                        let _ = v;
                    }
                }
            });
        }
        st(|| {
            for sample in s.iter().take(1 << 9) {
                st(|| {
                    for v in sample.iter(h).take(1 << 9) {
                        if let Ok((_, Some(v))) = v {
                            let _ = vb::samples::sample::Value::try_from(v);
                        }
                    }
                });
                for k in h.formats().keys() {
                    st(|| {
                        let _ = sample.get(h, k);
                    });
                }
                for i in 0..8 {
                    st(|| {
                        let _ = sample.get_index(h, i);
                    });
                }
            }
        });
    }
    st(|| {
        let _ = r.variant_span(h);
    });
    st(|| {
        let _ = r.variant_end(h);
    });
    let mut rb = None;
    st(|| rb = Some(vcf::variant::RecordBuf::try_from_variant_record(h, r)));
    st(|| {
        use vcf::variant::io::Write as _;
        let mut w = vcf::io::Writer::new(Vec::new());
        let _ = w.write_variant_record(h, r);
    });
    st(|| {
        use vcf::variant::io::Write as _;
        if let Some(Ok(rb)) = &rb {
            let mut w = vcf::io::Writer::new(Vec::new());
            let _ = w.write_variant_record(h, rb);
            let mut w = bcf::io::Writer::from(Vec::new());
            let _ = w.write_variant_record(h, rb);
        }
    });
}

pub fn vcf_stream<R: BufRead>(rd: &mut vcf::io::Reader<R>) -> String {
    let hr = rd.read_header();
    let out = cls(&hr);
    let h = hr.unwrap_or_default();
    let mut rec = vcf::Record::default();
    let mut n = 0;
    let mut last = "ok".to_string();
    loop {
        match rd.read_record(&mut rec) {
            Ok(0) => break,
            Ok(_) => {
                super::dbg(&rec);
                // the inherent lazy accessors
                let _ = rec.reference_sequence_name();
                let _ = rec.reference_bases();
                let s = rec.samples();
                let _ = s.is_empty();
                for k in s.keys().iter().take(64) {
                    let _ = k;
                }
                let _ = s.get_index(0);
                let _ = s.get(&h, "s0");
                let _ = s.select("GT");
                touch_variant(&h, &rec);
                n += 1;
            }
            Err(e) => {
                last = errclass(&e).into();
                n += 1;
            }
        }
        if n > MAX_RECORDS {
            break;
        }
    }
    format!("{out}/{last}")
}

pub fn vcf_text(data: &[u8]) -> String {
    let out = vcf_stream(&mut vcf::io::Reader::new(data));
    st(|| {
        let mut rd = vcf::io::Reader::new(data);
        if let Ok(h) = rd.read_header() {
            for r in rd.record_bufs(&h).take(MAX_RECORDS) {
                if let Ok(r) = r {
                    touch_variant(&h, &r);
                }
            }
        }
    });
    out
}

pub fn vcf_gz(data: &[u8], index: Option<&noodles_tabix::Index>) -> String {
    let out = vcf_stream(&mut vcf::io::Reader::new(bgzf::io::Reader::new(data)));
    if let Some(ix) = index {
        let mut rd = vcf::io::Reader::new(bgzf::io::Reader::new(Cursor::new(data)));
        if let Ok(h) = rd.read_header() {
            for region in regions(&["sq0", "sq1", "nope"]) {
                if let Ok(q) = rd.query(&h, ix, &region) {
                    for r in q.records().take(MAX_RECORDS) {
                        if let Ok(r) = r {
                            touch_variant(&h, &r);
                        }
                    }
                }
            }
        }
    }
    out
}

fn touch_bcf_record(h: &vcf::Header, rec: &bcf::Record) {
    super::dbg(&rec);
    st(|| {
        let _ = rec.reference_sequence_id();
    });
    st(|| {
        let _ = rec.reference_sequence_name(h.string_maps());
    });
    st(|| {
        let _ = rec.variant_start();
    });
    st(|| {
        let _ = rec.end();
    });
    st(|| {
        let _ = rec.quality_score();
    });
    st(|| {
        let _ = rec.ids();
    });
    st(|| {
        let _ = rec.reference_bases();
    });
    st(|| {
        let _ = rec.alternate_bases();
    });
    st(|| {
        let _ = rec.filters();
    });
    st(|| {
        let info = rec.info();
        for k in h.infos().keys() {
            st(|| {
                let _ = info.get(h, k);
            });
        }
    });
    let mut samples = None;
    st(|| samples = rec.samples().ok());
    if let Some(s) = &samples {
        st(|| {
            let _ = s.format_count();
            let _ = s.get(h, "s0");
            let _ = s.get_index(0);
            let _ = s.get_index(1 << 20);
        });
        for k in h.formats().keys() {
            st(|| {
                let _ = s.select(h, k);
            });
        }
        let mut n = 0;
        st(|| {
            use vcf::variant::record::Samples as _;
            n = s.len();
        });
        let mut k = 0;
        loop {
            let mut more = false;
            st(|| {
                if let Some(series) = s.series().nth(k) {
                    more = true;
                    if let Ok(series) = series {
                        st(|| {
                            let _ = series.name(h);
                        });
                        for i in (0..n.min(64)).chain([n, n.wrapping_add(1)]) {
                            st(|| {
                                let _ = series.get(h, i);
                            });
                        }
                    }
                }
            });
            k += 1;
            if !more || k > 64 {
                break;
            }
        }
        st(|| {
            for sample in s.iter().take(64) {
                let _ = sample;
            }
        });
    }
    touch_variant(h, rec);
}

pub fn bcf_stream<R: Read>(rd: &mut bcf::io::Reader<R>) -> String {
    let hr = rd.read_header();
    let out = cls(&hr);
    let Ok(h) = hr else { return out };
    let mut rec = bcf::Record::default();
    let mut n = 0;
    let last;
    loop {
        match rd.read_record(&mut rec) {
            Ok(0) => {
                last = "ok".to_string();
                break;
            }
            Ok(_) => {
                touch_bcf_record(&h, &rec);
                n += 1;
            }
            Err(e) => {
                last = errclass(&e).into();
                break;
            }
        }
        if n > MAX_RECORDS {
            last = "ok".into();
            break;
        }
    }
    format!("{out}/{last}")
}

pub fn bcf_file(data: &[u8], index: Option<&csi::Index>) -> String {
    let out = bcf_stream(&mut bcf::io::Reader::new(data));
    st(|| {
        let mut rd = bcf::io::Reader::new(data);
        if let Ok(h) = rd.read_header() {
            let mut rb = vcf::variant::RecordBuf::default();
            let mut n = 0;
            while let Ok(k) = rd.read_record_buf(&h, &mut rb) {
                if k == 0 || n > MAX_RECORDS {
                    break;
                }
                touch_variant(&h, &rb);
                n += 1;
            }
        }
    });
    if let Some(ix) = index {
        st(|| bcf_queries(data, ix));
    }
    out
}

pub fn bcf_queries<I: BinningIndex>(data: &[u8], ix: &I) {
    let mut rd = bcf::io::Reader::new(Cursor::new(data));
    let Ok(h) = rd.read_header() else { return };
    for region in regions(&["sq0", "sq1", "nope"]) {
        if !stb(|| {
            if let Ok(q) = rd.query(&h, ix, &region) {
                for r in q.records().take(MAX_RECORDS) {
                    if let Ok(r) = r {
                        touch_bcf_record(&h, &r);
                    }
                }
            }
        }) {
            return;
        }
    }
}

// ---------------------------------------------------------------- BGZF

pub fn bgzf_file(data: &[u8], gzi: Option<&bgzf::gzi::Index>) -> String {
    use bgzf::io::Seek as _;
    let mut rd = bgzf::io::Reader::new(data);
    let mut out = vec![];
    let r = rd.read_to_end(&mut out);
    let res = cls(&r);
    let _ = rd.virtual_position();
    // seeks to a few virtual positions, then reads
    let mut rd = bgzf::io::Reader::new(Cursor::new(data));
    for (c, u) in [(0u64, 0u16), (0, 5), (0, 65535), (28, 0), (data.len() as u64, 0), (data.len() as u64 / 2, 1), (1 << 40, 0)] {
        if let Ok(vp) = bgzf::VirtualPosition::try_from((c, u)) {
            let _ = rd.seek_to_virtual_position(vp);
            let mut b = [0u8; 16];
            let _ = rd.read(&mut b);
            let _ = rd.read_exact(&mut b);
            let _ = rd.fill_buf().map(|b| b.len());
            let _ = rd.virtual_position();
            let mut big = vec![0u8; 70000];
            let _ = rd.read(&mut big);
        }
    }
    if let Some(ix) = gzi {
        let mut rd = bgzf::io::IndexedReader::new(Cursor::new(data), ix.clone());
        for p in [0u64, 1, 33, 34, 80, 1000, 65536, 1 << 33, u64::MAX] {
            let _ = io::Seek::seek(&mut rd, io::SeekFrom::Start(p));
            let mut b = [0u8; 8];
            let _ = rd.read(&mut b);
        }
    }
    // lines
    let mut rd = bgzf::io::Reader::new(data);
    let mut line = String::new();
    for _ in 0..8 {
        line.clear();
        if !matches!(rd.read_line(&mut line), Ok(n) if n > 0) {
            break;
        }
    }
    res
}

pub fn bgzf_mt(data: &[u8]) -> String {
    let mut rd = bgzf::io::MultithreadedReader::with_worker_count(std::num::NonZero::new(2).unwrap(), Cursor::new(data.to_vec()));
    let mut out = vec![];
    let r = rd.read_to_end(&mut out);
    cls(&r)
}

// ---------------------------------------------------------------- CRAM

pub fn cram_file(data: &[u8], repo: &fasta::Repository, crai: Option<&cram::crai::Index>) -> String {
    let mut rd = cram::io::reader::Builder::default().set_reference_sequence_repository(repo.clone()).build_from_reader(data);
    let hr = rd.read_header();
    let out = cls(&hr);
    let Ok(h) = hr else { return out };
    let mut last = "ok".to_string();
    for r in rd.records(&h).take(MAX_RECORDS) {
        match r {
            Ok(r) => touch_alignment(&h, &r),
            Err(e) => {
                last = errclass(&e).into();
                break;
            }
        }
    }
    // container level
    st(|| {
    let mut rd = cram::io::Reader::new(data);
    if rd.read_header().is_ok() {
        let mut c = cram::io::reader::Container::default();
        let mut n = 0;
        while let Ok(k) = rd.read_container(&mut c) {
            if k == 0 || n > 16 {
                break;
            }
            n += 1;
            st(|| super::dbg(c.header()));
            let mut ch = None;
            st(|| ch = c.compression_header().ok());
            let Some(ch) = ch else { continue };
            st(|| super::dbg(&ch));
            let mut k = 0;
            loop {
                let mut more = false;
                st(|| {
                    if let Some(slice) = c.slices().nth(k) {
                        more = true;
                        let Ok(slice) = slice else { return };
                        let Ok((core, ext)) = slice.decode_blocks() else { return };
                        if let Ok(recs) = slice.records(repo.clone(), &h, &ch, &core, &ext) {
                            for r in recs.iter().take(MAX_RECORDS) {
                                st(|| super::dbg(&r));
                                touch_alignment(&h, r);
                            }
                        }
                    }
                });
                k += 1;
                if !more || k > 64 {
                    break;
                }
            }
        }
    }
    });
    if let Some(ix) = crai {
        st(|| {
        let mut rd = cram::io::reader::Builder::default().set_reference_sequence_repository(repo.clone()).build_from_reader(Cursor::new(data));
        if let Ok(h) = rd.read_header() {
            for region in regions(&["sq0", "sq1", "nope"]) {
                if let Ok(q) = rd.query(&h, ix, &region) {
                    for r in q.records().take(MAX_RECORDS) {
                        if let Ok(r) = r {
                            touch_alignment(&h, &r);
                        }
                    }
                }
            }
            if let Ok(q) = rd.query_unmapped(&h, ix) {
                for r in q.take(MAX_RECORDS) {
                    let _ = r;
                }
            }
        }
        });
    }
    format!("{out}/{last}")
}

// ---------------------------------------------------------------- FASTA / FASTQ

pub fn fasta_text(data: &[u8], fai: Option<&fasta::fai::Index>) -> String {
    let mut rd = fasta::io::Reader::new(data);
    let mut last = "ok".to_string();
    for r in rd.records().take(MAX_RECORDS) {
        match r {
            Ok(r) => {
                let _ = (r.name(), r.description(), r.sequence().len());
                let s = r.sequence();
                let _ = s.get(Position::MIN);
                let _ = s.as_ref().len();
                if let (Some(a), Some(b)) = (Position::new(2), Position::new(5)) {
                    let _ = s.slice(a..=b);
                    let _ = s.get(a..=b);
                }
                super::dbg(&r);
            }
            Err(e) => {
                last = errclass(&e).into();
                break;
            }
        }
    }
    // definition / sequence calls interleaved
    st(|| {
    let mut rd = fasta::io::Reader::new(data);
    let mut def = fasta::record::Definition::new("", None);
    let mut seq = Vec::new();
    for _ in 0..MAX_RECORDS {
        seq.clear();
        match rd.read_definition(&mut def) {
            Ok(0) | Err(_) => break,
            Ok(_) => {}
        }
        if rd.read_sequence(&mut seq).is_err() {
            break;
        }
    }
    });
    // the indexer
    st(|| {
    let mut ixr = fasta::io::Indexer::new(data);
    for _ in 0..MAX_RECORDS {
        match ixr.index_record() {
            Ok(Some(r)) => {
                super::dbg(&r);
            }
            _ => break,
        }
    }
    });
    if let Some(ix) = fai {
        st(|| fasta_queries(data, ix));
    }
    last
}

pub fn fasta_queries(data: &[u8], ix: &fasta::fai::Index) {
    for r in ix.as_ref().iter().take(MAX_RECORDS) {
        let _ = (r.name(), r.length(), r.offset(), r.line_bases(), r.line_width());
        super::dbg(&r);
    }
    let mut rd = fasta::io::Reader::new(Cursor::new(data));
    for region in regions(&["sq0", "sq1", "sq2", "nope"]) {
        st(|| {
            let _ = ix.query(&region);
        });
        if !stb(|| {
            if let Ok(r) = rd.query(ix, &region) {
                let _ = r.sequence().len();
            }
        }) {
            break;
        }
    }
    let mut rd = fasta::io::IndexedReader::new(Cursor::new(data), ix.clone());
    for region in regions(&["sq0", "sq2"]) {
        let _ = rd.query(&region);
    }
}

pub fn fastq_text(data: &[u8]) -> String {
    let mut rd = noodles_fastq::io::Reader::new(data);
    let mut last = "ok".to_string();
    for r in rd.records().take(MAX_RECORDS) {
        match r {
            Ok(r) => {
                let _ = (r.name(), r.description(), r.sequence().len(), r.quality_scores().len());
                super::dbg(&r);
            }
            Err(e) => {
                last = errclass(&e).into();
                break;
            }
        }
    }
    let mut ixr = noodles_fastq::io::Indexer::new(data);
    for _ in 0..MAX_RECORDS {
        match ixr.index_record() {
            Ok(Some(r)) => {
                super::dbg(&r);
            }
            _ => break,
        }
    }
    last
}

// ---------------------------------------------------------------- GFF / GTF / BED

pub fn gff_text(data: &[u8]) -> String {
    let mut rd = noodles_gff::io::Reader::new(data);
    let mut line = noodles_gff::Line::default();
    let mut last = "ok".to_string();
    let mut n = 0;
    loop {
        match rd.read_line(&mut line) {
            Ok(0) => break,
            Ok(_) => {
                let _ = line.kind();
                if let Some(d) = line.as_directive() {
                    let _ = (d.key(), d.value());
                }
                let _ = line.as_comment();
                if let Some(Ok(r)) = line.as_record() {
                    let _ = (r.reference_sequence_name(), r.source(), r.ty(), r.start(), r.end(), r.score(), r.strand(), r.phase());
                    let a = r.attributes();
                    let _ = a.is_empty();
                    for f in a.iter().take(1 << 9) {
                        if let Ok((_, v)) = f {
                            super::dbg(&v);
                            let _ = AsRef::<bstr::BStr>::as_ref(&v).len();
                            let fv = noodles_gff::feature::record::attributes::field::Value::from(v);
                            for x in fv.iter().take(1 << 9) {
                                let _ = x;
                            }
                        }
                    }
                    let _ = a.get(b"ID");
                    let _ = a.get(b"Parent");
                    super::dbg(&r);
                }
            }
            Err(e) => {
                last = errclass(&e).into();
                break;
            }
        }
        n += 1;
        if n > MAX_RECORDS {
            break;
        }
    }
    let mut rd = noodles_gff::io::Reader::new(data);
    for l in rd.line_bufs().take(MAX_RECORDS) {
        let _ = l;
    }
    let mut rd = noodles_gff::io::Reader::new(data);
    for l in rd.record_bufs().take(MAX_RECORDS) {
        if let Ok(r) = l {
            let mut w = noodles_gff::io::Writer::new(Vec::new());
            let _ = w.write_record(&r);
        }
    }
    last
}

pub fn gtf_text(data: &[u8]) -> String {
    let mut rd = noodles_gtf::io::Reader::new(data);
    let mut line = noodles_gtf::Line::default();
    let mut last = "ok".to_string();
    let mut n = 0;
    loop {
        match rd.read_line(&mut line) {
            Ok(0) => break,
            Ok(_) => {
                let _ = line.kind();
                let _ = line.as_comment();
                if let Some(Ok(r)) = line.as_record() {
                    let _ = (r.reference_sequence_name(), r.source(), r.ty(), r.start(), r.end(), r.score(), r.strand(), r.phase());
                    if let Ok(a) = r.attributes() {
                        let _ = a.is_empty();
                        for f in a.iter().take(1 << 9) {
                            if let Ok((_, v)) = f {
                                super::dbg(&v);
                            }
                        }
                        let _ = a.get(b"gene_id");
                    }
                    super::dbg(&r);
                }
            }
            Err(e) => {
                last = errclass(&e).into();
                break;
            }
        }
        n += 1;
        if n > MAX_RECORDS {
            break;
        }
    }
    let mut rd = noodles_gtf::io::Reader::new(data);
    for l in rd.record_bufs().take(MAX_RECORDS) {
        if let Ok(r) = l {
            let mut w = noodles_gtf::io::Writer::new(Vec::new());
            let _ = w.write_record(&r);
        }
    }
    let mut rd = noodles_gtf::io::Reader::new(data);
    for l in rd.line_bufs().take(MAX_RECORDS) {
        let _ = l;
    }
    last
}

pub fn bed_text(data: &[u8]) -> String {
    let mut last = "ok".to_string();
    macro_rules! pass {
        ($n:literal, $touch:expr) => {{
            let mut rd = noodles_bed::io::Reader::<$n, _>::new(data);
            let mut rec = noodles_bed::Record::<$n>::default();
            let mut n = 0;
            loop {
                match rd.read_record(&mut rec) {
                    Ok(0) => break,
                    Ok(_) => {
                        let _ = (rec.reference_sequence_name(), rec.feature_start(), rec.feature_end());
                        let o = rec.other_fields();
                        let _ = (o.is_empty(), o.len(), o.get(0), o.get(100));
                        for f in o.iter().take(64) {
                            let _ = f;
                        }
                        super::dbg(&rec);
                        $touch(&rec);
                    }
                    Err(e) => {
                        last = errclass(&e).into();
                        n += 1;
                    }
                }
                n += 1;
                if n > MAX_RECORDS {
                    break;
                }
            }
        }};
    }
    pass!(3, |_r: &noodles_bed::Record<3>| {});
    pass!(4, |r: &noodles_bed::Record<4>| {
        let _ = r.name();
    });
    pass!(5, |r: &noodles_bed::Record<5>| {
        let _ = (r.name(), r.score());
    });
    pass!(6, |r: &noodles_bed::Record<6>| {
        let _ = (r.name(), r.score(), r.strand());
    });
    last
}

// ---------------------------------------------------------------- indexes

pub fn touch_binning_index<I: BinningIndex>(ix: &I) {
    touch_binning_index_with(ix, true)
}

/// `whole = false`: no whole-reference query on a deep index (see below)
pub fn touch_binning_index_with<I: BinningIndex>(ix: &I, whole: bool) {
    let _ = (ix.min_shift(), ix.depth(), ix.unplaced_unmapped_record_count(), ix.last_first_record_start_position());
    if let Some(h) = ix.header() {
        let _ = (h.format(), h.reference_sequence_name_index(), h.start_position_index(), h.end_position_index(), h.line_comment_prefix(), h.line_skip_count());
        for n in h.reference_sequence_names().iter().take(1 << 9) {
            let _ = n;
        }
    }
    let mut nref = 0;
    for rs in ix.reference_sequences().take(1 << 9) {
        if let Some(m) = rs.metadata() {
            let _ = (m.start_position(), m.end_position(), m.mapped_record_count(), m.unmapped_record_count());
        }
        nref += 1;
    }
    let intervals: Vec<noodles_core::region::Interval> = ["1-10", "5", "1", "16384-16385", "1-536870911", "536870911-536870912", "4294967296-4294967297", "1-1152921504606846975"]
        .iter()
        .filter_map(|s| s.parse().ok())
        .chain([(..).into()])
        .collect();
    // a query costs O(8^depth) (a bit per bin of the geometry): at depth 9 and 10 — valid
    // geometries — ONE whole-reference query takes 0.3 s / 3 s. The watchdog times a whole case,
    // so a deep index gets one small and at most one whole-reference query instead of ~50.
    if ix.depth() >= 9 {
        st(|| {
            let _ = ix.query(0, intervals[0]);
        });
        if whole {
            st(|| {
                let _ = ix.query(0, (..).into());
            });
        }
        st(|| {
            let _ = ix.query(nref, intervals[0]);
        });
        return;
    }
    for id in (0..nref.min(4)).chain([nref, usize::MAX]) {
        for iv in &intervals {
            st(|| {
                let _ = ix.query(id, *iv);
            });
        }
    }
}

fn touch_index_refs<I: csi::binning_index::index::reference_sequence::Index>(ix: &csi::binning_index::Index<I>) {
    for rs in ix.reference_sequences().iter().take(1 << 9) {
        for (id, b) in rs.bins().iter().take(1 << 9) {
            let _ = (id, b.chunks().len());
        }
        let _ = rs.first_record_in_last_linear_bin_start_position();
        if let (Some(a), Some(b)) = (Position::new(1), Position::new(100)) {
            st(|| {
                let _ = rs.query(ix.min_shift(), ix.depth(), a..=b);
            });
            st(|| {
                let _ = rs.min_offset(ix.min_shift(), ix.depth(), b);
            });
        }
    }
}

pub fn bai_bytes(data: &[u8], bam: Option<&[u8]>) -> String {
    let r = bam::bai::io::Reader::new(data).read_index();
    let out = cls(&r);
    if let Ok(ix) = r {
        st(|| touch_binning_index(&ix));
        st(|| touch_index_refs(&ix));
        let mut w = bam::bai::io::Writer::new(Vec::new());
        let _ = w.write_index(&ix);
        if let Some(b) = bam {
            st(|| bam_queries(b, &ix));
        }
    }
    out
}

pub fn csi_bytes(data: &[u8], bcf: Option<&[u8]>, bam: Option<&[u8]>) -> String {
    let r = csi::io::Reader::new(data).read_index();
    let out = cls(&r);
    if let Ok(ix) = r {
        st(|| touch_binning_index(&ix));
        st(|| touch_index_refs(&ix));
        let mut w = csi::io::Writer::new(Vec::new());
        let _ = w.write_index(&ix);
        // (file queries repeat ~20 region queries; skipped for the slow deep geometries, see above)
        if ix.depth() < 9 {
            if let Some(b) = bcf {
                st(|| bcf_queries(b, &ix));
            }
            if let Some(b) = bam {
                st(|| bam_queries(b, &ix));
            }
        }
    }
    out
}

pub fn tbi_bytes(data: &[u8], vcfgz: Option<&[u8]>) -> String {
    let r = noodles_tabix::io::Reader::new(data).read_index();
    let out = cls(&r);
    if let Ok(ix) = r {
        st(|| touch_binning_index(&ix));
        st(|| touch_index_refs(&ix));
        let mut w = noodles_tabix::io::Writer::new(Vec::new());
        let _ = w.write_index(&ix);
        if let Some(v) = vcfgz {
            let _ = vcf_gz(v, Some(&ix));
            // the generic csi query reader over the same file
            let mut rd = csi::io::IndexedReader::new(Cursor::new(v), ix.clone());
            for region in regions(&["sq0", "sq1", "nope"]) {
                if let Ok(q) = rd.query(&region) {
                    for rec in q.take(MAX_RECORDS) {
                        if let Ok(rec) = rec {
                            let _ = rec.as_ref().len();
                        }
                    }
                }
            }
        }
    }
    out
}

pub fn gzi_bytes(data: &[u8], bgzf_file_bytes: Option<&[u8]>) -> String {
    let r = bgzf::gzi::io::Reader::new(data).read_index();
    let out = cls(&r);
    if let Ok(ix) = r {
        for p in [0u64, 1, 100, 65535, 65536, 1 << 20, 1 << 40, u64::MAX - 1, u64::MAX] {
            let _ = ix.query(p);
        }
        let _ = ix.as_ref().len();
        if let Some(f) = bgzf_file_bytes {
            let _ = bgzf_file(f, Some(&ix));
        }
    }
    out
}

pub fn fai_bytes(data: &[u8], fa: Option<&[u8]>) -> String {
    let r = fasta::fai::io::Reader::new(data).read_index();
    let out = cls(&r);
    if let Ok(ix) = r {
        fasta_queries(fa.unwrap_or(b""), &ix);
        let mut w = fasta::fai::io::Writer::new(Vec::new());
        let _ = w.write_index(&ix);
    }
    out
}

pub fn fqfai_bytes(data: &[u8]) -> String {
    let mut rd = noodles_fastq::fai::io::Reader::new(data);
    let mut out = "ok".to_string();
    let mut line = String::new();
    for _ in 0..MAX_RECORDS {
        line.clear();
        match rd.read_record(&mut line) {
            Ok(0) => break,
            Ok(_) => {
                if let Ok(r) = line.parse::<noodles_fastq::fai::Record>() {
                    let _ = (r.name(), r.length(), r.sequence_offset(), r.line_bases(), r.line_width(), r.quality_scores_offset());
                    super::dbg(&r);
                }
            }
            Err(e) => {
                out = errclass(&e).into();
                break;
            }
        }
    }
    out
}

/// `data` is the gzip-compressed crai
pub fn crai_bytes(data: &[u8], cram_file_bytes: Option<(&[u8], &fasta::Repository)>) -> String {
    let r = cram::crai::io::Reader::new(data).read_index();
    let out = cls(&r);
    if let Ok(ix) = r {
        for r in ix.iter().take(1 << 9) {
            let _ = (r.reference_sequence_id(), r.alignment_start(), r.alignment_span(), r.offset(), r.landmark(), r.slice_length());
            super::dbg(&r);
        }
        if let Some((c, repo)) = cram_file_bytes {
            let _ = cram_file(c, repo, Some(&ix));
        }
    }
    out
}
