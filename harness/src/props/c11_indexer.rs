//! C11, the FASTA indexer call by call — `fasta::io::Indexer` (`index_record`, `read_definition`,
//! `consume_sequence_line`, `is_last_sequence_line`) over `BufRead`s whose `fill_buf` windows end
//! anywhere.
//!
//! Correspondence (suite `c11`, request word `idx`; Lean side `lean/Noodles/Fasta/IndexerSched.lean`,
//! `DriverC11Indexer.lean`): the real indexer runs over a RECORDING `BufRead` wrapper around
//!   whole      `&[u8]` (one window = everything that remains)
//!   cap<N>     `BufReader::with_capacity(N, &[u8])`, N in {1,2,3,5,8,64}
//!   sched      `BufReader` of a random capacity over `adversary::SchedReader` (short reads,
//!              `Interrupted`, splits at / around line ends)
//!   bgzf       `bgzf::io::Reader` over members cut at random places / around line ends, with empty
//!              members
//!   percall    a `BufRead` that returns a fresh random-length prefix of the unread bytes on EVERY
//!              `fill_buf` call (and `Interrupted` now and then) — the full generality of the model
//! The recorder writes down the length of every slice `fill_buf` returned and every `Interrupted`;
//! the request is `c11 idx <that schedule + 3 spare entries> <file hex>`, the answer the index
//! (`name:length:offset:line_bases:line_width,…`) + ` left=3`, or the `IndexError` with its payload
//! (read off its `Display` text: `E:empty:<offset>`, `E:bases:<actual>:<expected>`,
//! `E:width:<actual>:<expected>`) or the `io::Error` class. The model must give the same answer AND
//! make exactly as many `fill_buf` calls (`left=3`). For the whole-buffer route the file is also sent
//! with the empty schedule `-` (the model's own whole-buffer windows, `left=0`); the two Lean
//! negation witnesses are sent with their schedule `1x20` literally (`witness_case`).
//!
//! Oracle (real code only; `clean` = no `>` and no CR other than a line terminator on any
//! non-definition line — the alphabet assumption of C11):
//!   indexer-schedule-dependent  clean file: every route answers exactly as the whole-buffer route
//!                               (index or error, payload included)
//!   indexer-wrong-base          clean accepted file, every route: one index record per naive record,
//!                               same name and length, and `file[offset + p / line_bases * line_width
//!                               + p % line_bases]` is the p-th naive base for EVERY p
//!   indexer-accepts-ragged      clean file whose raw sequence lines are not uniform: every route
//!                               returns an error
//!   records-not-naive           clean file, every route: `Reader::records()` (read_definition +
//!                               read_sequence = read_to_end over the sequence reader), when it
//!                               succeeds, yields exactly the naive (name, concatenated sequence
//!                               lines) — the statement of `records_any_buffer_concat_lines`, also
//!                               through bgzf and the per-call reader
//!   records-schedule-dependent  clean file: every route answers as the whole-buffer route
//!   panic                       any panic
//! Files that are not clean are compared with the model only; when their answers differ between
//! routes the histogram counts `unclean_schedule_dependent` (known finding F33-C12; Lean witnesses
//! `idx_cr_edge_witness`, `idx_gt_edge_witness`).
use super::c01::{stored_member, EOF};
use super::c11::{gen_file, naive_parse};
use crate::adversary::{schedule, SchedReader};
use crate::common::*;
use noodles_bgzf as bgzf;
use noodles_fasta as fasta;
use std::cell::RefCell;
use std::io::{self, BufRead, BufReader, Cursor, Read};
use std::rc::Rc;

#[derive(Clone, Copy, PartialEq, Debug)]
enum Ev {
    Win(usize),
    Intr,
}

type Log = Rc<RefCell<Vec<Ev>>>;

/// records what every `fill_buf` call returned
struct Recorder<R> {
    inner: R,
    log: Log,
}

/// shape of a window, for the histogram (which branches of the window loops can be taken)
fn win_kind(s: &[u8]) -> &'static str {
    if s.is_empty() {
        "empty"
    } else if s[0] == b'>' {
        "starts-with-gt"
    } else if s[0] == b'\n' {
        "starts-with-lf"
    } else if s.contains(&b'\n') {
        "has-lf"
    } else if s.ends_with(b"\r") {
        "no-lf-ends-with-cr"
    } else {
        "no-lf"
    }
}

thread_local! {
    static WIN_KINDS: RefCell<std::collections::BTreeMap<&'static str, u64>> = RefCell::new(Default::default());
}

impl<R: BufRead> Read for Recorder<R> {
    fn read(&mut self, buf: &mut [u8]) -> io::Result<usize> {
        // not used by the indexer; routed through fill_buf / consume so that it would be recorded
        let n = {
            let src = self.fill_buf()?;
            let n = src.len().min(buf.len());
            buf[..n].copy_from_slice(&src[..n]);
            n
        };
        self.consume(n);
        Ok(n)
    }
}

impl<R: BufRead> BufRead for Recorder<R> {
    fn fill_buf(&mut self) -> io::Result<&[u8]> {
        match self.inner.fill_buf() {
            Ok(s) => {
                self.log.borrow_mut().push(Ev::Win(s.len()));
                WIN_KINDS.with(|k| *k.borrow_mut().entry(win_kind(s)).or_insert(0) += 1);
                Ok(s)
            }
            Err(e) => {
                if e.kind() == io::ErrorKind::Interrupted {
                    self.log.borrow_mut().push(Ev::Intr);
                }
                Err(e)
            }
        }
    }
    fn consume(&mut self, n: usize) {
        self.inner.consume(n)
    }
}

/// a `BufRead` that decides anew on every `fill_buf` call how much of the unread data to show
struct PerCall {
    data: Vec<u8>,
    pos: usize,
    rng: Rng,
    maxw: u64,
    intr: u64,
}

impl Read for PerCall {
    fn read(&mut self, buf: &mut [u8]) -> io::Result<usize> {
        let n = buf.len().min(self.data.len() - self.pos);
        buf[..n].copy_from_slice(&self.data[self.pos..self.pos + n]);
        self.pos += n;
        Ok(n)
    }
}

impl BufRead for PerCall {
    fn fill_buf(&mut self) -> io::Result<&[u8]> {
        if self.intr > 0 && self.rng.chance(1, 6) {
            self.intr -= 1;
            return Err(io::Error::from(io::ErrorKind::Interrupted));
        }
        let rem = self.data.len() - self.pos;
        let n = (1 + self.rng.below(self.maxw) as usize).min(rem);
        Ok(&self.data[self.pos..self.pos + n])
    }
    fn consume(&mut self, n: usize) {
        self.pos = (self.pos + n).min(self.data.len());
    }
}

fn fmt_sched(log: &[Ev]) -> String {
    let mut out: Vec<String> = vec![];
    let mut i = 0;
    while i < log.len() {
        let mut j = i;
        while j < log.len() && log[j] == log[i] {
            j += 1;
        }
        let t = match log[i] {
            Ev::Win(n) => n.to_string(),
            Ev::Intr => "i".into(),
        };
        out.push(if j - i > 1 { format!("{t}x{}", j - i) } else { t });
        i = j;
    }
    out.push("1x3".into());
    out.join(",")
}

type Answer = Result<Vec<fasta::fai::Record>, String>;

/// the real indexer, `while let Some(record) = indexer.index_record()?`
fn index_real<R: BufRead>(r: R) -> Result<Answer, String> {
    guarded(move || {
        let mut ix = fasta::io::Indexer::new(r);
        let mut out = vec![];
        loop {
            match ix.index_record() {
                Ok(Some(rec)) => out.push(rec),
                Ok(None) => return Ok(out),
                Err(e) => {
                    let text = e.to_string();
                    let e = io::Error::from(e);
                    return Err(canon_err(&text, &e));
                }
            }
        }
    })
}

fn canon_err(text: &str, e: &io::Error) -> String {
    let nums = |s: &str| -> Vec<String> { s.split(|c: char| !c.is_ascii_digit()).filter(|t| !t.is_empty()).map(|t| t.to_string()).collect() };
    if e.kind() == io::ErrorKind::InvalidInput {
        if let Some(rest) = text.strip_prefix("empty sequence at offset ") {
            return format!("E:empty:{}", rest.trim());
        }
        if let Some(rest) = text.strip_prefix("invalid line bases: expected ") {
            let n = nums(rest);
            if n.len() == 2 {
                return format!("E:bases:{}:{}", n[1], n[0]);
            }
        }
        if let Some(rest) = text.strip_prefix("invalid line width: expected ") {
            let n = nums(rest);
            if n.len() == 2 {
                return format!("E:width:{}:{}", n[1], n[0]);
            }
        }
    }
    errclass(e).to_string()
}

fn fmt_index(ix: &[fasta::fai::Record]) -> String {
    if ix.is_empty() {
        return "-".into();
    }
    ix.iter()
        .map(|r| format!("{}:{}:{}:{}:{}", hex(r.name().as_ref()), r.length(), r.position(), r.line_base_count(), r.line_width()))
        .collect::<Vec<_>>()
        .join(",")
}

fn fmt_answer(a: &Result<Answer, String>) -> String {
    match a {
        Ok(Ok(ix)) => format!("{} left=3", fmt_index(ix)),
        Ok(Err(c)) => c.clone(),
        Err(_) => "panic".into(),
    }
}

fn show(b: &[u8]) -> String {
    let s: String = b.iter().take(80).map(|&c| if (32..127).contains(&c) { (c as char).to_string() } else { format!("\\x{c:02x}") }).collect();
    if b.len() > 80 { format!("\"{s}…\"({} bytes)", b.len()) } else { format!("\"{s}\"") }
}

// ------------------------------------------------------------------------------------------------
// routes

fn line_ends(file: &[u8]) -> Vec<usize> {
    file.iter().enumerate().filter(|&(_, &b)| b == b'\n').map(|(i, _)| i + 1).collect()
}

fn bgzip(rng: &mut Rng, file: &[u8]) -> Vec<u8> {
    let mut out = vec![];
    let ends = line_ends(file);
    let mode = rng.below(4);
    let maxc = *rng.pick(&[1u64, 2, 3, 7, 16, 50, 400]);
    let mut pos = 0usize;
    if rng.chance(1, 6) {
        out.extend_from_slice(&EOF);
    }
    while pos < file.len() {
        let mut n = 1 + rng.below(maxc) as usize;
        if mode == 1 {
            // cut at / one before / one after the next line end
            if let Some(&e) = ends.iter().find(|&&e| e > pos) {
                let cut = match rng.below(3) {
                    0 => e,
                    1 => e.saturating_sub(1),
                    _ => e + 1,
                };
                if cut > pos {
                    n = cut - pos;
                }
            }
        }
        let n = n.min(file.len() - pos);
        out.extend_from_slice(&stored_member(&file[pos..pos + n]));
        pos += n;
        if rng.chance(1, 9) {
            out.extend_from_slice(&EOF);
        }
    }
    if !rng.chance(1, 8) {
        out.extend_from_slice(&EOF);
    }
    out
}

const ROUTES: &[&str] = &["whole", "cap1", "cap2", "cap3", "cap5", "cap8", "cap64", "sched", "bgzf", "percall"];

/// the reader of route `route` over `file` (random parameters from `rng`)
fn make_reader<'a>(file: &'a [u8], route: &str, rng: &mut Rng) -> (Box<dyn BufRead + 'a>, String) {
    if route == "whole" {
        (Box::new(file), route.into())
    } else if let Some(c) = route.strip_prefix("cap") {
        let cap: usize = c.parse().unwrap();
        (Box::new(BufReader::with_capacity(cap, file)), route.into())
    } else if route == "sched" {
        let cap = *rng.pick(&[1usize, 2, 3, 4, 7, 16, 61, 8192]);
        let kind = rng.below(7) as usize;
        let (sched, fallback, sname) = schedule(rng, kind, file.len(), &line_ends(file));
        (Box::new(BufReader::with_capacity(cap, SchedReader::new(file.to_vec(), sched, fallback))), format!("sched:{sname}"))
    } else if route == "bgzf" {
        let gz = bgzip(rng, file);
        (Box::new(bgzf::io::Reader::new(Cursor::new(gz))), route.into())
    } else {
        let maxw = *rng.pick(&[1u64, 2, 3, 5, 9, 40, 300]);
        let intr = rng.below(8);
        let seed = rng.next();
        (Box::new(PerCall { data: file.to_vec(), pos: 0, rng: Rng::new(seed), maxw, intr }), route.into())
    }
}

/// run the real indexer through route `route`; returns the answer and the recorded schedule
fn run_route(file: &[u8], route: &str, rng: &mut Rng) -> (Result<Answer, String>, Vec<Ev>, String) {
    let log: Log = Rc::new(RefCell::new(vec![]));
    let (rd, detail) = make_reader(file, route, rng);
    let ans = index_real(Recorder { inner: rd, log: log.clone() });
    let l = log.borrow().clone();
    (ans, l, detail)
}

/// `fasta::io::Reader::records()` through route `route`: (name, sequence) of every record, or the
/// error class
fn records_route(file: &[u8], route: &str, rng: &mut Rng) -> (Result<Result<Vec<(Vec<u8>, Vec<u8>)>, String>, String>, String) {
    let (rd, detail) = make_reader(file, route, rng);
    let ans = guarded(move || {
        let mut reader = fasta::io::Reader::new(rd);
        let mut out = vec![];
        for r in reader.records() {
            match r {
                Ok(rec) => out.push((rec.name().to_vec(), rec.sequence().as_ref().to_vec())),
                Err(e) => return Err(errclass(&e).to_string()),
            }
        }
        Ok(out)
    });
    (ans, detail)
}

// ------------------------------------------------------------------------------------------------
// the harness's own reading of the file (shares nothing with noodles or the model)

/// raw lines with their terminators
fn raw_lines(file: &[u8]) -> Vec<&[u8]> {
    file.split_inclusive(|&b| b == b'\n').collect()
}

fn strip_eol(l: &[u8]) -> &[u8] {
    let l = l.strip_suffix(b"\n").unwrap_or(l);
    l.strip_suffix(b"\r").unwrap_or(l)
}

/// no `>` and no CR among the bases of any non-definition line
fn is_clean(file: &[u8]) -> bool {
    raw_lines(file).iter().all(|l| l.first() == Some(&b'>') || !strip_eol(l).iter().any(|&b| b == b'\r' || b == b'>'))
}

/// Some(false) when some record's sequence lines are ragged (or it has no first base); None when
/// the file has no definition line first / nothing to say
fn uniform(file: &[u8]) -> Option<bool> {
    let lines = raw_lines(file);
    if lines.first().map(|l| l.first() != Some(&b'>')).unwrap_or(true) {
        return None;
    }
    let mut i = 0;
    while i < lines.len() {
        // lines[i] is a definition line
        let mut j = i + 1;
        while j < lines.len() && lines[j].first() != Some(&b'>') {
            j += 1;
        }
        let body = &lines[i + 1..j];
        if body.is_empty() || strip_eol(body[0]).is_empty() {
            return Some(false);
        }
        let (w, b) = (body[0].len(), strip_eol(body[0]).len());
        for (k, l) in body.iter().enumerate().skip(1) {
            let (lw, lb) = (l.len(), strip_eol(l).len());
            let ok = if k + 1 == body.len() { lw <= w && lb <= b } else { lw == w && lb == b };
            if !ok {
                return Some(false);
            }
        }
        i = j;
    }
    Some(true)
}

// ------------------------------------------------------------------------------------------------
// generators

const CORPUS: &[&[u8]] = &[
    b">sq0\nACGT\n",
    b">sq0\r\nACGT\r\n",
    b">sq0 desc\nACGT\nACGT\nAC\n>sq1\nNNNN\nNN\n",
    b">s\nAC\rGT\n",
    b">s\nAC>GT\n",
    b">s\nAC\rGT\nAA\n",
    b">s\nAC>GT\nAA\n",
    b">s\n",
    b">s",
    b">\nACGT\n",
    b"> x\nACGT\n",
    b">s d\nAC\nAC\nA",
    b">s\nACGT\r",
    b">s\nAC\r\r\nAC\r\r\n",
    b">s\n\nACGT\n",
    b">s\nACGT\n\n",
    b">s\nACGT\n\n\n",
    b">s\nACGT\n\n>t\nAC\n",
    b"",
    b"\n",
    b"ACGT\n",
    b">s\nAC\nACG\n",
    b">s\nACG\nAC\nACG\n",
    b">s\nAC\r\nAC\nAC\r\n",
    b">s\nAC\nAC\r\n",
    b">s\n\x80\xff\n\xfe\n",
    b">s\r\nA\r\n>t\r\nC",
    b">s\n>t\nA\n",
    b">s\nA\n>",
    b">s\nA\n>\n",
    b">s\nA\n>t",
    b">s\nA\r\n\r",
    b">s\n\r\n",
    b">s\n\rA\n",
    b">a_rather_long_sequence_name|with:punctuation#1 and a description with several words\tand a tab  \nACGTACGTACGTACGTACGTACGTACGTACGTACGTACGTACGTACGTACGTACGTACGTACGTACGTACGTACGTACGT\nACGTACGTACGTACGTACGTACGTACGTACGTACGTACGTACGTACGTACGTACGTACGTACGTACGTACGTACGTACGT\nACGT\n",
    b">s\nA\nC\nG\nT\n>t\nA\nC\n",
    b">s\nACGT\nACGT\nACGTA\n",
    b">s\nACGT\nACGT\nACG\nA\n",
];

fn gen_fasta(rng: &mut Rng) -> (Vec<u8>, &'static str) {
    let mut f = vec![];
    let nrec = 1 + rng.below(4) as usize;
    let crlf = rng.chance(1, 3);
    let defect_rec = if rng.chance(1, 3) { Some(rng.below(nrec as u64) as usize) } else { None };
    let mut tag = "well-formed";
    for k in 0..nrec {
        let tm: &[u8] = if crlf { b"\r\n" } else { b"\n" };
        f.push(b'>');
        match rng.below(5) {
            0 => f.extend_from_slice(format!("sq{k}").as_bytes()),
            1 => f.extend_from_slice(format!("chr{} a description >with\ttabs  ", k + 1).as_bytes()),
            2 => {
                let n = 1 + rng.below(120) as usize;
                f.extend((0..n).map(|_| *rng.pick(b"ABCXYZabcxyz0123456789_.|:-#")));
                f.extend_from_slice(b" LN:5 x");
            }
            3 if rng.chance(1, 10) => {}
            _ => f.extend_from_slice(format!("r{k}").as_bytes()),
        }
        f.extend_from_slice(tm);
        let lb = 1 + rng.below(80) as usize;
        let full = rng.below(5) as usize;
        let rem = if full == 0 { 1 + rng.below(lb as u64) as usize } else if rng.chance(1, 3) { 0 } else { rng.below(lb as u64) as usize };
        let len = full * lb + rem;
        let bases: Vec<u8> = (0..len).map(|_| *rng.pick(b"ACGTNacgtn*-")).collect();
        let mut lines: Vec<Vec<u8>> = bases.chunks(lb).map(|c| c.to_vec()).collect();
        let mut terms: Vec<Vec<u8>> = lines.iter().map(|_| tm.to_vec()).collect();
        let last_rec = k + 1 == nrec;
        let nl = lines.len();
        if last_rec {
            match rng.below(8) {
                0 => terms[nl - 1] = vec![],
                1 => terms[nl - 1] = b"\r".to_vec(),
                2 => {
                    lines.push(vec![]);
                    terms.push(tm.to_vec());
                }
                _ => {}
            }
        }
        if Some(k) == defect_rec {
            let i = rng.below(lines.len() as u64) as usize;
            let j = rng.below(lines[i].len().max(1) as u64) as usize;
            tag = match rng.below(10) {
                0 if lines[i].len() > 1 => {
                    lines[i].pop();
                    "ragged-short"
                }
                1 => {
                    lines[i].push(b'A');
                    "ragged-long"
                }
                2 if !lines[i].is_empty() => {
                    lines[i][j] = b'\r';
                    "cr-alone"
                }
                3 if !lines[i].is_empty() => {
                    lines[i][j] = b'>';
                    "gt-inside"
                }
                4 => {
                    lines.clear();
                    terms.clear();
                    "empty-sequence"
                }
                5 if !lines[i].is_empty() => {
                    lines[i][j] = 0x80 + rng.below(128) as u8;
                    "high-byte"
                }
                6 => {
                    terms[i] = if crlf { b"\n".to_vec() } else { b"\r\n".to_vec() };
                    "other-terminator"
                }
                7 => {
                    lines.insert(i, vec![]);
                    terms.insert(i, tm.to_vec());
                    "blank-line"
                }
                8 => {
                    terms[i] = b"\r\r\n".to_vec();
                    "cr-cr-lf"
                }
                _ => {
                    lines.insert(0, b"junk".to_vec());
                    terms.insert(0, vec![]);
                    "no-terminator-inside"
                }
            };
        }
        for (l, t) in lines.iter().zip(&terms) {
            f.extend_from_slice(l);
            f.extend_from_slice(t);
        }
    }
    (f, tag)
}

// ------------------------------------------------------------------------------------------------

fn one_file(ctx: &mut Ctx, file: &[u8], tag: &str, routes: &[&str], rng: &mut Rng, case: &str, emit_corr: bool) {
    let clean = is_clean(file);
    let uni = uniform(file);
    let naive = naive_parse(file);
    ctx.bump(&format!("idx_file:{tag}"));
    ctx.bump(&format!("idx_file_size:{}", match file.len() { 0..=15 => "0-15", 16..=99 => "16-99", 100..=499 => "100-499", _ => "500+" }));
    ctx.bump(if clean { "idx_clean" } else { "idx_unclean" });
    let mut whole: Option<String> = None;
    for &route in routes {
        let (ans, log, detail) = run_route(file, route, rng);
        let a = fmt_answer(&ans);
        ctx.bump(&format!("idx_route:{detail}"));
        ctx.bump(&format!("idx_answer:{}", if a.starts_with("E:") { a.split(':').take(2).collect::<Vec<_>>().join(":") } else if a.starts_with("err") || a == "panic" { a.clone() } else { "ok".into() }));
        ctx.bump_by("idx_fill_buf_calls", log.len() as u64);
        ctx.bump_by("idx_interrupted", log.iter().filter(|e| **e == Ev::Intr).count() as u64);
        if emit_corr {
            ctx.corr(format!("c11 idx {} {}", fmt_sched(&log), hex(file)), a.clone());
            if route == "whole" {
                // the empty schedule: the model's own whole-buffer windows (what `Model.lean` assumes)
                ctx.corr(format!("c11 idx - {}", hex(file)), a.replace(" left=3", " left=0"));
            }
        }
        ctx.eval(if file.len() > 8 { Some(fnv(format!("idx {case} {route}").as_bytes())) } else { None });
        if let Err(p) = &ans {
            ctx.fail("panic", format!("Indexer panicked on {} via {detail}: {p}", show(file)), case.into());
            continue;
        }
        if route == "whole" {
            whole = Some(a.clone());
        } else if let Some(w) = &whole {
            if *w != a {
                if clean {
                    ctx.fail("indexer-schedule-dependent", format!("{} via {detail}: {a}; whole buffer: {w}", show(file)), case.into());
                } else {
                    ctx.bump("unclean_schedule_dependent");
                }
            }
        }
        if !clean {
            continue;
        }
        match &ans {
            Ok(Ok(ix)) => {
                if uni == Some(false) {
                    ctx.fail("indexer-accepts-ragged", format!("{} via {detail}: accepted ({a}) although the sequence lines are not uniform", show(file)), case.into());
                    continue;
                }
                if ix.len() != naive.len() {
                    ctx.fail("indexer-wrong-base", format!("{} via {detail}: {} index records for {} naive records", show(file), ix.len(), naive.len()), case.into());
                    continue;
                }
                for (r, nv) in ix.iter().zip(&naive) {
                    let name: &[u8] = r.name().as_ref();
                    let (lb, lw, off) = (r.line_base_count().get() as usize, r.line_width().get() as usize, r.position() as usize);
                    let mut bad = name != &nv.name[..] || r.length() as usize != nv.bases.len() || lb == 0;
                    if !bad {
                        for (p, &b) in nv.bases.iter().enumerate() {
                            if file.get(off + p / lb * lw + p % lb) != Some(&b) {
                                bad = true;
                                break;
                            }
                        }
                        ctx.bump_by("idx_bases_checked", nv.bases.len() as u64);
                    }
                    if bad {
                        ctx.fail("indexer-wrong-base", format!("{} via {detail}: record {} does not address the naive bases of {:?}", show(file), fmt_index(std::slice::from_ref(r)), String::from_utf8_lossy(&nv.name)), case.into());
                        break;
                    }
                }
            }
            _ => {}
        }
    }
}

/// `Reader::records` / `read_sequence` through the same routes (oracle only; the model of the record
/// iterator under small buffers is C12's): on a clean file every route answers as the whole-buffer
/// route, and an accepted file yields exactly the naive records
fn records_oracle(ctx: &mut Ctx, file: &[u8], routes: &[&str], rng: &mut Rng, case: &str) {
    if !is_clean(file) {
        return;
    }
    let naive: Vec<(Vec<u8>, Vec<u8>)> = naive_parse(file).into_iter().map(|r| (r.name, r.bases)).collect();
    let mut whole = None;
    for &route in routes {
        let (ans, detail) = records_route(file, route, rng);
        ctx.eval(if file.len() > 8 { Some(fnv(format!("recs {case} {route}").as_bytes())) } else { None });
        let ans = match ans {
            Ok(a) => a,
            Err(p) => {
                ctx.fail("panic", format!("records() panicked on {} via {detail}: {p}", show(file)), case.into());
                continue;
            }
        };
        ctx.bump(&format!("recs_answer:{}", match &ans { Ok(_) => "ok", Err(c) => c.as_str() }));
        if let Ok(recs) = &ans {
            ctx.bump_by("recs_bases_checked", recs.iter().map(|r| r.1.len() as u64).sum());
            if *recs != naive {
                ctx.fail("records-not-naive", format!("{} via {detail}: records() returned {} records that are not the naive (name, concatenated sequence lines)", show(file), recs.len()), case.into());
            }
        }
        if route == "whole" {
            whole = Some(ans);
        } else if let Some(w) = &whole {
            if *w != ans {
                ctx.fail("records-schedule-dependent", format!("{} via {detail}: {:?} records / whole buffer {:?}", show(file), ans.as_ref().map(|r| r.len()), w.as_ref().map(|r| r.len())), case.into());
            }
        }
    }
}

fn corpus_case(ctx: &mut Ctx, k: usize, emit_corr: bool) {
    let mut rng = Rng::new(ctx.seed ^ 0xC11_1D ^ (k as u64) << 20);
    let file = CORPUS[k];
    // every route, the random ones twice
    let mut routes: Vec<&str> = ROUTES.to_vec();
    routes.extend_from_slice(&["sched", "bgzf", "percall", "percall"]);
    one_file(ctx, file, "corpus", &routes, &mut rng, &format!("idxcorpus {k}"), emit_corr);
    records_oracle(ctx, file, &routes, &mut rng, &format!("idxcorpus {k}"));
}

fn generated_case(ctx: &mut Ctx, sub: u64, emit_corr: bool) {
    let mut rng = Rng::new(sub ^ 0xC11_1D_6E);
    let (file, tag): (Vec<u8>, &str) = match rng.below(8) {
        0 | 1 => (gen_file(&mut rng).0, "c11-gen_file"),
        2 if rng.chance(1, 3) => {
            let n = rng.below(60) as usize;
            ((0..n).map(|_| *rng.pick(b">>\n\n\r\rACGT \t\x80")).collect(), "random-bytes")
        }
        _ => gen_fasta(&mut rng),
    };
    // whole first (reference of the oracle), then cap1 and three more routes
    let mut routes = vec!["whole", "cap1"];
    for _ in 0..3 {
        routes.push(*rng.pick(&ROUTES[2..]));
    }
    one_file(ctx, &file, tag, &routes, &mut rng, &format!("idxgen {sub}"), emit_corr);
    records_oracle(ctx, &file, &routes, &mut rng, &format!("idxgen {sub}"));
}

pub fn replay(ctx: &mut Ctx, case: &[String]) -> bool {
    let sub: u64 = case.get(1).and_then(|s| s.parse().ok()).unwrap_or(0);
    match case.first().map(|s| s.as_str()) {
        Some("idxcorpus") if (sub as usize) < CORPUS.len() => corpus_case(ctx, sub as usize, false),
        Some("idxgen") => generated_case(ctx, sub, false),
        Some("idxwitness") => {
            witness_case(ctx, b">s\nAC\rGT\n");
            witness_case(ctx, b">s\nAC>GT\n");
        }
        _ => return false,
    }
    true
}

/// the schedule of the Lean witnesses `idx_cr_edge_witness` / `idx_gt_edge_witness` (20 one-byte
/// windows) on the real indexer over `BufReader::with_capacity(1, ..)`: the request carries the
/// witness schedule literally, `left` = 20 − the number of `fill_buf` calls the real code made
fn witness_case(ctx: &mut Ctx, file: &[u8]) {
    let log: Log = Rc::new(RefCell::new(vec![]));
    let ans = index_real(Recorder { inner: BufReader::with_capacity(1, file), log: log.clone() });
    let calls = log.borrow().len();
    let all_one = log.borrow().iter().all(|e| matches!(e, Ev::Win(0) | Ev::Win(1)));
    ctx.eval(None);
    if !all_one || calls > 20 {
        ctx.fail("witness-schedule", format!("{}: a 1-byte BufReader produced {calls} windows, not all of one byte", show(file)), "idxwitness".into());
        return;
    }
    let a = match &ans {
        Ok(Ok(ix)) => format!("{} left={}", fmt_index(ix), 20 - calls),
        other => fmt_answer(other),
    };
    ctx.bump("idx_witness_replayed");
    ctx.corr(format!("c11 idx 1x20 {}", hex(file)), a);
}

pub fn run(ctx: &mut Ctx) {
    witness_case(ctx, b">s\nAC\rGT\n");
    witness_case(ctx, b">s\nAC>GT\n");
    for k in 0..CORPUS.len() {
        corpus_case(ctx, k, true);
    }
    let n = ctx.n(400, 20_000);
    for it in 0..n {
        let sub = ctx.seed.wrapping_mul(11_000_113).wrapping_add(it);
        generated_case(ctx, sub, it < 3_000);
    }
    let kinds = WIN_KINDS.with(|k| std::mem::take(&mut *k.borrow_mut()));
    for (k, v) in kinds {
        ctx.bump_by(&format!("idx_window:{k}"), v);
    }
}
