//! C17 (reach) — the real `binning_index::Indexer` on generated `add_record` histories against the
//! Lean model `Noodles/Csi/Indexer.lean`: canonical dump of the built index, the real writer's
//! verdict, and what the real reader makes of the written file.
use super::c17::{ch, maxpos, pos};
use crate::common::*;
use noodles_csi::{
    self as csi,
    binning_index::{
        self,
        index::{
            reference_sequence::{index::BinnedIndex, index::LinearIndex, Bin},
            Header, ReferenceSequence,
        },
        BinningIndex, Indexer, ReferenceSequence as _,
    },
};

#[derive(Clone, Debug)]
struct Call {
    ctx: Option<(usize, usize, usize, bool)>,
    cs: u64,
    ce: u64,
}

fn fmt_call(c: &Call) -> String {
    match c.ctx {
        None => format!("u:{}:{}", c.cs, c.ce),
        Some((r, s, e, m)) => format!("{r}:{s}:{e}:{}:{}:{}", m as u8, c.cs, c.ce),
    }
}
fn parse_call(s: &str) -> Option<Call> {
    let p: Vec<&str> = s.split(':').collect();
    match p.as_slice() {
        ["u", a, b] => Some(Call { ctx: None, cs: a.parse().ok()?, ce: b.parse().ok()? }),
        [r, s, e, m, a, b] => Some(Call {
            ctx: Some((r.parse().ok()?, s.parse().ok()?, e.parse().ok()?, *m != "0")),
            cs: a.parse().ok()?,
            ce: b.parse().ok()?,
        }),
        _ => None,
    }
}

fn mk_header(k: usize) -> Header {
    let mut names = csi::binning_index::index::header::ReferenceSequenceNames::new();
    for i in 0..k {
        names.insert(format!("s{i}").into_bytes().into());
    }
    csi::binning_index::index::header::Builder::vcf().set_reference_sequence_names(names).build()
}

fn fmt_bins(bins: &indexmap::IndexMap<usize, Bin>) -> String {
    if bins.is_empty() {
        return "-".into();
    }
    bins.iter()
        .map(|(id, b)| {
            format!(
                "{id}[{}]",
                b.chunks().iter().map(|c| format!("{}:{}", u64::from(c.start()), u64::from(c.end()))).collect::<Vec<_>>().join(";")
            )
        })
        .collect::<Vec<_>>()
        .join("+")
}
fn fmt_md<I: csi::binning_index::index::reference_sequence::Index>(r: &ReferenceSequence<I>) -> String {
    match r.metadata() {
        None => "-".into(),
        Some(m) => format!(
            "{}:{}:{}:{}",
            u64::from(m.start_position()),
            u64::from(m.end_position()),
            m.mapped_record_count(),
            m.unmapped_record_count()
        ),
    }
}
fn fmt_lin(r: &ReferenceSequence<LinearIndex>) -> String {
    let v: Vec<u64> = r.index().iter().map(|p| u64::from(*p)).collect();
    let mut runs: Vec<(u64, u64)> = Vec::new();
    for x in v {
        match runs.last_mut() {
            Some((y, n)) if *y == x => *n += 1,
            _ => runs.push((x, 1)),
        }
    }
    if runs.is_empty() { "-".into() } else { runs.iter().map(|(v, n)| format!("{v}*{n}")).collect::<Vec<_>>().join(",") }
}
fn fmt_idx(r: &ReferenceSequence<BinnedIndex>) -> String {
    if r.index().is_empty() {
        return "-".into();
    }
    r.index().iter().map(|(k, v)| format!("{k}:{}", u64::from(*v))).collect::<Vec<_>>().join(",")
}
fn fmt_u(u: Option<u64>) -> String {
    u.map(|n| n.to_string()).unwrap_or_else(|| "-".into())
}
fn dump_lin(ix: &binning_index::Index<LinearIndex>) -> String {
    let refs: Vec<String> = ix.reference_sequences().iter().map(|r| format!("{{b={} lin={} md={}}}", fmt_bins(r.bins()), fmt_lin(r), fmt_md(r))).collect();
    format!("n={} u={} {}", refs.len(), fmt_u(ix.unplaced_unmapped_record_count()), refs.join(" "))
}
fn dump_csi(ix: &binning_index::Index<BinnedIndex>) -> String {
    let refs: Vec<String> = ix.reference_sequences().iter().map(|r| format!("{{b={} idx={} md={}}}", fmt_bins(r.bins()), fmt_idx(r), fmt_md(r))).collect();
    format!("n={} u={} {}", refs.len(), fmt_u(ix.unplaced_unmapped_record_count()), refs.join(" "))
}

/// run the history on the real Indexer; Err(k) = the k-th call was refused
fn build<I>(ms: u8, d: u8, hdr: Option<usize>, calls: &[Call], nref: usize) -> Result<binning_index::Index<I>, usize>
where
    I: csi::binning_index::index::reference_sequence::Index + Default,
{
    let mut ix = Indexer::<I>::new(ms, d);
    if let Some(k) = hdr {
        ix = ix.set_header(mk_header(k));
    }
    for (k, c) in calls.iter().enumerate() {
        let a = c.ctx.map(|(r, s, e, m)| (r, pos(s), pos(e), m));
        if ix.add_record(a, ch(c.cs, c.ce)).is_err() {
            return Err(k);
        }
    }
    Ok(ix.build(nref))
}

struct Case {
    kind: &'static str,
    ms: u8,
    d: u8,
    nref: usize,
    hdr: Option<usize>,
    calls: Vec<Call>,
}

impl Case {
    fn words(&self) -> String {
        format!(
            "{} {} {} {} {} {}",
            self.kind,
            self.ms,
            self.d,
            self.nref,
            self.hdr.map(|k| format!("vcf:{k}")).unwrap_or_else(|| "-".into()),
            if self.calls.is_empty() { "-".into() } else { self.calls.iter().map(fmt_call).collect::<Vec<_>>().join(",") }
        )
    }
    fn in_geometry(&self) -> bool {
        let mx = maxpos(self.ms, self.d);
        self.calls.iter().all(|c| c.ctx.map_or(true, |(_, s, e, _)| s <= mx && e <= mx))
    }
}

fn parse_case(w: &[String]) -> Option<Case> {
    if w.len() != 6 {
        return None;
    }
    let kind = match w[0].as_str() {
        "bai" => "bai",
        "tbi" => "tbi",
        "csi" => "csi",
        _ => return None,
    };
    let hdr = if w[4] == "-" { None } else { Some(w[4].strip_prefix("vcf:")?.parse().ok()?) };
    let calls = if w[5] == "-" { Vec::new() } else { w[5].split(',').map(parse_call).collect::<Option<Vec<_>>>()? };
    Some(Case { kind, ms: w[1].parse().ok()?, d: w[2].parse().ok()?, nref: w[3].parse().ok()?, hdr, calls })
}

/// queries asked of an index before and after write+read (per reference)
fn battery(ms: u8, d: u8, calls: &[Call]) -> Vec<(usize, usize)> {
    let mx = maxpos(ms, d);
    let mut q = vec![(1, 1), (1, mx), (mx, mx)];
    for c in calls {
        if let Some((_, s, e, _)) = c.ctx {
            for (a, b) in [(s, e), (e, s), (s, s), (e, e), (1, s), (e, mx)] {
                let (a, b) = (a.min(mx).max(1), b.min(mx).max(1));
                if a <= b {
                    q.push((a, b));
                }
            }
        }
    }
    q.truncate(40);
    q
}

fn answers<I: csi::binning_index::index::reference_sequence::Index>(ix: &binning_index::Index<I>, qs: &[(usize, usize)]) -> Vec<String> {
    let mut out = Vec::new();
    for rid in 0..ix.reference_sequences().len() {
        for &(s, e) in qs {
            let a = guarded(|| ix.query(rid, (pos(s)..=pos(e)).into()));
            out.push(match a {
                Ok(Ok(cs)) => super::c17::fmt_chunks(&cs),
                Ok(Err(e)) => format!("err:{}", errclass(&e)),
                Err(_) => "panic".into(),
            });
        }
    }
    out
}

fn one(ctx: &mut Ctx, case: &Case) {
    let words = case.words();
    let replay = format!("reach {words}");
    let ingeo = case.in_geometry();
    let class = |c: &str| if ingeo { c.to_string() } else { "reach-beyond-geometry".to_string() };
    ctx.bump(&format!("reach_kind_{}_{}_{}", case.kind, case.ms, case.d));
    ctx.bump(&format!("reach_calls_{}", match case.calls.len() { 0 => "0", 1..=3 => "1-3", 4..=8 => "4-8", _ => "9+" }));
    ctx.bump(if ingeo { "reach_in_geometry" } else { "reach_beyond_geometry" });
    if case.calls.iter().any(|c| c.ctx.map_or(false, |(_, s, e, _)| s > e)) {
        ctx.bump("reach_has_start_gt_end");
    }
    if case.calls.iter().any(|c| c.cs >= c.ce) {
        ctx.bump("reach_has_empty_or_backwards_chunk");
    }
    if case.calls.iter().any(|c| c.ctx.is_none()) {
        ctx.bump("reach_has_unplaced");
    }
    let key = Some(fnv(words.as_bytes()));
    let ans: Result<String, String> = if case.kind == "csi" {
        guarded(|| match build::<BinnedIndex>(case.ms, case.d, case.hdr, &case.calls, case.nref) {
            Err(k) => format!("refused {k}"),
            Ok(ix) => {
                let dump = dump_csi(&ix);
                let mut w = csi::io::Writer::new(Vec::new());
                if w.write_index(&ix).is_err() {
                    return format!("{dump} w=err");
                }
                let buf = match w.into_inner().finish() {
                    Ok(b) => b,
                    Err(_) => return format!("{dump} w=err"),
                };
                match csi::io::Reader::new(&buf[..]).read_index() {
                    Err(_) => format!("{dump} w=ok rt=err"),
                    Ok(back) => format!("{dump} w=ok rt={} {}", if back.header() == ix.header() { "h" } else { "H" }, dump_csi(&back)),
                }
            }
        })
    } else {
        guarded(|| match build::<LinearIndex>(case.ms, case.d, case.hdr, &case.calls, case.nref) {
            Err(k) => format!("refused {k}"),
            Ok(ix) => {
                let dump = dump_lin(&ix);
                let r: std::io::Result<binning_index::Index<LinearIndex>> = if case.kind == "bai" {
                    let mut w = noodles_bam::bai::io::Writer::new(Vec::new());
                    match w.write_index(&ix) {
                        Err(_) => return format!("{dump} w=err"),
                        Ok(()) => {
                            let buf = w.into_inner();
                            noodles_bam::bai::io::Reader::new(&buf[..]).read_index()
                        }
                    }
                } else {
                    let mut w = noodles_tabix::io::Writer::new(Vec::new());
                    if w.write_index(&ix).is_err() || w.try_finish().is_err() {
                        return format!("{dump} w=err");
                    }
                    let buf = w.into_inner().into_inner();
                    noodles_tabix::io::Reader::new(&buf[..]).read_index()
                };
                match r {
                    Err(_) => format!("{dump} w=ok rt=err"),
                    Ok(back) => format!("{dump} w=ok rt={}", if back == ix { "eq" } else { "ne" }),
                }
            }
        })
    };
    let ans = ans.unwrap_or_else(|_| "panic".into());
    // ---- oracle, on the real code only: an accepted history builds an index that its own writer
    // accepts and that reads back equal (BAI, tabix) / with the same answers (CSI)
    if !ans.starts_with("refused") {
        ctx.eval(if case.calls.len() >= 2 { key } else { None });
        let writable = case.kind != "tbi" || case.hdr.is_some();
        if ans == "panic" {
            ctx.fail(&class("reach-panic"), "building / writing / reading panicked".into(), replay.clone());
        } else if ans.ends_with("w=err") {
            if writable {
                ctx.fail(&class("reach-writer-rejects"), "the writer rejects an index built by the indexer".into(), replay.clone());
            } else {
                ctx.bump("reach_tabix_without_header_refused");
            }
        } else if ans.contains("rt=err") {
            ctx.fail(&class("reach-roundtrip"), "the reader rejects the file written from an indexer-built index".into(), replay.clone());
        } else if ans.contains("rt=ne") {
            ctx.fail(&class("reach-roundtrip"), "indexer-built index does not read back equal".into(), replay.clone());
        } else if case.kind == "csi" && case.d > 6 {
            // a query at depth 10 fills a 1.2e9-bit vector: too slow here; covered by the theorem only
            ctx.bump("reach_csi_answers_skipped_deep_geometry");
        } else if case.kind == "csi" {
            // same answers before and after
            let r = guarded(|| -> Option<String> {
                let ix = build::<BinnedIndex>(case.ms, case.d, case.hdr, &case.calls, case.nref).ok()?;
                let mut w = csi::io::Writer::new(Vec::new());
                w.write_index(&ix).ok()?;
                let buf = w.into_inner().finish().ok()?;
                let back = csi::io::Reader::new(&buf[..]).read_index().ok()?;
                let qs = battery(case.ms, case.d, &case.calls);
                let (a, b) = (answers(&ix, &qs), answers(&back, &qs));
                if ix.reference_sequences().len() != back.reference_sequences().len() || ix.unplaced_unmapped_record_count() != back.unplaced_unmapped_record_count() || ix.header() != back.header() {
                    return Some("reference count / unplaced count / header changed".into());
                }
                for (i, (x, y)) in a.iter().zip(b.iter()).enumerate() {
                    if x != y {
                        return Some(format!("query #{i}: {x} before, {y} after"));
                    }
                }
                None
            });
            match r {
                Ok(None) => ctx.bump("reach_csi_same_answers"),
                Ok(Some(t)) => ctx.fail(&class("reach-csi-answers"), t, replay.clone()),
                Err(p) => ctx.fail(&class("reach-panic"), format!("panic: {p}"), replay.clone()),
            }
        } else {
            ctx.bump("reach_linear_reads_back_equal");
        }
    } else {
        ctx.bump("reach_refused");
    }
    ctx.bump(&format!(
        "reach_outcome_{}",
        if ans.starts_with("refused") { "refused" } else if ans == "panic" { "panic" } else if ans.ends_with("w=err") { "w_err" } else if ans.contains("rt=err") { "rt_err" } else if ans.contains("rt=ne") { "rt_ne" } else { "ok" }
    ));
    ctx.corr(format!("c17 reach {words}"), ans);
}

fn gen_case(rng: &mut Rng) -> Case {
    let kind = *rng.pick(&["bai", "tbi", "csi", "csi"]);
    let (ms, d) = if kind == "csi" { *rng.pick(&[(14u8, 5u8), (14, 6), (12, 5), (16, 4), (10, 6), (4, 2), (1, 1), (3, 3), (14, 10), (1, 0)]) } else { (14, 5) };
    let mx = maxpos(ms, d);
    let n = rng.below(13) as usize;
    let mut calls = Vec::new();
    let mut rid = rng.below(2) as usize;
    let mut off = rng.below(1000);
    let beyond = rng.chance(1, 25);
    for _ in 0..n {
        if rng.chance(1, 8) {
            calls.push(Call { ctx: None, cs: off, ce: off });
            continue;
        }
        if rng.chance(1, 4) {
            rid += 1 + rng.below(3) as usize / 2; // next reference, sometimes skipping one
        } else if rid > 0 && rng.chance(1, 30) {
            rid -= 1; // refused
        }
        let edge = |rng: &mut Rng| -> usize {
            let w = 1usize << ms;
            let v = match rng.below(8) {
                0 => 1,
                1 => mx,
                2 => mx - rng.below(3.min(mx as u64)) as usize,
                3 => (1 + rng.below((mx / w).max(1) as u64) as usize) * w, // last position of a leaf bin
                4 => (1 + rng.below((mx / w).max(1) as u64) as usize) * w + 1,
                5 => 1 + rng.below(16384.min(mx as u64)) as usize,
                _ => 1 + rng.below(mx as u64) as usize,
            };
            v.clamp(1, mx)
        };
        let mut s = edge(rng);
        let mut e = if rng.chance(1, 2) { (s + rng.below(3 << ms) as usize).min(mx) } else { edge(rng) };
        if s > e && !rng.chance(1, 6) {
            std::mem::swap(&mut s, &mut e);
        }
        if beyond && rng.chance(1, 2) {
            // at most 2 * mx: keeps the linear index small enough to dump
            e = mx + 1 + rng.below(if kind == "csi" { mx as u64 } else { 40000 }) as usize;
            if rng.chance(2, 3) {
                s = (e - rng.below(3) as usize).max(1);
            }
        }
        let len = rng.below(300);
        let (cs, ce) = match rng.below(12) {
            0 => (off, off),                                 // empty chunk
            1 => (off + len, off),                           // backwards chunk
            2 => (rng.below(off + 1), rng.below(off + 500)), // out of file order
            3 => (u64::MAX - rng.below(3), u64::MAX),        // largest virtual positions
            _ => (off, off + len + 1),
        };
        if rng.chance(5, 6) {
            off += len + 1 + if rng.chance(1, 3) { rng.below(70000) } else { 0 };
        }
        calls.push(Call { ctx: Some((rid, s, e, !rng.chance(1, 5))), cs, ce });
    }
    let last = calls.iter().filter_map(|c| c.ctx.map(|x| x.0)).max();
    let nref = match rng.below(4) {
        0 => 0,
        1 => last.map_or(0, |l| l + 1),
        2 => last.map_or(1, |l| l), // smaller than what was seen: no truncation
        _ => last.map_or(2, |l| l + 1 + rng.below(3) as usize),
    };
    let hdr = match kind {
        "tbi" => if rng.chance(1, 10) { None } else { Some(rng.below(4) as usize) },
        "csi" => if rng.chance(1, 2) { Some(rng.below(4) as usize) } else { None },
        _ => None,
    };
    Case { kind, ms, d, nref, hdr, calls }
}

/// boundary cases, run first
const CORPUS: &[&str] = &[
    "bai 14 5 0 - -",
    "bai 14 5 3 - -",
    "tbi 14 5 0 - -",
    "tbi 14 5 2 vcf:2 -",
    "csi 14 5 0 - -",
    "csi 14 5 2 vcf:0 -",
    // the non-vacuity history of Props/C17Reach.lean
    "bai 14 5 3 - 0:20000:20010:1:100:200,0:9:5:0:200:200,u:0:0,1:536870911:536870911:1:300:250",
    "tbi 14 5 3 vcf:3 0:20000:20010:1:100:200,0:9:5:0:200:200,u:0:0,1:536870911:536870911:1:300:250",
    "csi 14 5 3 - 0:20000:20010:1:100:200,0:9:5:0:200:200,u:0:0,1:536870911:536870911:1:300:250",
    // refused: smaller reference id
    "bai 14 5 2 - 1:5:9:1:0:1,0:5:9:1:1:2",
    "csi 4 2 0 - 2:5:9:1:0:1,1:5:9:1:1:2",
    // first record on reference 3: references 0..2 are created empty; n_ref smaller / larger
    "bai 14 5 1 - 3:5:9:1:0:1",
    "csi 14 5 6 vcf:1 3:5:9:1:0:1",
    // add_chunk: merge when start <= last.end (shrinks the end), else push
    "bai 14 5 1 - 0:5:9:1:10:50,0:5:9:1:20:30,0:5:9:1:31:40,0:5:9:1:5:60",
    // loffset keeps the minimum, linear index keeps the first
    "csi 14 5 1 - 0:5:9:1:100:200,0:5:9:1:50:60,0:20000:20001:1:10:20,0:5:9:1:70:80",
    "bai 14 5 1 - 0:40000:40001:1:100:200,0:5:9:1:50:60,0:70000:70001:1:300:400",
    // geometry edges
    "bai 14 5 1 - 0:536870911:536870911:1:0:1,0:1:536870911:0:1:2",
    "csi 14 10 1 - 0:17592186044415:17592186044415:1:0:1,0:1:17592186044415:1:1:2",
    "csi 1 0 1 - 0:1:1:1:0:1",
    "csi 1 1 1 - 0:15:15:1:0:1,0:1:15:1:1:2,0:2:3:1:2:3",
    // largest virtual positions
    "bai 14 5 1 - 0:5:9:1:18446744073709551615:18446744073709551615,0:5:9:0:0:18446744073709551615",
    // only unplaced reads
    "tbi 14 5 1 vcf:1 u:0:0,u:5:9",
    // tabix without a header: the writer refuses
    "tbi 14 5 1 - 0:5:9:1:0:1",
    // beyond the geometry (accepted; see indexer_beyond_geometry_collides)
    "bai 14 5 1 - 0:536887297:536887297:1:0:1",
    "bai 14 5 1 - 0:536870913:536870913:1:0:1",
    "csi 4 2 1 - 0:1025:1025:1:0:1",
    "csi 4 2 1 - 0:1041:1041:1:0:1",
    "bai 14 5 1 - 0:536870000:536880000:1:0:1",
];

pub fn run(ctx: &mut Ctx) {
    for line in CORPUS {
        let w: Vec<String> = line.split(' ').map(|s| s.to_string()).collect();
        let case = parse_case(&w).expect("corpus line");
        one(ctx, &case);
        ctx.bump("reach_corpus");
    }
    // malformed requests: both sides must say bad-op
    for bad in ["bai 14 5 1 - 0:5:9:1:0", "xyz 14 5 1 - -", "csi 14 5 1 vcf -"] {
        ctx.corr(format!("c17 reach {bad}"), "bad-op".into());
        ctx.bump("reach_malformed");
    }
    let n = ctx.n(600, 20000);
    for it in 0..n {
        let mut rng = Rng::new(ctx.seed.wrapping_mul(7_000_003).wrapping_add(0xC17).wrapping_add(it));
        let case = gen_case(&mut rng);
        one(ctx, &case);
    }
}

pub fn replay(ctx: &mut Ctx, case: &[String]) -> bool {
    if case.first().map(|s| s.as_str()) != Some("reach") {
        return false;
    }
    match parse_case(&case[1..]) {
        Some(c) => one(ctx, &c),
        None => ctx.fail("reach-replay", "unparsable replay case".into(), case.join(" ")),
    }
    true
}
