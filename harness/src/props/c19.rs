//! C19 — CRAM indexing (`cram::fs::index`) and region queries (`cram::io::Reader::query`).
//!
//! One case = one coordinate-sorted record stream over 1..3 small references (+ unmapped tail),
//! written by the real CRAM writer with a (records-per-slice, slices-per-container) layout.
//!   * an INDEPENDENT walker (own ITF8/LTF8/block parser, below) recovers the byte layout of the
//!     file: container offsets, header lengths, true landmarks and slice sizes, slice headers;
//!   * ORACLE: every CRAI entry of `cram::fs::index` = the entry derived from the walker's layout
//!     and the generator's own records (reference, covered span; one entry per reference for a
//!     multi-reference slice); every `Reader::query` answer = the filtered full scan (right
//!     reference, intersecting span, each once, file order), through the in-memory index, the
//!     index written to and read back from a .crai file, an index built from the walker's
//!     entries, and the async reader;
//!   * CORRESPONDENCE: the walker's layout is handed to the Lean model (`craiOf`, `cramQuery`,
//!     `layoutOf`), whose answers must equal the real code's.
use crate::common::*;
use noodles_core::{Position, Region};
use noodles_cram::{self as cram, crai};
use noodles_fasta as fasta;
use noodles_sam::{
    self as sam,
    alignment::{
        io::Write as _,
        record::{cigar::op::Kind, Flags, MappingQuality},
        record_buf::{Cigar, QualityScores, Sequence},
        RecordBuf,
    },
};
use std::num::NonZero;

pub(crate) const DEFAULT_RPS: usize = 10240;

pub(crate) fn work_dir() -> String {
    // the `--dir` argument of this run (also available as ctx.dir)
    let args: Vec<String> = std::env::args().collect();
    let base = args.iter().position(|a| a == "--dir").and_then(|i| args.get(i + 1).cloned()).unwrap_or_else(|| "/verif/work/tmp".into());
    format!("{base}/files")
}

// ------------------------------------------------------------------ cases

#[derive(Clone, Debug)]
pub struct GRec {
    pub serial: usize,
    pub rid: Option<usize>,
    pub start: usize,
    pub end: usize, // harness's own span rule: POS + (M + D + N) - 1
    pub cigar: Vec<(Kind, usize)>,
}

#[derive(Clone, Debug)]
pub struct Case {
    pub id: String,
    pub nref: usize,
    pub ref_len: usize,
    pub recs: Vec<GRec>,
    pub rps: usize,
    pub spc: usize,
    /// Builder::encode_alignment_start_positions_as_deltas
    pub ap_delta: bool,
    pub seed: u64,
}

fn ref_span(cigar: &[(Kind, usize)]) -> usize {
    cigar.iter().filter(|(k, _)| matches!(k, Kind::Match | Kind::Deletion | Kind::Skip)).map(|(_, n)| n).sum()
}
fn read_len(cigar: &[(Kind, usize)]) -> usize {
    cigar.iter().filter(|(k, _)| matches!(k, Kind::Match | Kind::Insertion | Kind::SoftClip)).map(|(_, n)| n).sum()
}

/// CIGAR with reference span `span` (M/D/N consume the reference; I/S do not)
fn gen_cigar(rng: &mut Rng, span: usize) -> Vec<(Kind, usize)> {
    let mut ops = vec![];
    if rng.chance(1, 5) {
        ops.push((Kind::SoftClip, 1 + rng.below(3) as usize));
    }
    if span <= 2 || rng.chance(1, 2) {
        ops.push((Kind::Match, span));
    } else {
        let m1 = 1 + rng.below((span - 2).min(6) as u64) as usize;
        ops.push((Kind::Match, m1));
        if rng.chance(1, 3) {
            ops.push((Kind::Insertion, 1 + rng.below(2) as usize));
        }
        let rest = span - m1;
        if rest >= 2 && rng.chance(2, 3) {
            let gap = 1 + rng.below((rest - 1) as u64) as usize;
            ops.push((*rng.pick(&[Kind::Deletion, Kind::Skip]), gap));
            ops.push((Kind::Match, rest - gap));
        } else {
            ops.push((Kind::Match, rest));
        }
    }
    if rng.chance(1, 6) {
        ops.push((Kind::SoftClip, 1 + rng.below(2) as usize));
    }
    ops
}

pub(crate) fn gen_case(sub: u64) -> Case {
    let mut rng = Rng::new(sub);
    // a quarter of the files aim at several slices per container, which the writer only accepts
    // when all slices of a container have the same reference context: one reference, rare tail
    let multi_slice = rng.chance(1, 4);
    let nref = if multi_slice { 1 } else { 1 + rng.below(3) as usize };
    let ref_len = *rng.pick(&[40usize, 80, 150, 300]);
    let dense = rng.chance(1, 3);
    let mut recs = vec![];
    for rid in 0..nref {
        if nref > 1 && rng.chance(1, 6) {
            continue; // a reference without records
        }
        let n = if dense { rng.range(3, 14) } else { rng.below(6) } as usize;
        let mut starts: Vec<usize> = (0..n).map(|_| 1 + rng.below(ref_len as u64) as usize).collect();
        if rng.chance(1, 4) && !starts.is_empty() {
            // several records at the same start
            let s = starts[0];
            starts.push(s);
            starts.push(s);
        }
        starts.sort();
        for s in starts {
            let max_span = ref_len - s + 1;
            let span = match rng.below(5) {
                0 => 1,
                1 => max_span, // long record covering everything after it
                2 => 1 + rng.below(max_span.min(60) as u64) as usize,
                _ => 1 + rng.below(max_span.min(12) as u64) as usize,
            };
            let cigar = gen_cigar(&mut rng, span);
            debug_assert_eq!(ref_span(&cigar), span);
            recs.push(GRec { serial: 0, rid: Some(rid), start: s, end: s + span - 1, cigar });
        }
    }
    if rng.chance(1, if multi_slice { 5 } else { 2 }) {
        for _ in 0..rng.range(1, 4) {
            recs.push(GRec { serial: 0, rid: None, start: 0, end: 0, cigar: vec![] });
        }
    }
    for (i, r) in recs.iter_mut().enumerate() {
        r.serial = i;
    }
    let (rps, spc) = match if multi_slice { 6 } else { rng.below(10) } {
        0 => (DEFAULT_RPS, 1), // the public default layout
        1 | 2 => (1 + rng.below(3) as usize, 1),
        3 | 4 => (2 + rng.below(5) as usize, 1),
        5 => (recs.len().max(1), 1),
        6 | 7 => (1 + rng.below(4) as usize, 2 + rng.below(2) as usize),
        _ => (2 + rng.below(6) as usize, 1 + rng.below(3) as usize),
    };
    let ap_delta = !rng.chance(1, 4);
    Case { id: format!("file {sub}"), nref, ref_len, recs, rps, spc, ap_delta, seed: sub }
}

/// hand-written boundary cases, always run first. (rid, start, span) with rid None = unmapped tail
pub(crate) fn corpus_case(k: usize) -> Option<Case> {
    type R = (Option<usize>, usize, usize);
    let m = |r: usize, s: usize, n: usize| -> R { (Some(r), s, n) };
    let u: R = (None, 0, 0);
    let (nref, ref_len, rps, spc, rs): (usize, usize, usize, usize, Vec<R>) = match k {
        // F10/F15 witness: four records on two references in one slice
        0 => (2, 40, DEFAULT_RPS, 1, vec![m(0, 1, 4), m(0, 9, 4), m(1, 1, 4), m(1, 9, 4)]),
        1 => (1, 40, DEFAULT_RPS, 1, vec![m(0, 7, 5)]),
        // several single-slice containers on one reference
        2 => (1, 80, 2, 1, vec![m(0, 1, 10), m(0, 5, 3), m(0, 20, 10), m(0, 25, 2), m(0, 40, 8), m(0, 41, 30)]),
        // several slices per container on one reference, last container short
        3 => (1, 80, 2, 2, vec![m(0, 1, 10), m(0, 5, 3), m(0, 20, 10), m(0, 25, 2), m(0, 40, 8), m(0, 41, 30), m(0, 70, 5)]),
        // unmapped only
        4 => (1, 40, 2, 1, vec![u, u, u]),
        // mapped then the unmapped tail in the same slice (multi-reference slice with one reference)
        5 => (1, 40, DEFAULT_RPS, 1, vec![m(0, 3, 5), m(0, 10, 5), u, u]),
        // three references, one slice each, one container each
        6 => (3, 40, 2, 1, vec![m(0, 1, 4), m(0, 9, 4), m(1, 2, 4), m(1, 8, 6), m(2, 5, 5), m(2, 5, 9)]),
        // no records at all
        7 => (2, 40, DEFAULT_RPS, 1, vec![]),
        // a long record before short ones, across slices
        8 => (1, 150, 2, 1, vec![m(0, 1, 150), m(0, 2, 1), m(0, 60, 2), m(0, 100, 1), m(0, 149, 2)]),
        // slices of different references in ONE container: the writer refuses (mixed contexts)
        9 => (2, 40, 2, 2, vec![m(0, 1, 4), m(0, 9, 4), m(1, 1, 4), m(1, 9, 4)]),
        // multi-reference slices only, two per container, then the unmapped tail
        10 => (3, 40, 3, 2, vec![m(0, 1, 4), m(0, 9, 4), m(1, 1, 4), m(1, 9, 4), m(2, 3, 3), u, u]),
        // a reference straddling two slices, the second slice multi-reference
        11 => (2, 80, 3, 1, vec![m(0, 1, 10), m(0, 5, 30), m(0, 20, 10), m(0, 25, 2), m(1, 4, 8), m(1, 41, 30), u]),
        // records-per-slice 1: every record its own container
        12 => (2, 40, 1, 1, vec![m(0, 5, 5), m(0, 5, 5), m(1, 5, 5), u]),
        // several multi-reference slices in one container and identical spans on both references
        13 => (2, 40, 2, 3, vec![m(0, 30, 4), m(1, 1, 4), m(1, 30, 4), u, u, u]),
        _ => return None,
    };
    let recs = rs
        .into_iter()
        .enumerate()
        .map(|(i, (rid, s, n))| match rid {
            Some(_) => GRec { serial: i, rid, start: s, end: s + n - 1, cigar: if n >= 6 { vec![(Kind::Match, 2), (Kind::Deletion, n - 4), (Kind::Match, 2)] } else { vec![(Kind::Match, n)] } },
            None => GRec { serial: i, rid: None, start: 0, end: 0, cigar: vec![] },
        })
        .collect();
    Some(Case { id: format!("corpus {k}"), nref, ref_len, recs, rps, spc, ap_delta: k != 11 && k != 13, seed: 77 + k as u64 })
}

fn reference_bases(case: &Case, rid: usize) -> Vec<u8> {
    let mut rng = Rng::new(case.seed.wrapping_mul(31).wrapping_add(rid as u64 + 1));
    (0..case.ref_len).map(|_| *rng.pick(b"ACGT")).collect()
}

pub(crate) fn repository(case: &Case) -> fasta::Repository {
    let records: Vec<fasta::Record> = (0..case.nref)
        .map(|rid| fasta::Record::new(fasta::record::Definition::new(format!("sq{rid}"), None), fasta::record::Sequence::from(reference_bases(case, rid))))
        .collect();
    fasta::Repository::new(records)
}

pub(crate) fn sam_header(case: &Case) -> sam::Header {
    use sam::header::record::value::{
        map::{self, header::tag::SORT_ORDER, ReferenceSequence},
        Map,
    };
    let hd = Map::<map::Header>::builder().insert(SORT_ORDER, "coordinate").build().unwrap();
    let refs = (0..case.nref)
        .map(|i| (bstr::BString::from(format!("sq{i}")), Map::<ReferenceSequence>::new(NonZero::new(case.ref_len).unwrap())))
        .collect();
    sam::Header::builder().set_header(hd).set_reference_sequences(refs).build()
}

pub(crate) fn to_record_buf(case: &Case, r: &GRec) -> RecordBuf {
    let mut rng = Rng::new(case.seed.wrapping_mul(977).wrapping_add(r.serial as u64));
    let mut b = RecordBuf::builder().set_name(format!("r{}", r.serial));
    match r.rid {
        Some(rid) => {
            let reference = reference_bases(case, rid);
            let mut bases = vec![];
            let mut pos = r.start - 1;
            for (k, n) in &r.cigar {
                match k {
                    Kind::Match => {
                        for _ in 0..*n {
                            // mostly the reference base, sometimes a substitution
                            bases.push(if rng.chance(1, 8) { *rng.pick(b"ACGT") } else { reference[pos] });
                            pos += 1;
                        }
                    }
                    Kind::Insertion | Kind::SoftClip => {
                        for _ in 0..*n {
                            bases.push(*rng.pick(b"ACGT"));
                        }
                    }
                    _ => pos += n,
                }
            }
            let ops: Vec<sam::alignment::record::cigar::Op> = r.cigar.iter().map(|(k, n)| sam::alignment::record::cigar::Op::new(*k, *n)).collect();
            let n = read_len(&r.cigar);
            debug_assert_eq!(n, bases.len());
            b = b
                .set_flags(Flags::empty())
                .set_reference_sequence_id(rid)
                .set_alignment_start(Position::try_from(r.start).unwrap())
                .set_mapping_quality(MappingQuality::new(30).unwrap())
                .set_cigar(Cigar::from(ops))
                .set_sequence(Sequence::from(bases))
                .set_quality_scores(QualityScores::from(vec![30u8; n]));
        }
        None => {
            b = b.set_flags(Flags::UNMAPPED).set_sequence(Sequence::from(b"ACGT".to_vec())).set_quality_scores(QualityScores::from(vec![20u8; 4]));
        }
    }
    b.build()
}

pub(crate) fn serial_of(name: Option<&bstr::BStr>) -> Option<usize> {
    let name = name?;
    std::str::from_utf8(&name[1..]).ok()?.parse().ok()
}

// ------------------------------------------------------------------ the independent walker

#[derive(Clone, Debug)]
pub(crate) struct WSlice {
    pub(crate) landmark: usize, // offset of the slice header block from the end of the container header
    pub(crate) size: usize,     // slice header block + its data blocks, in bytes
    pub(crate) ctx: (i64, i64, i64),
    pub(crate) nrec: usize,
    pub(crate) counter: u64,
}
#[derive(Clone, Debug)]
pub(crate) struct WContainer {
    pub(crate) offset: usize,
    pub(crate) hdr_len: usize,
    pub(crate) body_len: usize,
    pub(crate) ch_len: usize, // the compression header block
    pub(crate) ctx: (i64, i64, i64),
    pub(crate) nrec: usize,
    pub(crate) declared_landmarks: Vec<usize>,
    pub(crate) slices: Vec<WSlice>,
}
#[derive(Clone, Debug)]
pub(crate) struct WFile {
    pub(crate) start: usize, // offset of the first data container
    pub(crate) containers: Vec<WContainer>,
    pub(crate) eof_marker: bool,
}

struct Cur<'a> {
    b: &'a [u8],
    p: usize,
}
impl<'a> Cur<'a> {
    fn u8(&mut self) -> Result<u8, String> {
        let v = *self.b.get(self.p).ok_or("walker: unexpected end of data")?;
        self.p += 1;
        Ok(v)
    }
    fn skip(&mut self, n: usize) -> Result<(), String> {
        if self.p + n > self.b.len() {
            return Err("walker: unexpected end of data".into());
        }
        self.p += n;
        Ok(())
    }
    fn i32le(&mut self) -> Result<i32, String> {
        let mut v = [0u8; 4];
        for x in &mut v {
            *x = self.u8()?;
        }
        Ok(i32::from_le_bytes(v))
    }
    /// ITF8 (CRAM 3.0 § 2.3)
    fn itf8(&mut self) -> Result<i64, String> {
        let b0 = self.u8()? as u32;
        let v: u32 = if b0 < 0x80 {
            b0
        } else if b0 < 0xc0 {
            ((b0 & 0x7f) << 8) | self.u8()? as u32
        } else if b0 < 0xe0 {
            let (b1, b2) = (self.u8()? as u32, self.u8()? as u32);
            ((b0 & 0x3f) << 16) | (b1 << 8) | b2
        } else if b0 < 0xf0 {
            let (b1, b2, b3) = (self.u8()? as u32, self.u8()? as u32, self.u8()? as u32);
            ((b0 & 0x1f) << 24) | (b1 << 16) | (b2 << 8) | b3
        } else {
            let (b1, b2, b3, b4) = (self.u8()? as u32, self.u8()? as u32, self.u8()? as u32, self.u8()? as u32);
            ((b0 & 0x0f) << 28) | (b1 << 20) | (b2 << 12) | (b3 << 4) | (b4 & 0x0f)
        };
        Ok(v as i32 as i64)
    }
    /// LTF8: number of leading one bits of the first byte = number of following bytes
    fn ltf8(&mut self) -> Result<u64, String> {
        let b0 = self.u8()?;
        let extra = b0.leading_ones() as usize;
        let mut v: u64 = if extra >= 8 { 0 } else { (b0 as u64) & (0xffu64 >> (extra + 1)) };
        for _ in 0..extra {
            v = (v << 8) | self.u8()? as u64;
        }
        Ok(v)
    }
}

/// (content type, data range, total block size)
fn walk_block(c: &mut Cur) -> Result<(u8, u8, std::ops::Range<usize>, usize), String> {
    let p0 = c.p;
    let method = c.u8()?;
    let ctype = c.u8()?;
    let _cid = c.itf8()?;
    let csize = c.itf8()? as usize;
    let _rsize = c.itf8()?;
    let d0 = c.p;
    c.skip(csize)?;
    c.skip(4)?; // CRC32
    Ok((method, ctype, d0..d0 + csize, c.p - p0))
}

pub(crate) fn walk(bytes: &[u8]) -> Result<WFile, String> {
    if bytes.len() < 26 || &bytes[..4] != b"CRAM" {
        return Err("walker: no CRAM file definition".into());
    }
    let mut c = Cur { b: bytes, p: 26 };
    let mut first = true;
    let mut out = WFile { start: 0, containers: vec![], eof_marker: false };
    while c.p < bytes.len() {
        let offset = c.p;
        let len = c.i32le()?;
        if len < 0 {
            return Err("walker: negative container length".into());
        }
        let ctx = (c.itf8()?, c.itf8()?, c.itf8()?);
        let nrec = c.itf8()? as usize;
        let _counter = c.ltf8()?;
        let _bases = c.ltf8()?;
        let _nblocks = c.itf8()?;
        let nl = c.itf8()? as usize;
        let mut declared = vec![];
        for _ in 0..nl {
            declared.push(c.itf8()? as usize);
        }
        c.skip(4)?; // CRC32
        let hdr_len = c.p - offset;
        let body = c.p;
        let body_len = len as usize;
        if first {
            // the file header container
            first = false;
            c.skip(body_len)?;
            out.start = c.p;
            continue;
        }
        if body_len == 15 && ctx.0 == -1 && ctx.1 == 4_542_278 {
            c.skip(body_len)?;
            out.eof_marker = true;
            if c.p != bytes.len() {
                return Err("walker: data after the EOF container".into());
            }
            break;
        }
        if body + body_len > bytes.len() {
            return Err("walker: container body beyond the end of the file".into());
        }
        // the compression header block, then slices
        let (_, ctype, _, ch_len) = walk_block(&mut c)?;
        if ctype != 1 {
            return Err(format!("walker: first block of a container has content type {ctype}, not compression header"));
        }
        let mut slices = vec![];
        while c.p < body + body_len {
            let landmark = c.p - body;
            let (method, ctype, data, mut size) = walk_block(&mut c)?;
            if ctype != 2 || method != 0 {
                return Err(format!("walker: expected a raw slice header block at +{landmark}, got content type {ctype} method {method}"));
            }
            let mut h = Cur { b: &bytes[data.clone()], p: 0 };
            let sctx = (h.itf8()?, h.itf8()?, h.itf8()?);
            let snrec = h.itf8()? as usize;
            let counter = h.ltf8()?;
            let nblocks = h.itf8()? as usize;
            for _ in 0..nblocks {
                let (_, ctype, _, n) = walk_block(&mut c)?;
                if ctype != 4 && ctype != 5 {
                    return Err(format!("walker: slice data block has content type {ctype}"));
                }
                size += n;
            }
            slices.push(WSlice { landmark, size, ctx: sctx, nrec: snrec, counter });
        }
        if c.p != body + body_len {
            return Err(format!("walker: blocks of the container at {offset} end at +{}, declared length {body_len}", c.p - body));
        }
        out.containers.push(WContainer { offset, hdr_len, body_len, ch_len, ctx, nrec, declared_landmarks: declared, slices });
    }
    Ok(out)
}

// ------------------------------------------------------------------ canonical text

pub(crate) type Entry = (i64, usize, usize, usize, usize, usize); // ref (-1 = none), start, span, offset, landmark, size

pub(crate) fn fmt_entries(es: &[Entry]) -> String {
    if es.is_empty() {
        return "-".into();
    }
    es.iter().map(|e| format!("{}:{}:{}:{}:{}:{}", e.0, e.1, e.2, e.3, e.4, e.5)).collect::<Vec<_>>().join(",")
}
pub(crate) fn entry_of(r: &crai::Record) -> Entry {
    (
        r.reference_sequence_id().map(|x| x as i64).unwrap_or(-1),
        r.alignment_start().map(usize::from).unwrap_or(0),
        r.alignment_span(),
        r.offset() as usize,
        r.landmark() as usize,
        r.slice_length() as usize,
    )
}
pub(crate) fn record_of(e: &Entry) -> crai::Record {
    crai::Record::new(if e.0 < 0 { None } else { Some(e.0 as usize) }, Position::new(e.1), e.2, e.3 as u64, e.4 as u64, e.5 as u64)
}
fn fmt_rec(r: &GRec) -> String {
    match r.rid {
        Some(rid) => format!("{}:{}:{}:{}", r.serial, rid, r.start, r.end),
        None => format!("{}:-:0:0", r.serial),
    }
}
fn fmt_recs(rs: &[GRec]) -> String {
    if rs.is_empty() { "-".into() } else { rs.iter().map(fmt_rec).collect::<Vec<_>>().join(";") }
}
pub(crate) fn fmt_ids(v: &[usize]) -> String {
    if v.is_empty() { "-".into() } else { v.iter().map(|x| x.to_string()).collect::<Vec<_>>().join(",") }
}
/// the file as the model sees it: `hdrLen/chLen/size=recs+size=recs|…`
pub(crate) fn fmt_file(w: &WFile, recs: &[GRec]) -> String {
    if w.containers.is_empty() {
        return "-".into();
    }
    let mut next = 0;
    w.containers
        .iter()
        .map(|c| {
            let slices = c
                .slices
                .iter()
                .map(|s| {
                    let part = &recs[next..next + s.nrec];
                    next += s.nrec;
                    format!("{}={}", s.size, fmt_recs(part))
                })
                .collect::<Vec<_>>()
                .join("+");
            format!("{}/{}/{}", c.hdr_len, c.ch_len, slices)
        })
        .collect::<Vec<_>>()
        .join("|")
}
pub(crate) fn fmt_layout(w: &WFile) -> String {
    if w.containers.is_empty() {
        return "-".into();
    }
    w.containers
        .iter()
        .map(|c| {
            let slices = c.slices.iter().map(|s| format!("{}:{}:{}#{}", s.ctx.0, s.ctx.1, s.ctx.2, s.nrec)).collect::<Vec<_>>().join("+");
            format!("{}:{}:{}#{}/{}", c.ctx.0, c.ctx.1, c.ctx.2, c.nrec, slices)
        })
        .collect::<Vec<_>>()
        .join("|")
}

/// what the index must say, from the walker's layout and the generator's records
pub(crate) fn truth_entries(w: &WFile, recs: &[GRec]) -> Vec<Entry> {
    let mut out = vec![];
    let mut next = 0;
    for c in &w.containers {
        for s in &c.slices {
            let part = &recs[next..next + s.nrec];
            next += s.nrec;
            let mut keys: Vec<i64> = part.iter().map(|r| r.rid.map(|x| x as i64).unwrap_or(-1)).collect();
            keys.sort();
            keys.dedup();
            for k in keys {
                if k < 0 {
                    out.push((-1, 0, 0, c.offset, s.landmark, s.size));
                } else {
                    let on: Vec<&GRec> = part.iter().filter(|r| r.rid == Some(k as usize)).collect();
                    let lo = on.iter().map(|r| r.start).min().unwrap();
                    let hi = on.iter().map(|r| r.end).max().unwrap();
                    out.push((k, lo, hi - lo + 1, c.offset, s.landmark, s.size));
                }
            }
        }
    }
    out
}

// ------------------------------------------------------------------ queries

type Q = (Option<usize>, Option<usize>);

fn region_of(rid: usize, q: Q) -> Region {
    let name = format!("sq{rid}");
    let p = |n: usize| Position::try_from(n).unwrap();
    match q {
        (Some(s), Some(e)) => Region::new(name, p(s)..=p(e)),
        (Some(s), None) => Region::new(name, p(s)..),
        (None, Some(e)) => Region::new(name, ..=p(e)),
        (None, None) => Region::new(name, ..),
    }
}

fn gen_queries(rng: &mut Rng, ref_len: usize, on_ref: &[&GRec], thorough: bool) -> Vec<Q> {
    let mut qs: Vec<Q> = vec![(None, None), (Some(1), Some(1)), (Some(ref_len), Some(ref_len)), (Some(ref_len + 1), None)];
    let k = if thorough { 8 } else { 5 };
    for _ in 0..k {
        if on_ref.is_empty() {
            break;
        }
        let r = *rng.pick(on_ref);
        qs.push(match rng.below(8) {
            0 => (Some(r.start), Some(r.start)),
            1 => (Some(r.end), Some(r.end)),
            2 => (Some(r.end + 1), Some(r.end + 1 + rng.below(6) as usize)), // just past the record: may hit nothing
            3 if r.start > 1 => (Some(r.start.saturating_sub(1 + rng.below(5) as usize).max(1)), Some(r.start - 1)),
            4 => (Some((r.start + r.end) / 2), None),
            5 => (None, Some((r.start + r.end) / 2)),
            6 => (Some(r.end), None),
            _ => (None, Some(r.start)),
        });
    }
    for _ in 0..3 {
        let a = 1 + rng.below(ref_len as u64) as usize;
        let b = 1 + rng.below(ref_len as u64) as usize;
        qs.push((Some(a.min(b)), Some(a.max(b))));
    }
    qs
}

fn scan_filter(recs: &[GRec], rid: usize, q: Q) -> Vec<usize> {
    let (qs, qe) = (q.0.unwrap_or(1), q.1.unwrap_or(usize::MAX));
    recs.iter().filter(|r| r.rid == Some(rid) && r.start <= qe && qs <= r.end).map(|r| r.serial).collect()
}

fn classify(recs: &[GRec], rid: usize, got: &[usize]) -> &'static str {
    if got.iter().any(|s| recs.get(*s).map(|r| r.rid != Some(rid)).unwrap_or(true)) {
        return "query-other-reference";
    }
    let mut seen = std::collections::BTreeSet::new();
    if got.iter().any(|s| !seen.insert(*s)) {
        return "query-duplicate";
    }
    "query-mismatch"
}

type SyncReader = cram::io::Reader<std::fs::File>;

fn sync_query(rd: &mut SyncReader, header: &sam::Header, index: &crai::Index, region: &Region) -> Result<Vec<usize>, String> {
    let r = guarded(|| -> std::io::Result<Vec<usize>> {
        let q = rd.query(header, index, region)?;
        let mut out = vec![];
        for r in q.records() {
            let r = r?;
            out.push(serial_of(r.name()).ok_or_else(|| std::io::Error::other("unnamed record"))?);
        }
        Ok(out)
    });
    match r {
        Ok(Ok(v)) => Ok(v),
        Ok(Err(e)) => Err(errclass(&e).to_string() + ": " + &e.to_string()),
        Err(p) => Err(format!("panic: {p}")),
    }
}

fn async_query(bytes: &[u8], repo: &fasta::Repository, index: &crai::Index, regions: &[Region]) -> Vec<Result<Vec<usize>, String>> {
    use futures::TryStreamExt;
    let r = guarded(|| {
        crate::adversary::block_on(async {
            let mut rd = cram::r#async::io::reader::Builder::default().set_reference_sequence_repository(repo.clone()).build_from_reader(std::io::Cursor::new(bytes.to_vec()));
            let header = match rd.read_header().await {
                Ok(h) => h,
                Err(e) => return regions.iter().map(|_| Err(format!("{}: {e}", errclass(&e)))).collect(),
            };
            let mut out = vec![];
            for region in regions {
                let res: std::io::Result<Vec<usize>> = async {
                    let q = rd.query(&header, index, region)?;
                    let recs: Vec<RecordBuf> = q.records().try_collect().await?;
                    recs.iter().map(|r| serial_of(r.name()).ok_or_else(|| std::io::Error::other("unnamed record"))).collect()
                }
                .await;
                out.push(res.map_err(|e| format!("{}: {e}", errclass(&e))));
            }
            out
        })
    });
    match r {
        Ok(v) => v,
        Err(p) => regions.iter().map(|_| Err(format!("panic: {p}"))).collect(),
    }
}

// ------------------------------------------------------------------ one case

fn corr_if(ctx: &mut Ctx, emit: bool, req: String, ans: String) {
    if emit {
        ctx.corr(req, ans);
    }
}

/// `emit`: record correspondence requests for this case (the oracle always runs)
fn run_case(ctx: &mut Ctx, case: &Case, emit: bool) {
    let dir = work_dir();
    std::fs::create_dir_all(&dir).ok();
    let tag = case.id.replace(' ', "-");
    let path = format!("{dir}/{tag}.cram");
    let crai_path = format!("{dir}/{tag}.cram.crai");
    let repo = repository(case);
    let header = sam_header(case);
    let id = &case.id;
    ctx.bump(&format!("layout_rps_{}", if case.rps == DEFAULT_RPS { "default".to_string() } else if case.rps >= 4 { "4+".into() } else { case.rps.to_string() }));
    ctx.bump(&format!("layout_spc_{}", case.spc));
    ctx.bump(&format!("references_{}", case.nref));
    ctx.bump(if case.ap_delta { "alignment_starts_as_deltas" } else { "alignment_starts_absolute" });
    ctx.bump_by("records", case.recs.len() as u64);
    if case.recs.iter().any(|r| r.rid.is_none()) {
        ctx.bump("files_with_unmapped_tail");
    }

    // ---- write with the real writer
    let wr = guarded(|| -> std::io::Result<()> {
        let b = cram::io::writer::Builder::default().set_reference_sequence_repository(repo.clone()).encode_alignment_start_positions_as_deltas(case.ap_delta);
        let f = std::fs::File::create(&path)?;
        let mut w = if case.rps == DEFAULT_RPS && case.spc == 1 { b.build_from_writer(f) } else { b.verif_build_from_writer_with_layout(f, case.rps, case.spc) };
        w.write_header(&header)?;
        for r in &case.recs {
            w.write_alignment_record(&header, &to_record_buf(case, r))?;
        }
        w.try_finish(&header)
    });
    let layout_req = format!("c19 layout {} {} {}", case.rps, case.spc, fmt_recs(&case.recs));
    match wr {
        Ok(Ok(())) => {}
        Ok(Err(e)) if e.kind() == std::io::ErrorKind::InvalidInput && e.to_string().contains("invalid slice reference sequence context") => {
            // slices with different reference contexts in one container: the writer refuses, no CRAM
            // exists, the property says nothing; the model must predict the refusal
            ctx.bump("writer_refused_mixed_container");
            corr_if(ctx, emit, layout_req, "err:invalid-input".into());
            let _ = std::fs::remove_file(&path);
            return;
        }
        Ok(Err(e)) => {
            ctx.fail("cram-write", format!("writing a sorted stream of {} plain records failed: {e}", case.recs.len()), id.clone());
            return;
        }
        Err(p) => {
            ctx.fail("cram-write", format!("the writer panicked: {p}"), id.clone());
            return;
        }
    }
    let bytes = std::fs::read(&path).unwrap();

    // ---- the independent walker
    let w = match walk(&bytes) {
        Ok(w) => w,
        Err(e) => {
            ctx.fail("cram-layout", format!("the written file does not parse as containers/blocks: {e}"), id.clone());
            return;
        }
    };
    let total: usize = w.containers.iter().flat_map(|c| c.slices.iter()).map(|s| s.nrec).sum();
    if total != case.recs.len() || !w.eof_marker {
        ctx.fail("cram-layout", format!("{} records written, slice headers count {total}; EOF container present: {}", case.recs.len(), w.eof_marker), id.clone());
        return;
    }
    corr_if(ctx, emit, layout_req, fmt_layout(&w));
    let nslices: usize = w.containers.iter().map(|c| c.slices.len()).sum();
    let many = w.containers.iter().flat_map(|c| c.slices.iter()).filter(|s| s.ctx.0 == -2).count();
    ctx.bump_by("containers", w.containers.len() as u64);
    ctx.bump_by("slices", nslices as u64);
    ctx.bump_by("slices_multi_reference", many as u64);
    if w.containers.iter().any(|c| c.slices.len() > 1) {
        ctx.bump("files_with_multi_slice_container");
    }
    if many > 0 {
        ctx.bump("files_with_multi_reference_slice");
    }
    let truth = truth_entries(&w, &case.recs);
    let file_txt = fmt_file(&w, &case.recs);

    // ---- the full scan with the real reader must see what was written (ties the scan to the generator)
    let mut shared: SyncReader = match cram::io::reader::Builder::default().set_reference_sequence_repository(repo.clone()).build_from_path(&path) {
        Ok(r) => r,
        Err(e) => {
            ctx.fail("cram-read", format!("cannot reopen the file: {e}"), id.clone());
            return;
        }
    };
    let hdr = match guarded(|| shared.read_header()) {
        Ok(Ok(h)) => h,
        other => {
            ctx.fail("cram-read", format!("read_header failed: {:?}", other.map(|r| r.map(|_| ()).map_err(|e| e.to_string()))), id.clone());
            return;
        }
    };
    let scan = guarded(|| -> std::io::Result<Vec<(Option<usize>, Option<usize>, Option<usize>, Option<usize>)>> {
        let mut out = vec![];
        for r in shared.records(&hdr) {
            let r = r?;
            out.push((serial_of(r.name()), r.reference_sequence_id(), r.alignment_start().map(usize::from), r.alignment_end().map(usize::from)));
        }
        Ok(out)
    });
    match scan {
        Ok(Ok(v)) => {
            let want: Vec<_> = case.recs.iter().map(|r| (Some(r.serial), r.rid, r.rid.map(|_| r.start), r.rid.map(|_| r.end))).collect();
            if v != want {
                let i = v.iter().zip(&want).position(|(a, b)| a != b).unwrap_or(v.len().min(want.len()));
                ctx.fail("cram-read", format!("full scan differs from the written stream at record {i}: read {:?}, written {:?} ({} read, {} written)", v.get(i), want.get(i), v.len(), want.len()), id.clone());
                return;
            }
        }
        other => {
            ctx.fail("cram-read", format!("full scan failed: {:?}", other.map(|r| r.map(|_| ()).map_err(|e| e.to_string()))), id.clone());
            return;
        }
    }

    // ---- cram::fs::index vs the walker-derived entries
    let nontrivial = if nslices >= 2 || many >= 1 { Some(fnv(format!("{id} index").as_bytes())) } else { None };
    ctx.eval(nontrivial);
    let real_index: Option<crai::Index> = match guarded(|| cram::fs::index(&path)) {
        Ok(Ok(ix)) => {
            let got: Vec<Entry> = ix.iter().map(entry_of).collect();
            corr_if(ctx, emit, format!("c19 index {} {file_txt}", w.start), fmt_entries(&got));
            // the property fixes no order among the entries of one slice: compare sorted
            let (mut a, mut b) = (got.clone(), truth.clone());
            a.sort();
            b.sort();
            if a != b {
                let missing: Vec<_> = b.iter().filter(|e| !a.contains(e)).collect();
                let extra: Vec<_> = a.iter().filter(|e| !b.contains(e)).collect();
                ctx.fail(
                    "crai-entry",
                    format!("cram::fs::index entries differ from the file's slices (ref:start:span:offset:landmark:size): missing {missing:?}, unexpected {extra:?}; index has {} entries, the file needs {}", a.len(), b.len()),
                    id.clone(),
                );
            }
            // slice order must be file order
            let keys: Vec<(usize, usize)> = got.iter().map(|e| (e.3, e.4)).collect();
            if keys.windows(2).any(|p| p[0] > p[1]) {
                ctx.fail("crai-entry", format!("index entries are not in file order: {keys:?}"), id.clone());
            }
            Some(ix)
        }
        Ok(Err(e)) => {
            corr_if(ctx, emit, format!("c19 index {} {file_txt}", w.start), errclass(&e).into());
            ctx.fail("crai-index-error", format!("cram::fs::index failed: {e}"), id.clone());
            None
        }
        Err(p) => {
            corr_if(ctx, emit, format!("c19 index {} {file_txt}", w.start), "panic".into());
            let class = if many > 0 && p.contains("invalid reference sequence name") { "crai-index-panic-multiref" } else { "crai-index-panic" };
            ctx.fail(class, format!("cram::fs::index panicked ({p}); the file has {many} multi-reference slice(s)"), id.clone());
            None
        }
    };

    // ---- index variants for the query half
    let walker_index: crai::Index = truth.iter().map(record_of).collect();
    let mut variants: Vec<(&str, crai::Index)> = vec![];
    if let Some(ix) = &real_index {
        variants.push(("index", ix.clone()));
        match guarded(|| -> std::io::Result<crai::Index> {
            crai::fs::write(&crai_path, ix)?;
            crai::fs::read(&crai_path)
        }) {
            Ok(Ok(back)) => {
                if &back != ix {
                    ctx.fail("crai-file", format!("index written to a .crai file reads back different: {:?} vs {:?}", back.iter().map(entry_of).collect::<Vec<_>>(), ix.iter().map(entry_of).collect::<Vec<_>>()), id.clone());
                }
                variants.push(("index-file", back));
            }
            other => ctx.fail("crai-file", format!("crai write/read failed: {:?}", other.map(|r| r.map(|_| ()).map_err(|e| e.to_string()))), id.clone()),
        }
    }
    variants.push(("walker-index", walker_index.clone()));

    // ---- queries
    let mut qrng = Rng::new(case.seed ^ 0x51ed_270b);
    let mut all: Vec<(usize, Q)> = vec![];
    for rid in 0..case.nref {
        let on_ref: Vec<&GRec> = case.recs.iter().filter(|r| r.rid == Some(rid)).collect();
        for q in gen_queries(&mut qrng, case.ref_len, &on_ref, ctx.tier_thorough) {
            all.push((rid, q));
        }
    }
    let corr_index = real_index.as_ref().unwrap_or(&walker_index);
    let corr_name = if real_index.is_some() { "index" } else { "walker-index" };
    let mut nth = 0u64;
    let mut reported = std::collections::BTreeSet::new();
    for (vname, ix) in &variants {
        for (rid, q) in &all {
            let region = region_of(*rid, *q);
            let expect = scan_filter(&case.recs, *rid, *q);
            // ONE reader serves every query; now and then it is moved by a few sequential reads
            nth += 1;
            if nth % 4 == 0 {
                let _ = guarded(|| shared.records(&hdr).take((nth % 3) as usize).count());
            }
            let got = sync_query(&mut shared, &hdr, ix, &region);
            let (qs, qe) = (q.0.unwrap_or(1), q.1.unwrap_or(usize::MAX));
            let on_ref = case.recs.iter().filter(|r| r.rid == Some(*rid)).count();
            ctx.eval(if on_ref >= 2 { Some(fnv(format!("{id} {vname} {rid} {qs} {qe}").as_bytes())) } else { None });
            ctx.bump(&format!("queries_{vname}"));
            ctx.bump(if expect.is_empty() { "queries_hitting_nothing" } else { "queries_with_hits" });
            if *vname == corr_name {
                let ans = match &got {
                    Ok(v) => format!("recs={}", fmt_ids(v)),
                    Err(e) if e.starts_with("panic") => "panic".into(),
                    Err(e) => e.split(':').take(2).collect::<Vec<_>>().join(":"),
                };
                corr_if(ctx, emit, format!("c19 query {} {file_txt} {rid} {qs} {qe}", w.start), ans);
            }
            check_answer(ctx, case, vname, *rid, *q, &expect, &got, &mut reported);
        }
    }
    // the async reader, through the best index available
    let regions: Vec<Region> = all.iter().map(|(rid, q)| region_of(*rid, *q)).collect();
    let answers = async_query(&bytes, &repo, corr_index, &regions);
    for ((rid, q), got) in all.iter().zip(answers) {
        let expect = scan_filter(&case.recs, *rid, *q);
        ctx.eval(None);
        ctx.bump("queries_async");
        check_answer(ctx, case, "async", *rid, *q, &expect, &got, &mut reported);
    }

    let _ = std::fs::remove_file(&path);
    let _ = std::fs::remove_file(&crai_path);
    ctx.bump("files");
    if case.seed % 16 == 0 {
        ctx.sample(|| format!("{id}: {} refs of {} bp, {} records, rps {} spc {} -> {}", case.nref, case.ref_len, case.recs.len(), case.rps, case.spc, fmt_layout(&w)));
    }
}

#[allow(clippy::too_many_arguments)]
fn check_answer(ctx: &mut Ctx, case: &Case, vname: &str, rid: usize, q: Q, expect: &[usize], got: &Result<Vec<usize>, String>, reported: &mut std::collections::BTreeSet<String>) {
    let show = |q: Q| match q {
        (None, None) => String::new(),
        (a, b) => format!(":{}-{}", a.map(|x| x.to_string()).unwrap_or_default(), b.map(|x| x.to_string()).unwrap_or_default()),
    };
    match got {
        Ok(v) if v == expect => {}
        Ok(v) => {
            let class = classify(&case.recs, rid, v);
            // one report per (class, reader variant) and case keeps the output readable
            if reported.insert(format!("{class} {vname}")) {
                let name = |s: &usize| match case.recs.get(*s) {
                    Some(r) => match r.rid {
                        Some(x) => format!("r{s}@sq{x}:{}-{}", r.start, r.end),
                        None => format!("r{s}@unmapped"),
                    },
                    None => format!("r{s}?"),
                };
                ctx.fail(
                    class,
                    format!(
                        "query sq{rid}{} ({vname}) returned [{}], a full scan keeps [{}]",
                        show(q),
                        v.iter().map(name).collect::<Vec<_>>().join(" "),
                        expect.iter().map(name).collect::<Vec<_>>().join(" ")
                    ),
                    case.id.clone(),
                );
            } else {
                ctx.bump(&format!("oracle_fail_more:{class}"));
            }
        }
        Err(e) => {
            if reported.insert(format!("query-error {vname}")) {
                ctx.fail("query-error", format!("query sq{rid}{} ({vname}) failed: {e}", show(q)), case.id.clone());
            }
        }
    }
}

pub fn run(ctx: &mut Ctx) {
    if let Some(case) = ctx.replay_only.clone() {
        if super::c19_more::replay(ctx, &case) { return; }
        if super::c19_async::replay(ctx, &case) { return; }
        let k: u64 = case.get(1).and_then(|s| s.parse().ok()).unwrap_or(0);
        match case.first().map(|s| s.as_str()) {
            Some("corpus") => {
                if let Some(c) = corpus_case(k as usize) {
                    run_case(ctx, &c, true)
                }
            }
            Some("file") => run_case(ctx, &gen_case(k), true),
            _ => {}
        }
        return;
    }
    let mut k = 0;
    while let Some(c) = corpus_case(k) {
        run_case(ctx, &c, true);
        ctx.bump("corpus_cases");
        k += 1;
    }
    let n = ctx.n(500, 30_000);
    for it in 0..n {
        // thorough tier: every case goes through the oracle, every fourth also through the model
        let emit = !ctx.tier_thorough || it % 4 == 0;
        run_case(ctx, &gen_case(ctx.seed.wrapping_mul(1_000_193).wrapping_add(it)), emit);
    }
    super::c19_more::run(ctx);
    super::c19_async::run(ctx);
}
