//! C13, part 2 — truncation ABOVE the framing: the readers of `Noodles/Io/Binary.lean` (BAM / BCF
//! records, CRAM file definition + containers, BAI / tabix / CSI / gzi) and `Noodles/Io/Lines.lean`
//! (lazy SAM / VCF records, the "one line, then parse it" readers, GFF3 / GTF lines, FASTA) plus FASTQ,
//! and the CRAM file header container (`Noodles/Trunc/CramHeader.lean`), each on EVERY cut of small
//! inputs.
//!
//! Correspondence (`c13 tr <k> <i> <c12 request…>`): the request carries the complete input and the cut
//! `k`; the real reader is run on the first `k` bytes (behind BGZF / gzip where the reader wants that)
//! and its transcript (items, how it ended, bytes used) is the answer; the Lean driver runs the
//! transcription on `data.take k` — the very term the theorems of `Props/C13More.lean` are about.
//! `c13 cramhp` / `c13 cramh`: the CRAM file header container reader on every cut of containers the
//! real writer made (gzip block) and of hand-made raw-block containers; flate2's answer for the cut
//! gzip window goes on the request line, and the law the theorem assumes of it (`GzCutLaw`) is checked
//! on every cut.
//!
//! Oracle (inputs whose complete run is clean, i.e. what a writer produced): the items of the cut run
//! are a prefix of the items of the complete run — for the line readers one more item is allowed when
//! the cut falls strictly inside a line (the file then ENDS with an unterminated line; the reader
//! cannot know) —, never a panic; a BAM / BCF stream that ends inside a record or a CRAM file that
//! ends inside a container is an error, not a clean end; a cut index is an error, or the complete
//! index without the optional trailing count.
use super::c12_more::{self as m, Input, K};
use super::c15::cramwalk;
use crate::common::*;
use noodles_cram as cram;
use noodles_fastq as fastq;
use noodles_sam as sam;
use std::io::{self, BufRead, BufReader, Read};

// ------------------------------------------------------------------------------------------------
// the cut engine over the readers of suite c12 (part 2)

const TR_KINDS: [K; 16] = [K::BamV, K::Bcf, K::Cram, K::Bai, K::Tbi, K::Csi, K::Gzi, K::SamRec, K::VcfRec, K::SamLine, K::VcfLine, K::Fai, K::Crai, K::Gff, K::Gtf, K::Fasta];

/// position of the input word in the `c12` request of kind `k` (after the word `c12`)
fn data_index(k: K) -> usize {
    match k {
        K::SamLine | K::VcfLine | K::Fai | K::Crai => 4, // lines <mode> <utf8> <table> <data> <sched> <cap>
        K::FaSeq => 2,
        _ => 1,
    }
}

fn is_text(k: K) -> bool {
    matches!(k, K::SamRec | K::VcfRec | K::SamLine | K::VcfLine | K::Fai | K::Crai | K::Gff | K::Gtf | K::Fasta)
}

/// the input cut at `k` (of the payload the model sees), wrapped the way the real reader wants it
fn cut_input(k: K, full: &Input, cut: usize, rng: &mut Rng) -> Input {
    let model = full.model[..cut].to_vec();
    let data = match k {
        K::Tbi | K::Csi => m::bgzf_wrap(rng, &model),
        K::Crai => m::gzip(rng, &model),
        _ => model.clone(),
    };
    Input { data, model, bounds: vec![], sizes: full.sizes.clone() }
}

fn cap_of(k: K, sel: u64) -> Option<usize> {
    if k.buffered() { Some([8192usize, 1, 7, 64][(sel % 4) as usize]) } else { None }
}

/// `c13 tr <k> <i> <c12 request words with the COMPLETE input>`
fn tr_request(k: K, full: &Input, cut: usize, cut_inp: &Input, cap: Option<usize>) -> String {
    let req = m::request(k, cut_inp, &[], cap);
    let mut ws: Vec<String> = req.split(' ').skip(1).map(|s| s.to_string()).collect();
    let i = data_index(k);
    debug_assert_eq!(ws[i], hex(&cut_inp.model));
    ws[i] = hex(&full.model);
    format!("c13 tr {cut} {i} {}", ws.join(" "))
}

/// the same exclusions as suite c12 (inputs whose canonical view the model does not try to reproduce)
/// inputs above this size are judged by the oracle only (their request lines would be 100 kB each)
const LARGE_INPUT: usize = 16_384;

fn corr_excluded(ctx: &mut Ctx, k: K, cut_inp: &Input, got: &str) -> bool {
    if k == K::Fasta && !m::wf_fasta(&cut_inp.data) {
        ctx.bump("tr_corr_skipped:fasta-records-malformed");
        return true;
    }
    if (k == K::SamRec || k == K::VcfRec) && cut_inp.data.iter().any(|&c| c == b'+') && got.contains('?') {
        let plus_numeric = cut_inp.data.split(|&c| c == b'\t' || c == b'\n').any(|f| f.len() > 1 && f[0] == b'+' && f[1..].iter().all(|c| c.is_ascii_digit()));
        if plus_numeric {
            ctx.bump("tr_corr_skipped:signed-number");
            return true;
        }
    }
    false
}

/// items and ending of a transcript `… recs=a,b,c end=E@pos` / `… conts=… end=E@pos`
fn items_end(ans: &str) -> (Vec<String>, String) {
    let mut items = vec![];
    let mut end = String::from("?");
    for w in ans.split(' ') {
        if let Some(r) = w.strip_prefix("recs=").or(w.strip_prefix("conts=")) {
            if r != "-" {
                items = r.split(',').map(|s| s.to_string()).collect();
            }
        }
        if let Some(e) = w.strip_prefix("end=") {
            end = e.split('@').next().unwrap_or("?").to_string();
        }
    }
    (items, end)
}

/// record boundaries by the harness's own walk (not through noodles): BAM `u32` size, BCF two `u32`s
fn frame_bounds(raw: &[u8], words: usize) -> Vec<usize> {
    let mut v = vec![0];
    let mut at = 0;
    while at + 4 * words <= raw.len() {
        let mut n = 4 * words;
        for w in 0..words {
            n += u32::from_le_bytes(raw[at + 4 * w..at + 4 * w + 4].try_into().unwrap()) as usize;
        }
        at += n;
        v.push(at);
    }
    v
}

/// CRAM container boundaries by the harness's own walk: the 26-byte definition, then per container the
/// header (length, 4 ITF8, 2 LTF8, ITF8, landmarks, CRC-32) and `length` body bytes
fn cram_bounds(f: &[u8]) -> Vec<usize> {
    let mut v = vec![];
    let mut at = 26;
    while at + 4 <= f.len() {
        v.push(at);
        let len = i32::from_le_bytes(f[at..at + 4].try_into().unwrap());
        let mut p = at + 4;
        let mut ok = len >= 0;
        for _ in 0..4 {
            ok &= cramwalk::read_itf8(f, &mut p).is_some();
        }
        ok &= cramwalk::read_ltf8(f, &mut p).is_some();
        ok &= cramwalk::read_ltf8(f, &mut p).is_some();
        ok &= cramwalk::read_itf8(f, &mut p).is_some();
        let n = cramwalk::read_itf8(f, &mut p).unwrap_or(-1);
        ok &= n >= 0;
        for _ in 0..n.max(0) {
            ok &= cramwalk::read_itf8(f, &mut p).is_some();
        }
        if !ok {
            break;
        }
        at = p + 4 + len as usize;
        if v.len() > 70 {
            break;
        }
    }
    v.push(at);
    v
}

fn line_bounds(t: &[u8]) -> Vec<usize> {
    let mut v = vec![0];
    v.extend(m::line_ends(t));
    v
}

/// the property on one cut of a well-formed input (`full_ans`: the transcript of the complete input)
fn oracle_cut(ctx: &mut Ctx, k: K, full: &Input, full_ans: &str, cut: usize, got: &str, bounds: &[usize], case: &str) {
    let name = k.name();
    if got.starts_with("panic") {
        ctx.fail(&format!("panic:{}", k.class()), format!("{name}: the reader panicked on the first {cut} of {} bytes: {:.200}", full.model.len(), got), case.into());
        return;
    }
    match k {
        K::Bai | K::Tbi | K::Csi | K::Gzi => {
            if !got.starts_with("ok ") {
                ctx.bump(&format!("tr_index:{name}:cut-is-error:{}", got.split(' ').next().unwrap_or("?")));
                return;
            }
            let strip = |s: &str| -> String { s.split(" @").next().unwrap_or("").to_string() };
            let (f, g) = (strip(full_ans), strip(got));
            if f == g {
                ctx.bump(&format!("tr_index:{name}:same-index"));
                if k == K::Gzi && cut < full.model.len() {
                    ctx.fail("fabricated:gzi", format!("gzi: the first {cut} of {} bytes were accepted as the complete index", full.model.len()), case.into());
                }
                return;
            }
            let head = |s: &str| s.rsplit_once('/').map(|x| x.0.to_string()).unwrap_or_default();
            if k != K::Gzi && head(&f) == head(&g) && g.ends_with("/-") {
                // the optional trailing n_no_coor is cut: everything before it is delivered unchanged
                ctx.bump(&format!("tr_index:{name}:complete-without-optional-count"));
                return;
            }
            // (no exception for tabix with n_ref = 0: since /repo `fix:` 125ecd7 a names block cut short by
            // the end of the input is an error — theorem `tabix_truncate` holds without `0 < n_ref`,
            // witness `tabix_cut_names_rejected_when_no_reference`; a reader that accepts the shorter name
            // list delivers a DIFFERENT index)
            ctx.fail(&format!("fabricated:{}", k.class()), format!("{name}: the first {cut} of {} bytes were accepted as a DIFFERENT index: [{:.160}] for [{:.160}]", full.model.len(), g, f), case.into());
        }
        _ => {
            let (fi, _) = items_end(full_ans);
            let (gi, ge) = items_end(got);
            let at_boundary = bounds.contains(&cut);
            // frame ends wholly inside the cut (the first boundary is where the frames start); the
            // EOF container of a CRAM file is a frame but not an item
            let whole = bounds.iter().skip(1).filter(|&&b| b <= cut).count().min(fi.len());
            for (i, it) in gi.iter().enumerate() {
                if fi.get(i) == Some(it) {
                    continue;
                }
                let last = i + 1 == gi.len();
                if is_text(k) && last && !at_boundary {
                    // the cut file ends with an unterminated line / record: delivered as it stands
                    ctx.bump(&format!("tr_text:{name}:cut-line-delivered"));
                    continue;
                }
                ctx.fail(&format!("fabricated:{}", k.class()), format!("{name}: item {i} of the first {cut} bytes is not item {i} of the complete input: [{:.120}] for [{:.120}]", it, fi.get(i).map(|s| s.as_str()).unwrap_or("<nothing>")), case.into());
                return;
            }
            if gi.len() > fi.len() {
                ctx.fail(&format!("fabricated:{}", k.class()), format!("{name}: {} items from the first {cut} bytes, {} in the complete input", gi.len(), fi.len()), case.into());
                return;
            }
            if !is_text(k) {
                if gi.len() > whole {
                    ctx.fail(&format!("fabricated:{}", k.class()), format!("{name}: {} items delivered, {whole} are wholly inside the first {cut} bytes", gi.len()), case.into());
                    return;
                }
                if ge == "eof" && gi.len() == fi.len() && !at_boundary {
                    // every item delivered and then a clean end although bytes are missing: the CRAM
                    // reader stops at the EOF container's header and never reads its body (BAM / BCF:
                    // cannot happen — the last record would be cut)
                    ctx.bump(&format!("tr_end:{name}:inside-after-last-item:eof"));
                    if k != K::Cram {
                        ctx.fail(&format!("silent-truncation:{}", k.class()), format!("{name}: the input ends inside a record (cut {cut}) but the reader reported a clean end after all {} items", gi.len()), case.into());
                    }
                    return;
                }
                if ge == "eof" && !at_boundary {
                    ctx.fail(&format!("silent-truncation:{}", k.class()), format!("{name}: the input ends inside a record / container (cut {cut}) but the reader reported a clean end after {} items", gi.len()), case.into());
                    return;
                }
                if ge == "eof" && gi.len() < whole {
                    ctx.fail(&format!("lost:{}", k.class()), format!("{name}: clean end after {} items although {whole} are wholly present", gi.len()), case.into());
                    return;
                }
            }
            ctx.bump(&format!("tr_end:{name}:{}:{ge}", if at_boundary { "at-boundary" } else { "inside" }));
        }
    }
}

/// every cut (or, for long inputs, the structure boundaries ± 1 and random offsets)
fn cuts_of(len: usize, bounds: &[usize], rng: &mut Rng, budget: usize) -> Vec<usize> {
    if len + 1 <= budget {
        return (0..=len).collect();
    }
    let mut v = vec![0, 1, len.saturating_sub(1), len];
    for &b in bounds {
        for d in [-1i64, 0, 1] {
            let x = b as i64 + d;
            if x >= 0 && x as usize <= len {
                v.push(x as usize);
            }
        }
    }
    while v.len() < budget {
        v.push(rng.below(len as u64 + 1) as usize);
    }
    v.sort();
    v.dedup();
    v
}

fn tr_case(ctx: &mut Ctx, k: K, full: &Input, sub: u64, only: Option<usize>, label: &str, budget: usize) {
    let mut rng = Rng::new(sub ^ 0x7c13);
    let cap = cap_of(k, sub);
    let plain_cap = if k.buffered() { Some(full.data.len().max(1) + 8) } else { None };
    let full_ans = m::real(k, full, vec![], plain_cap);
    // the oracle speaks about inputs a writer produced: the complete run is clean
    let clean = match k {
        K::Bai | K::Tbi | K::Csi | K::Gzi => full_ans.starts_with("ok "),
        _ => full_ans.contains("end=eof") && !full_ans.contains(":panic") && !full_ans.contains('?'),
    };
    let clean = clean
        && match k {
            // … and ends with a complete last line (text), has no zero-size frame in it (BAM / BCF:
            // a size of 0 is read as the end of the stream)
            K::SamRec | K::VcfRec | K::SamLine | K::VcfLine | K::Fai | K::Crai | K::Gff | K::Gtf | K::Fasta => full.model.is_empty() || full.model.ends_with(b"\n"),
            K::BamV => *frame_bounds(&full.model, 1).last().unwrap() == full.model.len(),
            K::Bcf => *frame_bounds(&full.model, 2).last().unwrap() == full.model.len(),
            _ => true,
        };
    let bounds = match k {
        K::BamV => frame_bounds(&full.model, 1),
        K::Bcf => frame_bounds(&full.model, 2),
        K::Cram => cram_bounds(&full.model),
        K::Fasta => {
            // record boundaries: a `>` at the start of a line
            let mut v = vec![0];
            for e in m::line_ends(&full.model) {
                if full.model.get(e) == Some(&b'>') || e == full.model.len() {
                    v.push(e);
                }
            }
            v
        }
        _ if is_text(k) => line_bounds(&full.model),
        _ => vec![],
    };
    ctx.bump(&format!("tr_input:{}:{}", k.name(), if clean { "clean" } else { "damaged" }));
    ctx.bump(&format!("tr_size:{}", match full.model.len() { 0 => "0", 1..=63 => "1-63", 64..=255 => "64-255", 256..=1023 => "256-1023", _ => "1024+" }));
    let all_bounds: Vec<usize> = bounds.iter().copied().chain(full.bounds.iter().copied()).collect();
    for cut in cuts_of(full.model.len(), &all_bounds, &mut rng, budget) {
        if let Some(o) = only {
            if o != cut {
                continue;
            }
        }
        let ci = cut_input(k, full, cut, &mut rng);
        let got = m::real(k, &ci, vec![], cap);
        let case = format!("more {label} {} {sub} {cut}", k.name());
        let nontrivial = clean && cut > 0 && cut < full.model.len() && (m::count_items(&full_ans) >= 2 || full_ans.starts_with("ok "));
        ctx.eval(if nontrivial { Some(fnv(case.as_bytes())) } else { None });
        ctx.bump(&format!("tr:{}", k.name()));
        if clean {
            oracle_cut(ctx, k, full, &full_ans, cut, &got, &bounds, &case);
        } else if got.starts_with("panic") {
            ctx.fail(&format!("panic:{}", k.class()), format!("{}: the reader panicked on the first {cut} of {} bytes of a damaged input: {:.200}", k.name(), full.model.len(), got), case.clone());
        }
        if full.model.len() > LARGE_INPUT {
            ctx.bump("tr_corr_skipped:large-input-oracle-only");
        } else if only.is_none() && !corr_excluded(ctx, k, &ci, &got) {
            let req = tr_request(k, full, cut, &ci, cap);
            ctx.sample(|| if req.len() < 380 { req.clone() } else { String::new() });
            ctx.corr(req, got);
        }
    }
}

fn tr_generated(ctx: &mut Ctx, k: K, sub: u64, only: Option<usize>) {
    let mut rng = Rng::new(sub);
    let mut hist = vec![];
    // mostly valid structured inputs (the generators of suite c12 damage about a third of them)
    // two inputs of three are taken among the undamaged ones: the oracle speaks about those
    let want_clean = sub % 3 != 0;
    let mut inp = None;
    for _ in 0..8 {
        hist.clear();
        match guarded(|| m::gen_input(k, &mut hist, &mut rng)).ok().flatten() {
            Some(i) if i.model.len() <= 2600 && !i.model.is_empty() => {
                let damaged = hist.iter().any(|h| (h.starts_with("index_damage:") || h.starts_with("text_damage:")) && !h.ends_with(":valid"));
                let keep = !(want_clean && damaged);
                inp = Some(i);
                if keep {
                    break;
                }
            }
            _ => {}
        }
    }
    let Some(inp) = inp else {
        ctx.bump(&format!("gen_rejected:tr-{}", k.name()));
        return;
    };
    if only.is_none() {
        for h in &hist {
            ctx.bump(&format!("tr_gen:{h}"));
        }
    }
    let budget = if ctx.tier_thorough { 300 } else { 110 };
    tr_case(ctx, k, &inp, sub, only, "gen", budget);
}

/// hand-written boundary cases (run first): the witnesses of the Lean theorems, replayed on the real
/// readers, and one input per branch the cut analysis distinguishes
fn tr_corpus() -> Vec<(K, Input)> {
    let t = |k: K, s: &[u8]| (k, Input::plain(s.to_vec(), vec![]));
    let mut v = vec![];
    // witness `parsedLines_cut_delivers_partial_line`: the GTF line reader, "ab\ncd\n" cut at 4
    v.push(t(K::Gtf, b"ab\ncd\n"));
    v.push(t(K::Gff, b"ab\n \ncd\n\n"));
    // gzi: count first — every strict prefix is UnexpectedEof; zero entries
    v.push(t(K::Gzi, &[2, 0, 0, 0, 0, 0, 0, 0, 5, 0, 0, 0, 0, 0, 0, 0, 7, 0, 0, 0, 0, 0, 0, 0, 9, 0, 0, 0, 0, 0, 0, 0, 11, 0, 0, 0, 0, 0, 0, 0]));
    v.push(t(K::Gzi, &[0, 0, 0, 0, 0, 0, 0, 0]));
    // BAI: no reference, with and without n_no_coor; one reference with a metadata bin, a chunk, an interval
    v.push(t(K::Bai, b"BAI\x01\x00\x00\x00\x00"));
    v.push(t(K::Bai, b"BAI\x01\x00\x00\x00\x00\x09\x00\x00\x00\x00\x00\x00\x00"));
    let mut bai = b"BAI\x01\x01\x00\x00\x00".to_vec();
    bai.extend_from_slice(&2u32.to_le_bytes()); // n_bin
    bai.extend_from_slice(&4681u32.to_le_bytes());
    bai.extend_from_slice(&1u32.to_le_bytes());
    bai.extend_from_slice(&[1, 0, 0, 0, 0, 0, 0, 0, 2, 0, 0, 0, 0, 0, 0, 0]);
    bai.extend_from_slice(&37450u32.to_le_bytes());
    bai.extend_from_slice(&2u32.to_le_bytes());
    bai.extend_from_slice(&[3u8; 32]);
    bai.extend_from_slice(&1u32.to_le_bytes()); // n_intv
    bai.extend_from_slice(&[4u8; 8]);
    v.push(t(K::Bai, &bai));
    let mut bai2 = bai.clone();
    bai2.extend_from_slice(&7u64.to_le_bytes());
    v.push(t(K::Bai, &bai2));
    // tabix: n_ref = 0 with two names — witness `tabix_cut_names_rejected_when_no_reference` —, and
    // n_ref = 1 with the same header
    for nref in [0u32, 1] {
        let mut p = b"TBI\x01".to_vec();
        p.extend_from_slice(&nref.to_le_bytes());
        for x in [2u32, 1, 2, 0, 35, 0] {
            p.extend_from_slice(&x.to_le_bytes());
        }
        p.extend_from_slice(&4u32.to_le_bytes());
        p.extend_from_slice(b"a\0b\0");
        for _ in 0..nref {
            p.extend_from_slice(&0u32.to_le_bytes()); // n_bin
            p.extend_from_slice(&0u32.to_le_bytes()); // n_intv
        }
        let file = m::bgzf_wrap(&mut Rng::new(5), &p);
        v.push((K::Tbi, Input { data: file, model: p, bounds: vec![], sizes: vec![] }));
    }
    // CSI without aux, one reference with one bin, and a trailing count
    {
        let mut p = b"CSI\x01".to_vec();
        for x in [14u32, 5, 0, 1, 1] {
            p.extend_from_slice(&x.to_le_bytes());
        }
        p.extend_from_slice(&4681u32.to_le_bytes());
        p.extend_from_slice(&[9u8; 8]);
        p.extend_from_slice(&1u32.to_le_bytes());
        p.extend_from_slice(&[1u8; 16]);
        p.extend_from_slice(&3u64.to_le_bytes());
        let file = m::bgzf_wrap(&mut Rng::new(6), &p);
        v.push((K::Csi, Input { data: file, model: p, bounds: vec![], sizes: vec![] }));
    }
    // BAM: two minimal records; BCF: `l_shared = 0`
    let rec = |name: &[u8]| -> Vec<u8> {
        let mut r = vec![0u8; 32];
        r[8] = name.len() as u8 + 1;
        r.extend_from_slice(name);
        r.push(0);
        let mut f = (r.len() as u32).to_le_bytes().to_vec();
        f.extend(r);
        f
    };
    v.push(t(K::BamV, &[rec(b"a"), rec(b"bc")].concat()));
    v.push(t(K::Bcf, &[0, 0, 0, 0]));
    // CRAM: definition + EOF container only (a cut exactly before the EOF container is an error)
    v.push(t(K::Cram, &[b"CRAM\x03\x00".to_vec(), vec![7u8; 20], CRAM_EOF.to_vec()].concat()));
    // text: lazy SAM / VCF records with a short last line, CRLF, UTF-8 cut inside a character
    v.push(t(K::SamRec, b"r1\t0\tsq0\t1\t30\t2M\t*\t0\t0\tAC\tII\tNM:i:0\nr2\t4\t*\t0\t0\t*\t*\t0\t0\t*\t*\r\n"));
    v.push(t(K::SamLine, b"r1\t0\tsq0\t1\t30\t2M\t*\t0\t0\tAC\tII\tNM:i:0\nr2\t4\t*\t0\t0\t*\t*\t0\t0\t*\t*\n"));
    v.push(t(K::VcfRec, "sq0\t1\t.\tA\tC\t.\t.\tNS=\u{e9}\nsq0\t2\tid\tG\tT\t3\tq\t.\tGT\t0/1\n".as_bytes()));
    v.push(t(K::VcfLine, b"sq0\t1\t.\tA\tC\t.\t.\t.\nsq0\t22\t.\tG\tT\t.\t.\t.\n"));
    // fai: a line that still parses when its last column is cut ("61" -> "6"): an ALTERED record is
    // delivered by the text reader when the file ends inside the line
    v.push(t(K::Fai, b"sq0\t100\t5\t60\t61\nsq1\t20\t200\t10\t11\n"));
    {
        let text = b"0\t1\t100\t26\t30\t400\n1\t5\t20\t500\t31\t44\n".to_vec();
        v.push((K::Crai, Input { data: m::gzip(&mut Rng::new(3), &text), model: text, bounds: vec![], sizes: vec![] }));
    }
    v.push(t(K::Fasta, b">a\nACGT\n>b desc\nGG\nTT\n"));
    // the inputs of the Lean witnesses `sam_lazy_cut_witness`, `vcf_lazy_cut_inside_character_witness`,
    // `gff_lines_cut_delivers_partial_line`, `fasta_cut_witness` (every cut of each)
    v.push(t(K::SamRec, b"1\t2\t3\t4\t5\t6\t7\t8\t9\tA\tB\n1\t2\t3\t4\t5\t6\t7\t8\t9\tA\tB\n"));
    v.push(t(K::VcfRec, b"1\t2\t3\t4\t5\t6\t7\t8\t9\tA\tB\n1\t2\t3\t4\t5\t6\t7\t8\t9\tA\tB\n"));
    v.push(t(K::VcfRec, "\u{e9}\t2\t3\t4\t5\t6\t7\t8\n\u{e9}\t2\t3\t4\t5\t6\t7\t8\n".as_bytes()));
    v.push(t(K::Gff, b"a\n \n\nbc\n"));
    v.push(t(K::Fasta, b">a\nACGT\n>b\nGG\n"));
    // BCF: a record whose sample block is longer than 64 KiB, then a small one (a reader that fills a
    // length-prefixed block in two stages has to check the second stage too); the oracle alone runs here
    {
        let mut site = vec![0u8; 24];
        site[18] = 1;
        site.extend_from_slice(&[0x07, 0x17, b'A', 0x00]);
        let big = |n: usize| -> Vec<u8> {
            let mut r = (site.len() as u32).to_le_bytes().to_vec();
            r.extend_from_slice(&(n as u32).to_le_bytes());
            r.extend_from_slice(&site);
            r.extend((0..n).map(|i| (i % 251) as u8));
            r
        };
        v.push(t(K::Bcf, &[big(70_001), big(3)].concat()));
        v.push(t(K::Bcf, &[big(2), big(65_537)].concat()));
    }
    v
}

const CRAM_EOF: [u8; 38] = [
    0x0f, 0x00, 0x00, 0x00, 0xff, 0xff, 0xff, 0xff, 0x0f, 0xe0, 0x45, 0x4f, 0x46, 0x00, 0x00, 0x00, 0x00, 0x01, 0x00, 0x05, 0xbd, 0xd9, 0x4f, 0x00, 0x01, 0x00, 0x06, 0x06, 0x01, 0x00, 0x01, 0x00, 0x01, 0x00, 0xee, 0x63,
    0x01, 0x4b,
];

// ------------------------------------------------------------------------------------------------
// FASTQ (the reader of `Noodles/Io/Loops.lean`, request `c12 fastq 1 <data> <sched> <cap>`)

fn fastq_real(data: &[u8], cap: usize) -> String {
    guarded(|| {
        let src = crate::adversary::SchedReader::plain(data.to_vec());
        let mut r = fastq::io::Reader::new(BufReader::with_capacity(cap, src));
        let mut rec = fastq::Record::default();
        let mut recs = vec![];
        let end;
        loop {
            match r.read_record(&mut rec) {
                Ok(0) => {
                    end = "eof".to_string();
                    break;
                }
                Ok(n) => recs.push(format!("{n}:{}:{}:{}:{}", hex(rec.name()), hex(rec.description()), hex(rec.sequence()), hex(rec.quality_scores()))),
                Err(e) => {
                    end = errclass(&e).to_string();
                    break;
                }
            }
            if recs.len() > 5000 {
                end = "too-many".to_string();
                break;
            }
        }
        let at = r.get_ref().get_ref().pos - r.get_ref().buffer().len();
        format!("recs={} end={end}@{at}", if recs.is_empty() { "-".into() } else { recs.join(",") })
    })
    .unwrap_or_else(|p| format!("panic:{p}"))
}

fn gen_fastq(rng: &mut Rng) -> Vec<u8> {
    let crlf = rng.chance(1, 4);
    let nl = if crlf { "\r\n" } else { "\n" };
    let mut s = String::new();
    for i in 0..rng.below(5) {
        let l = rng.below(12) as usize;
        s += &format!("@r{i}");
        match rng.below(3) {
            0 => {}
            1 => s += " d e",
            _ => s += "\tLN:3",
        }
        s += nl;
        s += &(0..l).map(|_| *rng.pick(&['A', 'C', 'G', 'T', 'N'])).collect::<String>();
        s += nl;
        s += "+";
        if rng.chance(1, 3) {
            s += &format!("r{i}");
        }
        s += nl;
        s += &(0..l).map(|_| (33 + rng.below(40) as u8) as char).collect::<String>();
        s += nl;
    }
    s.into_bytes()
}

fn fastq_case(ctx: &mut Ctx, text: &[u8], sub: u64, only: Option<usize>) {
    let cap = [8192usize, 1, 5, 64][(sub % 4) as usize];
    let full_ans = fastq_real(text, text.len() + 8);
    let (fi, fe) = items_end(&full_ans);
    let clean = fe == "eof";
    // record boundaries: every fourth line end
    let les = m::line_ends(text);
    let mut bounds = vec![0];
    bounds.extend(les.iter().skip(3).step_by(4).copied());
    ctx.bump(&format!("tr_input:fastq:{}", if clean { "clean" } else { "damaged" }));
    for cut in 0..=text.len() {
        if let Some(o) = only {
            if o != cut {
                continue;
            }
        }
        let got = fastq_real(&text[..cut], cap);
        let case = format!("more fastq {sub} {cut}");
        ctx.eval(if clean && fi.len() >= 2 && cut > 0 && cut < text.len() { Some(fnv(case.as_bytes())) } else { None });
        ctx.bump("tr:fastq");
        if got.starts_with("panic") {
            ctx.fail("panic:fastq", format!("fastq: the reader panicked on the first {cut} of {} bytes: {:.200}", text.len(), got), case.clone());
        } else if clean {
            // FASTQ is not among the formats the property quantifies over; what is checked is what the
            // theorem `fastq_cut` says: whole records unchanged, then at most one more record made of
            // the cut one, or an error
            let (gi, ge) = items_end(&got);
            let at_boundary = bounds.contains(&cut);
            let whole = bounds.iter().filter(|&&b| b > 0 && b <= cut).count();
            let mut bad = gi.len() > whole + if at_boundary { 0 } else { 1 };
            for (i, it) in gi.iter().enumerate().take(whole) {
                bad |= fi.get(i) != Some(it);
            }
            bad |= gi.len() < whole;
            if bad {
                ctx.fail("fabricated:fastq", format!("fastq: the first {cut} bytes give {} records, the whole records before the cut are not delivered unchanged and followed by at most one more", gi.len()), case.clone());
            } else if gi.len() == whole + 1 {
                ctx.bump("tr_text:fastq:cut-record-delivered");
            } else {
                ctx.bump(&format!("tr_end:fastq:{}:{ge}", if at_boundary { "at-boundary" } else { "inside" }));
            }
        }
        if only.is_none() {
            ctx.corr(format!("c13 tr {cut} 2 fastq 1 {} - {cap}", hex(text)), got);
        }
    }
}

// ------------------------------------------------------------------------------------------------
// the CRAM file header container

fn err_word(e: &io::Error) -> Option<&'static str> {
    match e.kind() {
        io::ErrorKind::UnexpectedEof => Some("eof"),
        io::ErrorKind::InvalidData => Some("data"),
        _ => None,
    }
}

/// flate2 on a gzip file header block, under the read pattern of `read_file_header` (`read_exact` of
/// `l_text`, then `BufReader` fills through `take(l_text)` to the end):
/// (`first4` or `!class`, text, stop); `None` when an error class is outside the model's
fn gz_run(window: &[u8]) -> Option<(String, Vec<u8>, Option<&'static str>)> {
    let mut dec = flate2::read::GzDecoder::new(window);
    let mut first = [0u8; 4];
    match dec.read_exact(&mut first) {
        Err(e) => Some((format!("!{}", err_word(&e)?), vec![], None)),
        Ok(()) => {
            let lt = i32::from_le_bytes(first);
            let mut text = vec![];
            let mut stop = None;
            if lt >= 0 {
                let mut br = io::BufReader::new(dec.take(lt as u64));
                loop {
                    match br.fill_buf() {
                        Ok(b) if b.is_empty() => break,
                        Ok(b) => {
                            text.extend_from_slice(b);
                            let n = b.len();
                            br.consume(n);
                        }
                        Err(e) if e.kind() == io::ErrorKind::Interrupted => continue,
                        Err(e) => {
                            stop = Some(err_word(&e)?);
                            break;
                        }
                    }
                }
            }
            Some((hex(&first), text, stop))
        }
    }
}

/// the harness's own walk to the block data of a file header container: (offset of the block data,
/// method, compressed size, uncompressed size), as far as the bytes go
fn header_block(c: &[u8]) -> Option<(usize, u8, usize, usize)> {
    if c.len() < 4 {
        return None;
    }
    let len = i32::from_le_bytes(c[..4].try_into().unwrap());
    let mut p = 4;
    for _ in 0..4 {
        cramwalk::read_itf8(c, &mut p)?;
    }
    cramwalk::read_ltf8(c, &mut p)?;
    cramwalk::read_ltf8(c, &mut p)?;
    cramwalk::read_itf8(c, &mut p)?;
    let n = cramwalk::read_itf8(c, &mut p)?;
    for _ in 0..n.max(0) {
        cramwalk::read_itf8(c, &mut p)?;
    }
    p += 4;
    if len < 0 || p > c.len() {
        return None;
    }
    let end = (p + len as usize).min(c.len());
    let method = *c.get(p)?;
    let mut q = p + 2;
    if q > end {
        return None;
    }
    cramwalk::read_itf8(&c[..end], &mut q)?;
    let cs = cramwalk::read_itf8(&c[..end], &mut q)?;
    let us = cramwalk::read_itf8(&c[..end], &mut q)?;
    if cs < 0 || us < 0 {
        return None;
    }
    Some((q, method, cs as usize, us as usize))
}

/// the `G` word of a request for the (cut) container `c`: `-` when no gzip window is reached
fn gz_word(c: &[u8]) -> Option<(String, Option<(String, Vec<u8>, Option<&'static str>)>)> {
    match header_block(c) {
        Some((q, 1, cs, _)) => {
            let len = i32::from_le_bytes(c[..4].try_into().unwrap()) as usize;
            // the container's `Take(len)` also limits the window
            let body_end = {
                let mut p = 4;
                for _ in 0..4 {
                    cramwalk::read_itf8(c, &mut p);
                }
                cramwalk::read_ltf8(c, &mut p);
                cramwalk::read_ltf8(c, &mut p);
                cramwalk::read_itf8(c, &mut p);
                let n = cramwalk::read_itf8(c, &mut p).unwrap_or(0);
                for _ in 0..n.max(0) {
                    cramwalk::read_itf8(c, &mut p);
                }
                (p + 4 + len).min(c.len())
            };
            let w = &c[q.min(body_end)..(q + cs).min(body_end)];
            let run = gz_run(w)?;
            Some((format!("{}={}/{}/{}", hex(w), run.0, hex(&run.1), run.2.unwrap_or("-")), Some(run)))
        }
        _ => Some(("-".into(), None)),
    }
}

fn read_lines_until_error<R: BufRead>(r: &mut R) -> (Vec<Vec<u8>>, Option<io::Error>) {
    let mut lines = vec![];
    loop {
        let mut buf = Vec::new();
        match r.read_until(b'\n', &mut buf) {
            Ok(0) => return (lines, None),
            Ok(_) => {
                if buf.last() == Some(&b'\n') {
                    buf.pop();
                    if buf.last() == Some(&b'\r') {
                        buf.pop();
                    }
                }
                lines.push(buf);
            }
            Err(e) => return (lines, Some(e)),
        }
    }
}

/// the public pieces in the order of `read_file_header_inner`: the lines, and how it ended
fn cramh_parts(c: &[u8]) -> (String, Vec<Vec<u8>>) {
    let mut r = cram::io::Reader::new(c);
    let mut lines_out = vec![];
    let ans = (|| -> io::Result<Option<io::Error>> {
        let mut hr = r.header_reader();
        let mut cr = hr.container_reader()?;
        let err = {
            let mut tr = cr.raw_sam_header_reader()?;
            let (lines, err) = read_lines_until_error(&mut io::BufReader::new(&mut tr));
            lines_out = lines;
            if err.is_none() {
                tr.discard_to_end()?;
            }
            err
        };
        if err.is_none() {
            cr.discard_to_end()?;
        }
        Ok(err)
    })();
    let d_lines = |ls: &[Vec<u8>]| if ls.is_empty() { "-".to_string() } else { ls.iter().map(|l| hex(l)).collect::<Vec<_>>().join(";") };
    match ans {
        Ok(None) => (format!("lines={} end=ok", d_lines(&lines_out)), lines_out),
        Ok(Some(e)) => (format!("lines={} end={}", d_lines(&lines_out), errclass(&e)), lines_out),
        Err(e) => (format!("lines={} end={}", d_lines(&lines_out), errclass(&e)), lines_out),
    }
}

fn header_token(h: &sam::Header) -> String {
    let mut w = sam::io::Writer::new(Vec::new());
    w.write_header(h).unwrap();
    format!("{:x}", fnv(w.get_ref()))
}

/// the real parser's verdict on the lines: `!` or the token of the parsed header
fn parser_verdict(lines: &[Vec<u8>]) -> String {
    let mut p = sam::header::Parser::default();
    for l in lines {
        if p.parse_partial(l).is_err() {
            return "!".into();
        }
    }
    header_token(&p.finish())
}

fn cramh_real(c: &[u8]) -> String {
    guarded(|| {
        let mut r = cram::io::Reader::new(c);
        match r.read_file_header() {
            Ok(h) => format!("ok {}", header_token(&h)),
            Err(e) => errclass(&e).to_string(),
        }
    })
    .unwrap_or_else(|p| format!("panic:{p}"))
}

/// one header container (`c` = its bytes, from the length field to the end of the body), every cut
fn cramh_case(ctx: &mut Ctx, c: &[u8], label: &str, sub: u64, only: Option<usize>) {
    let full = cramh_real(c);
    // (a container the harness's own walk cannot follow — negative length or sizes — has no gzip window)
    let (q, method, cs) = match header_block(c) {
        Some((q, m, cs, _)) => (q, m, cs),
        None => {
            ctx.bump("cramh:unwalkable");
            (c.len(), 0, 0)
        }
    };
    let gz = method == 1;
    ctx.bump(&format!("cramh_input:{}:{}", if gz { "gzip" } else { "raw" }, if full.starts_with("ok ") { "clean" } else { "damaged" }));
    let full_run = if gz { gz_run(&c[q..(q + cs).min(c.len())]) } else { None };
    for k in 0..=c.len() {
        if let Some(o) = only {
            if o != k {
                continue;
            }
        }
        let case = format!("more cramh {label} {sub} {k}");
        let cut = &c[..k];
        let got = cramh_real(cut);
        ctx.eval(if full.starts_with("ok ") && k > 16 && k < c.len() { Some(fnv(case.as_bytes())) } else { None });
        ctx.bump("tr:cramh");
        // ---- oracle: an error, or the complete header — never a different one
        if got.starts_with("panic") {
            ctx.fail("panic:cram-header", format!("cram file header: the reader panicked on the first {k} of {} container bytes: {:.200}", c.len(), got), case.clone());
        } else if full.starts_with("ok ") {
            if got == full {
                ctx.bump(&format!("cramh:{}:complete-header{}", if gz { "gzip" } else { "raw" }, if k < c.len() { "-from-cut-bytes" } else { "" }));
            } else if got.starts_with("ok ") {
                if gz {
                    // a container as noodles writes it
                    ctx.fail("silent-header-truncation:cram", format!("cram file header: the first {k} of {} bytes of a header container were accepted as a DIFFERENT header", c.len()), case.clone());
                } else {
                    // a raw (uncompressed) header block — not what noodles writes —: every `Take` in
                    // the chain just ends; theorem `cram_raw_header_cut_accepted`
                    ctx.bump("cramh:raw:cut-accepted-as-shorter-header");
                }
            } else {
                ctx.bump(&format!("cramh:{}:cut-is-error:{got}", if gz { "gzip" } else { "raw" }));
            }
        }
        // ---- the law the theorem assumes of flate2 (`GzCutLaw`), on this cut of the gzip window
        let Some((gword, run)) = guarded(|| gz_word(cut)).ok().flatten() else {
            ctx.bump("cramh:skipped:gzip-error-class");
            continue;
        };
        if let (Some(run), Some(fr)) = (&run, &full_run) {
            if fr.2.is_none() && !fr.0.starts_with('!') && k < q + cs {
                let lawful = run.0.starts_with('!') || (run.0 == fr.0 && (run.2.is_some() || run.1 == fr.1));
                ctx.eval(None);
                if lawful {
                    ctx.bump(if run.0.starts_with('!') { "gz_cut_law:first-read-fails" } else if run.2.is_some() { "gz_cut_law:ends-with-error" } else { "gz_cut_law:complete-text" });
                } else {
                    ctx.fail("assumed-law:gzip-cut", format!("flate2 on the first {} bytes of a gzip stream reported a clean end after a text that is not the complete one", k.saturating_sub(q)), case.clone());
                }
            }
        }
        if only.is_some() {
            continue;
        }
        // ---- correspondence
        let (parts, lines) = guarded(|| cramh_parts(cut)).unwrap_or_else(|p| (format!("panic:{p}"), vec![]));
        ctx.corr(format!("c13 cramhp {k} {} {gword}", hex(c)), parts);
        let lw = if lines.is_empty() { "-".to_string() } else { lines.iter().map(|l| hex(l)).collect::<Vec<_>>().join(";") };
        // an empty line cannot be told from no line in the `hex;hex` list: such headers are not generated
        if lines.iter().any(|l| l.is_empty()) {
            ctx.bump("cramh:skipped:empty-line");
            continue;
        }
        let verdict = guarded(|| parser_verdict(&lines)).unwrap_or_else(|_| "!".into());
        ctx.corr(format!("c13 cramh {k} {} {gword} {lw} {verdict}", hex(c)), got);
    }
}

/// a header container as the real writer makes it (one gzip block), for a generated header
fn written_header_container(rng: &mut Rng) -> Vec<u8> {
    use sam::header::record::value::{map, Map};
    let mut b = sam::Header::builder();
    if rng.chance(3, 4) {
        b = b.set_header(Map::<map::Header>::new(map::header::Version::new(1, 6)));
    }
    for i in 0..rng.below(4) {
        let len = 1 + rng.below(100_000) as usize;
        let mut m5 = String::new();
        for _ in 0..32 {
            m5.push(*rng.pick(&['0', '1', '2', '3', '4', '5', '6', '7', '8', '9', 'a', 'b', 'c', 'd', 'e', 'f']));
        }
        let mut rs = Map::<map::ReferenceSequence>::new(std::num::NonZero::new(len).unwrap());
        rs.other_fields_mut().insert(map::reference_sequence::tag::MD5_CHECKSUM, m5.into());
        b = b.add_reference_sequence(format!("sq{i}"), rs);
    }
    for i in 0..rng.below(3) {
        b = b.add_comment(format!("comment {i} {}", "x".repeat(rng.below(40) as usize)));
    }
    let header = b.build();
    let mut file = Vec::new();
    {
        let mut w = cram::io::Writer::new(&mut file);
        w.write_header(&header).unwrap();
        w.try_finish(&header).unwrap();
    }
    // definition (26 bytes), header container, EOF container (38 bytes)
    file[26..file.len() - 38].to_vec()
}

fn itf8(n: usize) -> Vec<u8> {
    if n < 0x80 {
        vec![n as u8]
    } else if n < 0x4000 {
        vec![0x80 | (n >> 8) as u8, n as u8]
    } else {
        vec![0xc0 | (n >> 16) as u8, (n >> 8) as u8, n as u8]
    }
}

/// a hand-made header container: `method` 0 (raw) or 1 (gzip) block holding `l_text` + text
fn made_header_container(method: u8, text: &[u8], l_text: Option<i32>, pad: usize) -> Vec<u8> {
    let mut data = l_text.unwrap_or(text.len() as i32 + pad as i32).to_le_bytes().to_vec();
    data.extend_from_slice(text);
    data.extend(std::iter::repeat(0).take(pad));
    let payload = if method == 1 { m::gzip(&mut Rng::new(9), &data) } else { data.clone() };
    let mut blk = vec![method, 0, 0];
    blk.extend(itf8(payload.len()));
    blk.extend(itf8(data.len()));
    blk.extend_from_slice(&payload);
    blk.extend_from_slice(&crc32(&blk).to_le_bytes());
    let mut h = (blk.len() as i32).to_le_bytes().to_vec();
    h.extend_from_slice(&[0, 0, 0, 0, 0, 0, 1, 0]);
    let crc = crc32(&h);
    h.extend_from_slice(&crc.to_le_bytes());
    h.extend(blk);
    h
}

/// a header container from its parts: the header fields after the length (ITF8 / LTF8 bytes up to and
/// including the landmarks), the body, and what to damage
fn container_with(fields: &[u8], body: &[u8], len: Option<i32>, bad_crc: bool) -> Vec<u8> {
    let mut h = len.unwrap_or(body.len() as i32).to_le_bytes().to_vec();
    h.extend_from_slice(fields);
    let crc = crc32(&h) ^ if bad_crc { 1 } else { 0 };
    h.extend_from_slice(&crc.to_le_bytes());
    h.extend_from_slice(body);
    h
}

/// a block from its header bytes (method, content type, content id, sizes) and payload
fn block_with(head: &[u8], payload: &[u8]) -> Vec<u8> {
    let mut b = head.to_vec();
    b.extend_from_slice(payload);
    b.extend_from_slice(&crc32(&b).to_le_bytes());
    b
}

fn cramh_corpus() -> Vec<Vec<u8>> {
    const F: &[u8] = &[0, 0, 0, 0, 0, 0, 1, 0];
    let text = b"\x0b\x00\x00\x00@HD\tVN:1.6\n";
    let raw_ok = block_with(&[0, 0, 0, 15, 15], text);
    let mut v = vec![
        // the bytes of the Lean witness `cram_raw_header_cut_accepted` (`rawHeaderContainer`)
        vec![30, 0, 0, 0, 0, 0, 0, 0, 0, 0, 1, 0, 204, 201, 231, 135, 0, 0, 0, 21, 21, 17, 0, 0, 0, 64, 72, 68, 9, 86, 78, 58, 49, 46, 54, 10, 64, 67, 79, 9, 120, 10, 1, 2, 3, 4],
        // one branch of `cramHdrContainerLen` / `cramHdrBlock` each:
        container_with(F, &raw_ok, Some(-1), false),                                  // negative length
        container_with(F, &raw_ok, None, true),                                       // CRC mismatch
        container_with(&[0, 0, 0, 0, 0, 0, 1, 2, 5, 0x80, 0x99], &raw_ok, None, false), // two landmarks (1 and 2 bytes)
        container_with(&[0xff, 0xff, 0xff, 0xff, 0x0f, 0x87, 0x55, 0xc0, 0x12, 0x34, 0, 0x80, 0x01, 0xc0, 0, 1, 1, 0], &raw_ok, None, false), // multi-byte ITF8 / LTF8 fields
        container_with(&[0, 0, 0, 0, 0, 0, 1, 0xff, 0xff, 0xff, 0xff, 0x0f], &raw_ok, None, false), // negative landmark count
        container_with(F, &block_with(&[9, 0, 0, 15, 15], text), None, false),         // method 9: decode fails
        container_with(F, &block_with(&[0, 6, 0, 15, 15], text), None, false),         // content type 6: decode fails
        container_with(F, &block_with(&[0, 4, 0, 15, 15], text), None, false),         // content type ExternalData: not a file header
        container_with(F, &block_with(&[4, 0, 0, 15, 15], text), None, false),         // method rANS: not allowed here
        container_with(F, &block_with(&[0, 0, 0, 0xff, 0xff, 0xff, 0xff, 0x0f, 15], text), None, false), // negative compressed size
        container_with(F, &block_with(&[0, 0, 0, 15, 0xff, 0xff, 0xff, 0xff, 0x0f], text), None, false), // negative uncompressed size
        container_with(F, &block_with(&[0, 0, 0, 15, 6], text), None, false),          // uncompressed size smaller than the text
        container_with(F, &raw_ok, Some(8), false),                                   // container length smaller than the block
    ];
    v.extend(vec![
        // the witness of `cram_raw_header_cut_accepted`: a raw block, two lines
        made_header_container(0, b"@HD\tVN:1.6\n@CO\tx\n", None, 0),
        made_header_container(1, b"@HD\tVN:1.6\n@CO\tx\n", None, 0),
        // NUL padding after the text (raw and gzip), CRLF, a rejected line, negative `l_text`
        made_header_container(0, b"@HD\tVN:1.6\n", None, 5),
        made_header_container(1, b"@HD\tVN:1.6\r\n@SQ\tSN:a\tLN:5\r\n", None, 3),
        made_header_container(1, b"@HD\tVN:1.6\n@XX bad\n", None, 0),
        made_header_container(0, b"@HD\tVN:1.6\n", Some(-1), 0),
        // `l_text` larger than the block: the `Take`s end first
        made_header_container(0, b"@HD\tVN:1.6\n@CO\ty\n", Some(40), 0),
        made_header_container(1, b"@HD\tVN:1.6\n@CO\ty\n", Some(40), 0),
        // no text at all
        made_header_container(1, b"", None, 0),
        // gzip: negative `l_text`; a rejected line AND a cut stream
        made_header_container(1, b"@HD\tVN:1.6\n", Some(-1), 0),
        made_header_container(1, b"@XX bad\n@HD\tVN:1.6\n@CO\tlong enough to be cut in the stream\n", None, 0),
    ]);
    v
}

// ------------------------------------------------------------------------------------------------
// driver

pub fn run(ctx: &mut Ctx) {
    fn case(ctx: &mut Ctx, name: &str, sub: u64, f: impl FnOnce(&mut Ctx)) {
        if let Err(p) = guarded(|| f(ctx)) {
            ctx.fail("case-setup", format!("more {name} {sub}: building or reference-reading the test input panicked: {p}"), format!("more {name} {sub}"));
        }
    }
    // corpus first
    for (i, (k, inp)) in tr_corpus().into_iter().enumerate() {
        case(ctx, "corpus", i as u64, |c| tr_case(c, k, &inp, i as u64, None, "corpus", 4000));
    }
    for (i, t) in [&b"@r\nACGT\n+\nIIII\n"[..], b"@r d\r\nAC\r\n+r\r\nII\r\n@s\nG\n+\nI\n", b"", b"@r\n\n+\n\n"].into_iter().enumerate() {
        case(ctx, "fastq-corpus", i as u64, |c| fastq_case(c, t, 1_000_000 + i as u64, None));
    }
    for (i, c) in cramh_corpus().into_iter().enumerate() {
        case(ctx, "cramh-corpus", i as u64, |cx| cramh_case(cx, &c, "corpus", i as u64, None));
    }
    ctx.bump("corpus:more");
    // generated
    let n = ctx.n(6, 24);
    for (ki, k) in TR_KINDS.into_iter().enumerate() {
        for it in 0..n {
            let sub = ctx.seed.wrapping_mul(5_000_011).wrapping_add(ki as u64 * 1_000_000 + it);
            case(ctx, k.name(), sub, |c| tr_generated(c, k, sub, None));
        }
    }
    for it in 0..ctx.n(4, 30) {
        let sub = ctx.seed.wrapping_mul(5_000_011).wrapping_add(90_000_000 + it);
        let t = gen_fastq(&mut Rng::new(sub));
        case(ctx, "fastq", sub, |c| fastq_case(c, &t, sub, None));
    }
    for it in 0..ctx.n(5, 40) {
        let sub = ctx.seed.wrapping_mul(5_000_011).wrapping_add(91_000_000 + it);
        case(ctx, "cramh", sub, |c| {
            let hc = written_header_container(&mut Rng::new(sub));
            cramh_case(c, &hc, "written", sub, None)
        });
    }
}

/// `more <gen|corpus> <kind> <sub> <cut>` | `more fastq <sub> <cut>` | `more cramh <written|corpus> <sub> <cut>`
pub fn replay(ctx: &mut Ctx, case: &[String]) -> bool {
    if case.first().map(|s| s.as_str()) != Some("more") {
        return false;
    }
    let num = |i: usize| -> Option<u64> { case.get(i).and_then(|s| s.parse().ok()) };
    match case.get(1).map(|s| s.as_str()) {
        Some("gen") => {
            if let (Some(k), Some(sub)) = (case.get(2).and_then(|s| K::parse(s)), num(3)) {
                tr_generated(ctx, k, sub, num(4).map(|x| x as usize));
            }
        }
        Some("corpus") => {
            if let (Some(sub), Some(cut)) = (num(3), num(4)) {
                if let Some((k, inp)) = tr_corpus().into_iter().nth(sub as usize) {
                    tr_case(ctx, k, &inp, sub, Some(cut as usize), "corpus", 4000);
                }
            }
        }
        Some("fastq") => {
            if let Some(sub) = num(2) {
                let corpus: [&[u8]; 4] = [b"@r\nACGT\n+\nIIII\n", b"@r d\r\nAC\r\n+r\r\nII\r\n@s\nG\n+\nI\n", b"", b"@r\n\n+\n\n"];
                let t = if sub >= 1_000_000 && sub < 1_000_004 { corpus[(sub - 1_000_000) as usize].to_vec() } else { gen_fastq(&mut Rng::new(sub)) };
                fastq_case(ctx, &t, sub, num(3).map(|x| x as usize));
            }
        }
        Some("cramh") => {
            if let (Some(label), Some(sub)) = (case.get(2), num(3)) {
                let c = if label == "corpus" { cramh_corpus().into_iter().nth(sub as usize) } else { Some(written_header_container(&mut Rng::new(sub))) };
                if let Some(c) = c {
                    cramh_case(ctx, &c, label, sub, num(4).map(|x| x as usize));
                }
            }
        }
        _ => {}
    }
    true
}
