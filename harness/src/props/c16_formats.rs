//! C16 format layer: for every format with an async API, the async reader on an adversarial async
//! source must yield what the sync reader yields on the same bytes, and the async writer on an
//! adversarial async sink must produce what the sync writer produces for the same calls.
//!
//! Both sides are reduced to a *transcript* (one line per observation: header, record, position,
//! error class, EOF) and the transcripts are compared line by line.
use super::super::c01::{raw_inflate, split_members};
use super::super::c02::{resolve, table, Blk};
use crate::adversary::{block_on, poll_schedule, AsyncSchedReader, AsyncScriptSink, Poll1};
use crate::common::*;
use futures::TryStreamExt;
use noodles_bgzf as bgzf;
use std::io::{BufRead, Read};
use std::sync::{Arc, Mutex};

pub type Transcript = Vec<String>;

/// an adversarial async source over `data`, chosen by the sub-seed
pub fn src(rng: &mut Rng, data: &[u8]) -> (AsyncSchedReader, String) {
    let kind = rng.below(4) as usize;
    let (sched, fallback, name) = poll_schedule(rng, kind, data.len());
    (AsyncSchedReader::new(data.to_vec(), sched, fallback), name)
}

/// an adversarial async sink, chosen by the sub-seed
pub fn snk(rng: &mut Rng, expect_len: usize) -> (AsyncScriptSink, Arc<Mutex<Vec<u8>>>, String) {
    let kind = rng.below(4) as usize;
    let (sched, fallback, name) = poll_schedule(rng, kind, expect_len);
    let (s, acc) = AsyncScriptSink::new(sched, fallback);
    (s, acc, name)
}

fn clip(s: &str) -> String {
    if s.len() > 300 { format!("{}…(+{} bytes)", &s[..s.char_indices().take_while(|(i, _)| *i < 300).last().map(|(i, c)| i + c.len_utf8()).unwrap_or(0)], s.len() - 300) } else { s.to_string() }
}

pub fn err_line(e: &std::io::Error) -> String {
    errclass(e).to_string()
}

/// compare two transcripts; report the first difference. Returns true when equal.
pub fn same(ctx: &mut Ctx, class: &str, what: &str, sync: &Transcript, asy: &Result<Transcript, String>, how: &str, case: &str) -> bool {
    if let Ok(d) = std::env::var("NVH_DUMP") {
        let w: String = what.chars().map(|c| if c.is_ascii_alphanumeric() { c } else { '_' }).collect();
        let _ = std::fs::write(format!("{d}/{w}.sync.txt"), sync.join("\n"));
        if let Ok(a) = asy { let _ = std::fs::write(format!("{d}/{w}.async.txt"), a.join("\n")); }
    }
    if std::env::var("NVH_DEBUG").is_ok() {
        eprintln!("== {what} ({case})\n-- sync:");
        for l in sync { eprintln!("   {}", clip(l)); }
        eprintln!("-- async:");
        match asy { Ok(a) => for l in a { eprintln!("   {}", clip(l)); }, Err(p) => eprintln!("   PANIC {p}") }
    }
    match asy {
        Err(p) => {
            ctx.fail(class, format!("{what}: the async side panicked: {} ({how}); the sync side produced {} lines, last {:?}", clip(p), sync.len(), sync.last().map(|s| clip(s))), case.into());
            false
        }
        Ok(a) => {
            for i in 0..a.len().max(sync.len()) {
                let (x, y) = (a.get(i), sync.get(i));
                if x != y {
                    ctx.fail(class, format!("{what}: observation {i} differs: async {:?}, sync {:?} ({how})", x.map(|s| clip(s)), y.map(|s| clip(s))), case.into());
                    return false;
                }
            }
            true
        }
    }
}

/// decode a BGZF byte string with the sync reader (the common decoder for both writers' outputs)
pub fn bgzf_decode(file: &[u8]) -> Result<Vec<u8>, String> {
    let mut out = vec![];
    bgzf::io::Reader::new(file).read_to_end(&mut out).map_err(|e| e.to_string())?;
    Ok(out)
}

/// block layout of a BGZF file by the harness's own member parser (for resolving virtual positions)
pub fn layout_of(file: &[u8]) -> Option<Vec<Blk>> {
    let ms = split_members(file).ok()?;
    ms.iter().map(|m| raw_inflate(m.cdata, m.isize as usize).map(|d| Blk { csize: m.whole.len(), data: d })).collect()
}

/// a virtual position as `flat offset` (or the raw pair if it names no byte)
pub fn vp_line(layout: &Option<Vec<Blk>>, v: bgzf::VirtualPosition) -> String {
    let (c, u): (u64, u16) = v.into();
    match layout {
        Some(l) => match resolve(l, &table(l), c, u) {
            Some(o) => format!("@{o}"),
            None => format!("@?{c}/{u}"),
        },
        None => format!("@{c}/{u}"),
    }
}

// ------------------------------------------------------------------ text generators

fn word(rng: &mut Rng, alphabet: &[u8], lo: usize, hi: usize) -> String {
    let n = rng.range(lo as u64, hi as u64) as usize;
    (0..n).map(|_| *rng.pick(alphabet) as char).collect()
}

const NAME: &[u8] = b"abcdefghijklmnopqrstuvwxyzABCDEFGHIJKLMNOPQRSTUVWXYZ0123456789_.-";
const BASES: &[u8] = b"ACGTNacgtn";

fn gen_fasta(rng: &mut Rng) -> Vec<u8> {
    let mut out = vec![];
    let crlf = rng.chance(1, 4);
    let nl: &[u8] = if crlf { b"\r\n" } else { b"\n" };
    let n = rng.below(6);
    for i in 0..n {
        out.push(b'>');
        out.extend_from_slice(format!("sq{i}{}", word(rng, NAME, 0, 6)).as_bytes());
        if rng.chance(1, 2) {
            out.push(b' ');
            out.extend_from_slice(word(rng, b"abc xyz=1;,", 1, 20).trim().as_bytes());
        }
        out.extend_from_slice(nl);
        let len = *rng.pick(&[0usize, 1, 7, 60, 61, 200, 9000]);
        let len = if len > 1 { 1 + rng.below(len as u64) as usize } else { len };
        let width = *rng.pick(&[1usize, 10, 60, 70, 80, 100_000]);
        let seq: Vec<u8> = (0..len).map(|_| *rng.pick(BASES)).collect();
        for line in seq.chunks(width) {
            out.extend_from_slice(line);
            out.extend_from_slice(nl);
        }
        if rng.chance(1, 8) {
            out.extend_from_slice(nl); // blank line between records
        }
    }
    if rng.chance(1, 5) && out.ends_with(nl) && n > 0 {
        out.truncate(out.len() - nl.len()); // no final newline
    }
    out
}

fn gen_fastq(rng: &mut Rng) -> Vec<u8> {
    let mut out = vec![];
    let crlf = rng.chance(1, 4);
    let nl: &[u8] = if crlf { b"\r\n" } else { b"\n" };
    let n = rng.below(8);
    for i in 0..n {
        let name = format!("r{i}{}", word(rng, NAME, 0, 8));
        out.push(b'@');
        out.extend_from_slice(name.as_bytes());
        if rng.chance(1, 2) {
            out.push(if rng.chance(1, 4) { b'\t' } else { b' ' });
            out.extend_from_slice(word(rng, b"abc 1:N:0 xyz", 0, 16).as_bytes());
        }
        out.extend_from_slice(nl);
        let len = *rng.pick(&[0usize, 1, 4, 36, 150, 10_000]);
        let len = if len > 1 { 1 + rng.below(len as u64) as usize } else { len };
        for _ in 0..len {
            out.push(*rng.pick(b"ACGTN"));
        }
        out.extend_from_slice(nl);
        out.push(b'+');
        if rng.chance(1, 4) {
            out.extend_from_slice(name.as_bytes());
        }
        out.extend_from_slice(nl);
        for _ in 0..len {
            out.push(b'!' + rng.below(60) as u8); // may be '@' or '+': line structure must decide
        }
        out.extend_from_slice(nl);
    }
    if rng.chance(1, 5) && out.ends_with(nl) && n > 0 {
        out.truncate(out.len() - nl.len());
    }
    out
}

fn gen_gff(rng: &mut Rng) -> Vec<u8> {
    let mut out: Vec<u8> = b"##gff-version 3\n".to_vec();
    let crlf = rng.chance(1, 5);
    let nl = if crlf { "\r\n" } else { "\n" };
    if crlf {
        out = b"##gff-version 3\r\n".to_vec();
    }
    let n = rng.below(10);
    for i in 0..n {
        match rng.below(10) {
            0 => out.extend_from_slice(format!("##sequence-region sq{i} 1 {}{nl}", 1000 + rng.below(9000)).as_bytes()),
            1 => out.extend_from_slice(format!("#{}{nl}", word(rng, b"comment text ", 0, 30)).as_bytes()),
            2 => out.extend_from_slice(nl.as_bytes()),
            _ => {
                let start = 1 + rng.below(5000);
                let end = start + rng.below(3000);
                let ty = *rng.pick(&["gene", "mRNA", "exon", "CDS", "region"]);
                let score = if rng.chance(1, 2) { ".".to_string() } else { format!("{}", rng.below(1000)) };
                let strand = *rng.pick(&["+", "-", ".", "?"]);
                let phase = if ty == "CDS" { format!("{}", rng.below(3)) } else { ".".to_string() };
                let mut attrs = vec![format!("ID={ty}{i}")];
                if rng.chance(1, 2) {
                    attrs.push(format!("Name={}", word(rng, NAME, 1, 9)));
                }
                if rng.chance(1, 3) {
                    attrs.push("Note=a%3Bb%3Dc%2Cd%25,second value".to_string());
                }
                if rng.chance(1, 4) {
                    attrs.push(format!("Parent=gene{},gene{}", rng.below(3), rng.below(3)));
                }
                let attrs = if rng.chance(1, 8) { ".".to_string() } else { attrs.join(";") };
                out.extend_from_slice(format!("sq{}\t{}\t{ty}\t{start}\t{end}\t{score}\t{strand}\t{phase}\t{attrs}{nl}", rng.below(3), *rng.pick(&["src", ".", "NOODLES"])).as_bytes());
            }
        }
    }
    if rng.chance(1, 5) && n > 0 && out.ends_with(nl.as_bytes()) {
        out.truncate(out.len() - nl.len());
    }
    out
}

// ------------------------------------------------------------------ FASTA

fn fasta_sync(data: &[u8]) -> Transcript {
    use noodles_fasta as fasta;
    let mut t = vec![];
    let mut r = fasta::io::Reader::new(data);
    loop {
        let mut def = fasta::record::Definition::default();
        match r.read_definition(&mut def) {
            Ok(0) => {
                t.push("EOF".into());
                break;
            }
            Ok(_) => t.push(format!("def {:?}", def)),
            Err(e) => {
                t.push(err_line(&e));
                break;
            }
        }
        let mut seq = vec![];
        match r.read_sequence(&mut seq) {
            Ok(_) => t.push(format!("seq {}", String::from_utf8_lossy(&seq).escape_debug())),
            Err(e) => {
                t.push(err_line(&e));
                break;
            }
        }
    }
    t
}

fn fasta_async(s: AsyncSchedReader, cap: usize) -> Result<Transcript, String> {
    use noodles_fasta as fasta;
    guarded(move || {
        block_on(async move {
            let mut t = vec![];
            let mut r = fasta::r#async::io::Reader::new(tokio::io::BufReader::with_capacity(cap, s));
            loop {
                let mut def = fasta::record::Definition::default();
                match r.read_definition(&mut def).await {
                    Ok(0) => {
                        t.push("EOF".into());
                        break;
                    }
                    Ok(_) => t.push(format!("def {:?}", def)),
                    Err(e) => {
                        t.push(err_line(&e));
                        break;
                    }
                }
                let mut seq = vec![];
                match r.read_sequence(&mut seq).await {
                    Ok(_) => t.push(format!("seq {}", String::from_utf8_lossy(&seq).escape_debug())),
                    Err(e) => {
                        t.push(err_line(&e));
                        break;
                    }
                }
            }
            t
        })
    })
}

fn fasta_records(data: &[u8]) -> Vec<noodles_fasta::Record> {
    noodles_fasta::io::Reader::new(data).records().filter_map(|r| r.ok()).collect()
}

fn fasta_case(ctx: &mut Ctx, data: &[u8], rng: &mut Rng, case: &str) {
    fasta_case_cap(ctx, data, rng, case, None)
}

fn fasta_case_cap(ctx: &mut Ctx, data: &[u8], rng: &mut Rng, case: &str, force_cap: Option<usize>) {
    use noodles_fasta as fasta;
    let sync = fasta_sync(data);
    let (s, name) = src(rng, data);
    let cap = *rng.pick(&[1usize, 2, 16, 8192]);
    let cap = force_cap.unwrap_or(cap);
    let asy = fasta_async(s, cap);
    ctx.eval(if sync.len() > 3 { Some(fnv(case.as_bytes())) } else { None });
    // a known chunk-dependence of the async sequence reader: a CR LF pair split across two fill_buf
    // chunks leaves the CR in the sequence. Tagged with its own class.
    let only_cr = match &asy {
        Ok(a) => a != &sync && a.iter().map(|l| l.replace("\\r", "")).collect::<Vec<_>>() == sync,
        Err(_) => false,
    };
    same(ctx, if only_cr { "fasta-async-crlf-split" } else { "fasta-async-reader" }, "FASTA read_definition/read_sequence", &sync, &asy, &format!("schedule {name}, BufReader capacity {cap}"), case);
    // writer: same records, same line width → byte-identical text
    let recs = fasta_records(data);
    let width = *rng.pick(&[1usize, 60, 80, 1000]);
    let mut sw = fasta::io::writer::Builder::default().set_line_base_count(std::num::NonZero::new(width).unwrap()).build_from_writer(Vec::new());
    let mut st = vec![];
    for r in &recs {
        st.push(match sw.write_record(r) { Ok(()) => "ok".to_string(), Err(e) => err_line(&e) });
    }
    let sbytes = sw.get_ref().clone();
    st.push(format!("bytes {}", String::from_utf8_lossy(&sbytes).escape_debug()));
    let (k, acc, kname) = snk(rng, sbytes.len());
    let recs2 = recs.clone();
    let at = guarded(move || {
        block_on(async move {
            use tokio::io::AsyncWriteExt;
            let mut t = vec![];
            let mut w = fasta::r#async::io::writer::Builder::default().set_line_base_count(std::num::NonZero::new(width).unwrap()).build_from_writer(k);
            for r in &recs2 {
                t.push(match w.write_record(r).await { Ok(()) => "ok".to_string(), Err(e) => err_line(&e) });
            }
            let _ = w.get_mut().flush().await;
            let _ = w.get_mut().shutdown().await;
            t
        })
    })
    .map(|mut t| {
        t.push(format!("bytes {}", String::from_utf8_lossy(&acc.lock().unwrap()).escape_debug()));
        t
    });
    ctx.eval(if recs.len() > 1 { Some(fnv(format!("{case} w").as_bytes())) } else { None });
    same(ctx, "fasta-async-writer", "FASTA write_record", &st, &at, &format!("sink schedule {kname}, line width {width}"), case);
}

// ------------------------------------------------------------------ FASTQ

fn fastq_case(ctx: &mut Ctx, data: &[u8], rng: &mut Rng, case: &str) {
    use noodles_fastq as fastq;
    let mut sync = vec![];
    let mut recs = vec![];
    {
        let mut r = fastq::io::Reader::new(data);
        loop {
            let mut rec = fastq::Record::default();
            match r.read_record(&mut rec) {
                Ok(0) => {
                    sync.push("EOF".into());
                    break;
                }
                Ok(_) => {
                    sync.push(format!("rec {:?}", rec));
                    recs.push(rec);
                }
                Err(e) => {
                    sync.push(err_line(&e));
                    break;
                }
            }
        }
    }
    let (s, name) = src(rng, data);
    let cap = *rng.pick(&[1usize, 2, 16, 8192]);
    let via_stream = rng.chance(1, 2);
    let asy = guarded(move || {
        block_on(async move {
            let mut t = vec![];
            let mut r = fastq::r#async::io::Reader::new(tokio::io::BufReader::with_capacity(cap, s));
            if via_stream {
                let mut st = r.records();
                loop {
                    match st.try_next().await {
                        Ok(Some(rec)) => t.push(format!("rec {:?}", rec)),
                        Ok(None) => {
                            t.push("EOF".into());
                            break;
                        }
                        Err(e) => {
                            t.push(err_line(&e));
                            break;
                        }
                    }
                }
            } else {
                loop {
                    let mut rec = fastq::Record::default();
                    match r.read_record(&mut rec).await {
                        Ok(0) => {
                            t.push("EOF".into());
                            break;
                        }
                        Ok(_) => t.push(format!("rec {:?}", rec)),
                        Err(e) => {
                            t.push(err_line(&e));
                            break;
                        }
                    }
                }
            }
            t
        })
    });
    let sync_cmp = sync.clone();
    ctx.eval(if recs.len() > 1 { Some(fnv(case.as_bytes())) } else { None });
    same(ctx, "fastq-async-reader", if via_stream { "FASTQ records()" } else { "FASTQ read_record" }, &sync_cmp, &asy, &format!("schedule {name}, BufReader capacity {cap}"), case);
    // writer
    let mut sw = fastq::io::Writer::new(Vec::new());
    let mut st = vec![];
    for r in &recs {
        st.push(match sw.write_record(r) { Ok(()) => "ok".to_string(), Err(e) => err_line(&e) });
    }
    let sbytes = sw.get_ref().clone();
    st.push(format!("bytes {}", String::from_utf8_lossy(&sbytes).escape_debug()));
    let (k, acc, kname) = snk(rng, sbytes.len());
    let recs2 = recs.clone();
    let at = guarded(move || {
        block_on(async move {
            use tokio::io::AsyncWriteExt;
            let mut t = vec![];
            let mut w = fastq::r#async::io::Writer::new(k);
            for r in &recs2 {
                t.push(match w.write_record(r).await { Ok(()) => "ok".to_string(), Err(e) => err_line(&e) });
            }
            let _ = w.get_mut().flush().await;
            let _ = w.get_mut().shutdown().await;
            t
        })
    })
    .map(|mut t| {
        t.push(format!("bytes {}", String::from_utf8_lossy(&acc.lock().unwrap()).escape_debug()));
        t
    });
    ctx.eval(if recs.len() > 1 { Some(fnv(format!("{case} w").as_bytes())) } else { None });
    same(ctx, "fastq-async-writer", "FASTQ write_record", &st, &at, &format!("sink schedule {kname}"), case);
}

// ------------------------------------------------------------------ GFF

fn gff_case(ctx: &mut Ctx, data: &[u8], rng: &mut Rng, case: &str) {
    use noodles_gff as gff;
    let mode = rng.below(4);
    let what = ["GFF read_line", "GFF lines()", "GFF line_bufs()", "GFF record_bufs()"][mode as usize];
    let mut sync = vec![];
    {
        let mut r = gff::io::Reader::new(data);
        match mode {
            0 => loop {
                let mut line = gff::Line::default();
                match r.read_line(&mut line) {
                    Ok(0) => {
                        sync.push("EOF".into());
                        break;
                    }
                    Ok(_) => sync.push(format!("line {:?}", line)),
                    Err(e) => {
                        sync.push(err_line(&e));
                        break;
                    }
                }
            },
            1 => {
                for l in r.lines() {
                    match l {
                        Ok(line) => sync.push(format!("line {:?}", line)),
                        Err(e) => {
                            sync.push(err_line(&e));
                            break;
                        }
                    }
                }
                sync.push("END".into());
            }
            2 => {
                for l in r.line_bufs() {
                    match l {
                        Ok(line) => sync.push(format!("linebuf {:?}", line)),
                        Err(e) => {
                            sync.push(err_line(&e));
                            break;
                        }
                    }
                }
                sync.push("END".into());
            }
            _ => {
                for l in r.record_bufs() {
                    match l {
                        Ok(rec) => sync.push(format!("recbuf {:?}", rec)),
                        Err(e) => {
                            sync.push(err_line(&e));
                            break;
                        }
                    }
                }
                sync.push("END".into());
            }
        }
    }
    let (s, name) = src(rng, data);
    let cap = *rng.pick(&[1usize, 2, 16, 8192]);
    let asy = guarded(move || {
        block_on(async move {
            let mut t = vec![];
            let mut r = gff::r#async::io::Reader::new(tokio::io::BufReader::with_capacity(cap, s));
            match mode {
                0 => loop {
                    let mut line = gff::Line::default();
                    match r.read_line(&mut line).await {
                        Ok(0) => {
                            t.push("EOF".into());
                            break;
                        }
                        Ok(_) => t.push(format!("line {:?}", line)),
                        Err(e) => {
                            t.push(err_line(&e));
                            break;
                        }
                    }
                },
                1 => {
                    let mut st = r.lines();
                    loop {
                        match st.try_next().await {
                            Ok(Some(line)) => t.push(format!("line {:?}", line)),
                            Ok(None) => break,
                            Err(e) => {
                                t.push(err_line(&e));
                                break;
                            }
                        }
                    }
                    t.push("END".into());
                }
                2 => {
                    let mut st = r.line_bufs();
                    loop {
                        match st.try_next().await {
                            Ok(Some(line)) => t.push(format!("linebuf {:?}", line)),
                            Ok(None) => break,
                            Err(e) => {
                                t.push(err_line(&e));
                                break;
                            }
                        }
                    }
                    t.push("END".into());
                }
                _ => {
                    let mut st = r.record_bufs();
                    loop {
                        match st.try_next().await {
                            Ok(Some(rec)) => t.push(format!("recbuf {:?}", rec)),
                            Ok(None) => break,
                            Err(e) => {
                                t.push(err_line(&e));
                                break;
                            }
                        }
                    }
                    t.push("END".into());
                }
            }
            t
        })
    });
    ctx.eval(if sync.len() > 3 { Some(fnv(case.as_bytes())) } else { None });
    same(ctx, "gff-async-reader", what, &sync, &asy, &format!("schedule {name}, BufReader capacity {cap}"), case);
}

// ------------------------------------------------------------------ alignments (SAM text as the source of truth)

use noodles_bam as bam;
use noodles_core::{Position, Region};
use noodles_csi::{self as csi, binning_index::{index::reference_sequence::{bin::Chunk, index::LinearIndex}, Indexer}, BinningIndex};
use noodles_sam::{self as sam, alignment::{io::Write as _, RecordBuf}};
use std::num::NonZero;

pub struct Aln {
    pub header: sam::Header,
    pub recs: Vec<RecordBuf>,
    pub text: Vec<u8>,
    pub refs: Vec<(String, Vec<u8>)>,
}

/// SAM text with a coordinate-sorted body; reads are consistent with a small random reference so that
/// the same records can go through CRAM.
pub fn gen_aln(rng: &mut Rng, for_cram: bool) -> Option<Aln> {
    let nref = 1 + rng.below(3) as usize;
    let ln = 2500usize;
    let refs: Vec<(String, Vec<u8>)> = (0..nref).map(|i| (format!("sq{i}"), (0..ln).map(|_| *rng.pick(b"ACGT")).collect())).collect();
    let mut t = String::new();
    t.push_str("@HD\tVN:1.6\tSO:coordinate\n");
    for (n, _) in &refs {
        t.push_str(&format!("@SQ\tSN:{n}\tLN:{ln}\n"));
    }
    let has_rg = rng.chance(1, 2) || for_cram; // the CRAM writer rejects an RG tag without its @RG line
    if has_rg {
        t.push_str("@RG\tID:rg0\tSM:sample0\n");
    }
    if rng.chance(1, 3) {
        t.push_str("@PG\tID:nvh\tPN:nvh\n@CO\ta comment line\n");
    }
    let dense = rng.chance(1, 3);
    // one file in ten holds unplaced reads only: its index has no position of a last placed record, and
    // `query_unmapped` takes its fallback (scan from the first record)
    let only_unplaced = !for_cram && rng.chance(1, 10);
    let mut lines: Vec<(usize, usize, String)> = vec![];
    let mut serial = 0;
    for (rid, (rname, rseq)) in refs.iter().enumerate() {
        let n = if only_unplaced { 0 } else if dense { rng.below(120) } else { rng.below(14) } as usize;
        for _ in 0..n {
            let pos = 1 + rng.below((ln - 400) as u64) as usize;
            // CIGAR: [S] M [I M] [D M] [S]
            let mut ops: Vec<(char, usize)> = vec![];
            if rng.chance(1, 5) { ops.push(('S', 1 + rng.below(5) as usize)); }
            ops.push(('M', 1 + rng.below(60) as usize));
            if rng.chance(1, 4) { ops.push(('I', 1 + rng.below(4) as usize)); ops.push(('M', 1 + rng.below(40) as usize)); }
            if rng.chance(1, 4) { ops.push(('D', 1 + rng.below(6) as usize)); ops.push(('M', 1 + rng.below(40) as usize)); }
            if rng.chance(1, 8) { ops.push(('N', 1 + rng.below(90) as usize)); ops.push(('M', 1 + rng.below(20) as usize)); }
            if rng.chance(1, 5) { ops.push(('S', 1 + rng.below(5) as usize)); }
            let mut seq = String::new();
            let mut rp = pos - 1;
            for (k, n) in &ops {
                match k {
                    'M' => { for _ in 0..*n { let b = if rng.chance(1, 25) { *rng.pick(b"ACGT") } else { rseq[rp] }; seq.push(b as char); rp += 1; } }
                    'I' | 'S' => { for _ in 0..*n { seq.push(*rng.pick(b"ACGT") as char); } }
                    _ => rp += n,
                }
            }
            let cigar: String = ops.iter().map(|(k, n)| format!("{n}{k}")).collect();
            let mut flag = 0u16;
            if rng.chance(1, 3) { flag |= 16; }
            if rng.chance(1, 10) { flag |= 1024; }
            if rng.chance(1, 12) { flag |= 256; }
            let placed_unmapped = !for_cram && rng.chance(1, 15);
            let (rnext, pnext, tlen) = if rng.chance(1, 3) {
                flag |= 1 | if rng.chance(1, 2) { 64 } else { 128 };
                if rng.chance(1, 2) { flag |= 2; }
                let pn = 1 + rng.below((ln - 200) as u64) as i64;
                ("=".to_string(), pn, pn - pos as i64 + 50)
            } else {
                ("*".to_string(), 0, 0)
            };
            let qual: String = if !for_cram && rng.chance(1, 12) { "*".into() } else { (0..seq.len()).map(|_| (b'!' + rng.below(41) as u8) as char).collect() };
            let (seq_s, qual_s) = if !for_cram && rng.chance(1, 20) { ("*".to_string(), "*".to_string()) } else { (seq.clone(), qual) };
            let mut tags = vec![];
            if rng.chance(1, 2) { tags.push(format!("NM:i:{}", rng.below(5))); }
            if rng.chance(1, 3) { tags.push(format!("AS:i:-{}", rng.below(300))); }
            if rng.chance(1, 4) { tags.push("RG:Z:rg0".to_string()); }
            if rng.chance(1, 6) { tags.push(format!("XA:A:{}", *rng.pick(b"abcXYZ") as char)); }
            if !for_cram && rng.chance(1, 6) { tags.push(format!("XF:f:{}", *rng.pick(&["1.5", "-0.25", "3", "1e-05"]))); }
            if rng.chance(1, 8) { tags.push("XB:B:c,1,-2,3".to_string()); }
            if rng.chance(1, 8) { tags.push("XS:B:S,1,65535".to_string()); }
            if rng.chance(1, 10) { tags.push("XH:H:1AE3".to_string()); }
            if rng.chance(1, 10) { tags.push(format!("XI:i:{}", *rng.pick(&["0", "255", "256", "65535", "65536", "-129", "2147483647", "-2147483648"]))); }
            let (fl, cg, mq) = if placed_unmapped { (flag | 4, "*".to_string(), 0) } else { (flag, cigar, *rng.pick(&[0u8, 1, 30, 60, 255])) };
            let tags_s = if tags.is_empty() { String::new() } else { format!("\t{}", tags.join("\t")) };
            let (seq_s, qual_s) = if placed_unmapped { (seq, "*".to_string()) } else { (seq_s, qual_s) };
            lines.push((rid, pos, format!("r{serial}\t{fl}\t{rname}\t{pos}\t{mq}\t{cg}\t{rnext}\t{pnext}\t{tlen}\t{seq_s}\t{qual_s}{tags_s}\n")));
            serial += 1;
        }
    }
    lines.sort_by_key(|l| (l.0, l.1));
    for l in &lines {
        t.push_str(&l.2);
    }
    for _ in 0..(if only_unplaced { 2 + rng.below(4) } else { rng.below(5) }) {
        let n = 1 + rng.below(30) as usize;
        let seq: String = (0..n).map(|_| *rng.pick(b"ACGTN") as char).collect();
        let qual: String = (0..n).map(|_| (b'!' + rng.below(41) as u8) as char).collect();
        t.push_str(&format!("r{serial}\t4\t*\t0\t0\t*\t*\t0\t0\t{seq}\t{qual}\n"));
        serial += 1;
    }
    let text = t.into_bytes();
    let mut r = sam::io::Reader::new(&text[..]);
    let header = r.read_header().ok()?;
    let mut recs = vec![];
    let mut rec = RecordBuf::default();
    loop {
        match r.read_record_buf(&header, &mut rec) {
            Ok(0) => break,
            Ok(_) => recs.push(rec.clone()),
            Err(_) => return None,
        }
    }
    Some(Aln { header, recs, text, refs })
}

fn name_of(r: &dyn sam::alignment::Record) -> String {
    r.name().map(|n| String::from_utf8_lossy(n.as_ref()).to_string()).unwrap_or_else(|| "*".into())
}

/// regions for the query comparison: whole references, sub-ranges, repeats, an unknown reference
fn gen_regions(rng: &mut Rng, nref: usize) -> Vec<Option<Region>> {
    let mut out: Vec<Option<Region>> = vec![];
    let n = 3 + rng.below(8);
    for _ in 0..n {
        let rid = rng.below(nref as u64);
        let name = format!("sq{rid}");
        let r = match rng.below(8) {
            0 => Region::new(name, ..),
            1 => Region::new("nosuch", ..),
            2 => {
                // the same region as the previous query (the chunk list starts at the same position)
                if let Some(Some(prev)) = out.last() { prev.clone() } else { Region::new(name, ..) }
            }
            3 => {
                out.push(None); // query_unmapped
                continue;
            }
            _ => {
                let s = 1 + rng.below(2400) as usize;
                let e = s + rng.below(800) as usize;
                Region::new(name, Position::try_from(s).unwrap()..=Position::try_from(e).unwrap())
            }
        };
        out.push(Some(r));
    }
    out
}

fn bam_sync_write(a: &Aln) -> Result<Vec<u8>, String> {
    let mut w = bam::io::Writer::new(Vec::new());
    w.write_header(&a.header).map_err(|e| e.to_string())?;
    for r in &a.recs {
        w.write_alignment_record(&a.header, r).map_err(|e| e.to_string())?;
    }
    w.try_finish().map_err(|e| e.to_string())?;
    Ok(w.get_ref().get_ref().clone())
}

type BamIndex = csi::binning_index::Index<LinearIndex>;

/// index a BAM by scanning it with the sync reader (the same index is then given to both query paths)
fn bam_index(file: &[u8], nref: usize) -> Result<BamIndex, String> {
    let mut r = bam::io::Reader::new(file);
    r.read_header().map_err(|e| e.to_string())?;
    let mut ix = Indexer::<LinearIndex>::default();
    let mut rec = bam::Record::default();
    loop {
        let start = r.get_ref().virtual_position();
        match r.read_record(&mut rec) {
            Ok(0) => break,
            Ok(_) => {
                let end = r.get_ref().virtual_position();
                let c = match (rec.reference_sequence_id().transpose().map_err(|e| e.to_string())?, rec.alignment_start().transpose().map_err(|e| e.to_string())?, sam::alignment::Record::alignment_end(&rec).transpose().map_err(|e| e.to_string())?) {
                    (Some(id), Some(s), Some(e)) => Some((id, s, e, !rec.flags().is_unmapped())),
                    _ => None,
                };
                ix.add_record(c, Chunk::new(start, end)).map_err(|e| e.to_string())?;
            }
            Err(e) => return Err(e.to_string()),
        }
    }
    Ok(ix.build(nref))
}

/// The BAM stream of `file` re-framed: optional NUL padding of the header text, members cut at
/// arbitrary offsets (stored members, so any cut is cheap), EOF marker.
fn reframe_bam(rng: &mut Rng, file: &[u8]) -> Option<Vec<u8>> {
    use super::super::c01::{stored_member, EOF};
    let raw = bgzf_decode(file).ok()?;
    let u32_at = |b: &[u8], i: usize| -> Option<usize> { Some(u32::from_le_bytes(b.get(i..i + 4)?.try_into().ok()?) as usize) };
    if raw.get(..4)? != b"BAM\x01" {
        return None;
    }
    let l_text = u32_at(&raw, 4)?;
    let pad = *rng.pick(&[0usize, 0, 0, 1, 16, 700, 9000, 20_000]);
    let mut out = raw[..4].to_vec();
    out.extend_from_slice(&((l_text + pad) as u32).to_le_bytes());
    out.extend_from_slice(raw.get(8..8 + l_text)?);
    let pad_at = out.len();
    out.extend(std::iter::repeat_n(0u8, pad));
    let mut pos = 8 + l_text;
    let shift = pad;
    // reference dictionary
    let n_ref = u32_at(&raw, pos)?;
    pos += 4;
    for _ in 0..n_ref {
        let l_name = u32_at(&raw, pos)?;
        pos += 4 + l_name + 4;
    }
    // record starts
    let mut cuts: Vec<usize> = vec![];
    let mut p = pos;
    while p + 4 <= raw.len() {
        let bs = u32_at(&raw, p)?;
        if rng.chance(1, 2) {
            cuts.push(p + shift + 1 + rng.below(3) as usize);
        }
        p += 4 + bs;
    }
    out.extend_from_slice(raw.get(8 + l_text..)?);
    if pad > 0 {
        // cuts inside the padding
        for _ in 0..1 + rng.below(3) {
            cuts.push(pad_at + rng.below(pad as u64) as usize);
        }
    }
    for _ in 0..rng.below(4) {
        cuts.push(rng.below(out.len() as u64 + 1) as usize);
    }
    cuts.sort_unstable();
    cuts.dedup();
    let mut framed = vec![];
    let mut at = 0usize;
    let mut emit = |from: usize, to: usize, framed: &mut Vec<u8>| {
        let mut a = from;
        while a < to {
            let b = (a + 60_000).min(to);
            framed.extend_from_slice(&stored_member(&out[a..b]));
            a = b;
        }
    };
    for c in cuts {
        if c > at && c <= out.len() {
            emit(at, c, &mut framed);
            at = c;
        }
    }
    emit(at, out.len(), &mut framed);
    framed.extend_from_slice(&EOF);
    Some(framed)
}

fn bam_case(ctx: &mut Ctx, sub: u64) {
    let mut rng = Rng::new(sub);
    let case = format!("bam {sub}");
    let Some(a) = gen_aln(&mut rng, false) else {
        ctx.bump("aln_generator_rejected_by_sync_sam_parser");
        return;
    };
    let file = match guarded(|| bam_sync_write(&a)) {
        Ok(Ok(f)) => f,
        _ => {
            ctx.bump("bam_sync_writer_rejected_input");
            return;
        }
    };
    // ---- writer
    let workers = 1 + rng.below(8) as usize;
    let (k, acc, kname) = snk(&mut rng, file.len());
    let (h2, recs2) = (a.header.clone(), a.recs.clone());
    let wr = guarded(move || {
        block_on(async move {
            let inner = bgzf::r#async::io::writer::Builder::default().set_worker_count(NonZero::new(workers).unwrap()).build_from_writer(k);
            let mut w = bam::r#async::io::Writer::from(inner);
            w.write_header(&h2).await?;
            for r in &recs2 {
                w.write_alignment_record(&h2, r).await?;
            }
            w.shutdown().await
        })
    });
    ctx.eval(if a.recs.len() > 1 { Some(fnv(format!("{case} w").as_bytes())) } else { None });
    let how = format!("sink schedule {kname}, workers {workers}");
    match wr {
        Err(p) => ctx.fail("bam-async-writer", format!("async BAM writer panicked: {} ({how})", clip(&p)), case.clone()),
        Ok(Err(e)) => ctx.fail("bam-async-writer", format!("async BAM writer failed where the sync writer succeeded: {e} ({how})"), case.clone()),
        Ok(Ok(())) => {
            let fa = acc.lock().unwrap().clone();
            let (da, ds) = (bgzf_decode(&fa), bgzf_decode(&file));
            if da != ds || da.is_err() {
                ctx.fail("bam-async-writer", format!("the async BAM writer's output decodes to {:?} bytes, the sync writer's to {:?} bytes, or they differ in content ({how})", da.as_ref().map(|v| v.len()), ds.as_ref().map(|v| v.len())), case.clone());
            } else if !fa.ends_with(&super::super::c01::EOF) {
                ctx.fail("bam-async-writer", format!("the async BAM writer's output does not end with the BGZF EOF marker ({how})"), case.clone());
            } else if fa != file {
                ctx.bump("bam_writer_same_payload_different_bgzf_bytes");
            }
        }
    }
    // ---- reader
    // half of the files are re-framed first: the same BAM stream, its header text optionally
    // padded with NULs (valid under l_text), cut into BGZF members at arbitrary offsets — with
    // cuts 1..3 bytes into a record's block_size field and inside the padding, which the real
    // writer's 64 KiB framing almost never produces
    let file = if rng.chance(1, 2) {
        match reframe_bam(&mut rng, &file) {
            Some(f) => {
                ctx.bump("bam_reader_file_reframed");
                f
            }
            None => file,
        }
    } else {
        file
    };
    let layout = layout_of(&file);
    let mode = rng.below(4);
    let what = ["BAM read_record", "BAM read_record_buf", "BAM records()", "BAM record_bufs()"][mode as usize];
    let mut sync = vec![];
    {
        let mut r = bam::io::Reader::new(&file[..]);
        match r.read_header() {
            Ok(h) => sync.push(format!("header {:?}", h)),
            Err(e) => sync.push(err_line(&e)),
        }
        sync.push(vp_line(&layout, r.get_ref().virtual_position()));
        match mode {
            0 => {
                let mut rec = bam::Record::default();
                loop {
                    match r.read_record(&mut rec) {
                        Ok(0) => { sync.push("EOF".into()); break; }
                        Ok(_) => sync.push(format!("rec {:?} {}", rec, vp_line(&layout, r.get_ref().virtual_position()))),
                        Err(e) => { sync.push(err_line(&e)); break; }
                    }
                }
            }
            1 => {
                let mut rec = RecordBuf::default();
                loop {
                    match r.read_record_buf(&a.header, &mut rec) {
                        Ok(0) => { sync.push("EOF".into()); break; }
                        Ok(_) => sync.push(format!("rec {:?} {}", rec, vp_line(&layout, r.get_ref().virtual_position()))),
                        Err(e) => { sync.push(err_line(&e)); break; }
                    }
                }
            }
            2 => {
                for x in r.records() {
                    match x {
                        Ok(rec) => sync.push(format!("rec {:?}", rec)),
                        Err(e) => { sync.push(err_line(&e)); break; }
                    }
                }
                sync.push("END".into());
            }
            _ => {
                for x in r.record_bufs(&a.header) {
                    match x {
                        Ok(rec) => sync.push(format!("rec {:?}", rec)),
                        Err(e) => { sync.push(err_line(&e)); break; }
                    }
                }
                sync.push("END".into());
            }
        }
        sync.push(vp_line(&layout, r.get_ref().virtual_position()));
    }
    let (s, sname) = src(&mut rng, &file);
    let rworkers = 1 + rng.below(8) as usize;
    let hdr = a.header.clone();
    let lay2 = layout.clone();
    let asy = guarded(move || {
        block_on(async move {
            let layout = lay2;
            let mut t = vec![];
            let inner = bgzf::r#async::io::reader::Builder::default().set_worker_count(NonZero::new(rworkers).unwrap()).build_from_reader(s);
            let mut r = bam::r#async::io::Reader::from(inner);
            match r.read_header().await {
                Ok(h) => t.push(format!("header {:?}", h)),
                Err(e) => t.push(err_line(&e)),
            }
            t.push(vp_line(&layout, r.get_ref().virtual_position()));
            match mode {
                0 => {
                    let mut rec = bam::Record::default();
                    loop {
                        match r.read_record(&mut rec).await {
                            Ok(0) => { t.push("EOF".into()); break; }
                            Ok(_) => t.push(format!("rec {:?} {}", rec, vp_line(&layout, r.get_ref().virtual_position()))),
                            Err(e) => { t.push(err_line(&e)); break; }
                        }
                    }
                }
                1 => {
                    let mut rec = RecordBuf::default();
                    loop {
                        match r.read_record_buf(&hdr, &mut rec).await {
                            Ok(0) => { t.push("EOF".into()); break; }
                            Ok(_) => t.push(format!("rec {:?} {}", rec, vp_line(&layout, r.get_ref().virtual_position()))),
                            Err(e) => { t.push(err_line(&e)); break; }
                        }
                    }
                }
                2 => {
                    {
                        let mut st = r.records();
                        loop {
                            match st.try_next().await {
                                Ok(Some(rec)) => t.push(format!("rec {:?}", rec)),
                                Ok(None) => break,
                                Err(e) => { t.push(err_line(&e)); break; }
                            }
                        }
                    }
                    t.push("END".into());
                }
                _ => {
                    {
                        let mut st = r.record_bufs(&hdr);
                        loop {
                            match st.try_next().await {
                                Ok(Some(rec)) => t.push(format!("rec {:?}", rec)),
                                Ok(None) => break,
                                Err(e) => { t.push(err_line(&e)); break; }
                            }
                        }
                    }
                    t.push("END".into());
                }
            }
            t.push(vp_line(&layout, r.get_ref().virtual_position()));
            t
        })
    });
    ctx.eval(if a.recs.len() > 1 { Some(fnv(format!("{case} r").as_bytes())) } else { None });
    same(ctx, "bam-async-reader", what, &sync, &asy, &format!("schedule {sname}, workers {rworkers}"), &case);
    // ---- queries: ONE sync reader and ONE async reader serve the whole list
    let index = match bam_index(&file, a.refs.len()) {
        Ok(i) => i,
        Err(_) => {
            ctx.bump("bam_index_build_failed");
            return;
        }
    };
    let regions = gen_regions(&mut rng, a.refs.len());
    // unplaced reads only: ask for them twice, so that the second query finds a reader that has been read
    let regions = if !a.recs.is_empty() && a.recs.iter().all(|r| r.reference_sequence_id().is_none()) {
        ctx.bump("query_file_with_unplaced_reads_only");
        vec![None, Some(Region::new("sq0", ..)), None]
    } else {
        regions
    };
    let mut sync = vec![];
    {
        let mut r = bam::io::Reader::new(std::io::Cursor::new(file.clone()));
        let _ = r.read_header();
        for q in &regions {
            match q {
                Some(region) => {
                    sync.push(format!("query {region}"));
                    match r.query(&a.header, &index, region) {
                        Ok(qr) => {
                            for x in qr.records() {
                                match x {
                                    Ok(rec) => sync.push(name_of(&rec)),
                                    Err(e) => { sync.push(err_line(&e)); break; }
                                }
                            }
                            sync.push("END".into());
                        }
                        Err(e) => sync.push(err_line(&e)),
                    }
                }
                None => {
                    sync.push("query unmapped".into());
                    match r.query_unmapped(&index) {
                        Ok(it) => {
                            for x in it {
                                match x {
                                    Ok(rec) => sync.push(name_of(&rec)),
                                    Err(e) => { sync.push(err_line(&e)); break; }
                                }
                            }
                            sync.push("END".into());
                        }
                        Err(e) => sync.push(err_line(&e)),
                    }
                }
            }
        }
    }
    let (s, sname) = src(&mut rng, &file);
    let qworkers = 1 + rng.below(8) as usize;
    let hdr = a.header.clone();
    let ix2 = index.clone();
    let regions2 = regions.clone();
    let asy = guarded(move || {
        block_on(async move {
            let mut t = vec![];
            let inner = bgzf::r#async::io::reader::Builder::default().set_worker_count(NonZero::new(qworkers).unwrap()).build_from_reader(s);
            let mut r = bam::r#async::io::Reader::from(inner);
            let _ = r.read_header().await;
            for q in &regions2 {
                match q {
                    Some(region) => {
                        t.push(format!("query {region}"));
                        match r.query(&hdr, &ix2, region) {
                            Ok(qr) => {
                                let mut st = qr.records();
                                loop {
                                    match st.try_next().await {
                                        Ok(Some(rec)) => t.push(name_of(&rec)),
                                        Ok(None) => break,
                                        Err(e) => { t.push(err_line(&e)); break; }
                                    }
                                }
                                t.push("END".into());
                            }
                            Err(e) => t.push(err_line(&e)),
                        }
                    }
                    None => {
                        t.push("query unmapped".into());
                        match r.query_unmapped(&ix2).await {
                            Ok(mut st) => {
                                loop {
                                    match st.try_next().await {
                                        Ok(Some(rec)) => t.push(name_of(&rec)),
                                        Ok(None) => break,
                                        Err(e) => { t.push(err_line(&e)); break; }
                                    }
                                }
                                t.push("END".into());
                            }
                            Err(e) => t.push(err_line(&e)),
                        }
                    }
                }
            }
            t
        })
    });
    ctx.eval(if a.recs.len() > 1 { Some(fnv(format!("{case} q").as_bytes())) } else { None });
    let starts: Vec<Option<(u64, u64)>> = regions
        .iter()
        .map(|q| q.as_ref().and_then(|rg| a.header.reference_sequences().get_index_of(rg.name()).and_then(|id| index.query(id, rg.interval()).ok()).and_then(|c| chunk_ends(&c))))
        .collect();
    let cls = query_class("bam", &sync, &asy, &starts);
    same(ctx, &cls, "BAM queries on one shared reader", &sync, &asy, &format!("schedule {sname}, workers {qworkers}"), &case);
    ctx.bump("fmt_bam");
}

// ------------------------------------------------------------------ query helpers

/// index of the first differing observation
fn first_diff(sync: &Transcript, asy: &Result<Transcript, String>) -> Option<usize> {
    match asy {
        Err(_) => Some(0),
        Ok(a) => (0..a.len().max(sync.len())).find(|&i| a.get(i) != sync.get(i)),
    }
}

/// `starts[i]` = (first chunk start, last chunk start) of query i, None when the query has no chunks or
/// does not go through the chunk reader. A failing query whose first chunk starts exactly where the
/// previous chunked query last sought is the signature of the `poll_seek` repeat defect
/// (`SeekState::Done(p)`: a seek to the position of the previous seek is skipped).
fn query_class(fmt: &str, sync: &Transcript, asy: &Result<Transcript, String>, starts: &[Option<(u64, u64)>]) -> String {
    if let Some(d) = first_diff(sync, asy) {
        let qi = sync.iter().take(d + 1).filter(|l| l.starts_with("query ")).count();
        if qi >= 1 && qi <= starts.len() {
            if let Some((first, _)) = starts[qi - 1] {
                let prev = starts[..qi - 1].iter().rev().find_map(|s| *s).map(|(_, last)| last);
                if prev == Some(first) {
                    return format!("{fmt}-async-query-repeated-seek");
                }
            }
        }
    }
    format!("{fmt}-async-query")
}

fn chunk_ends(chunks: &[Chunk]) -> Option<(u64, u64)> {
    match (chunks.first(), chunks.last()) {
        (Some(a), Some(b)) => Some((u64::from(a.start()), u64::from(b.start()))),
        _ => None,
    }
}

/// a BGZF file holding `text`, cut into several blocks at random flush points
fn bgzf_text(rng: &mut Rng, text: &[u8]) -> Vec<u8> {
    use std::io::Write;
    let mut w = bgzf::io::Writer::new(Vec::new());
    let mut rest = text;
    while !rest.is_empty() {
        let n = (1 + rng.below(4000) as usize).min(rest.len());
        w.write_all(&rest[..n]).unwrap();
        rest = &rest[n..];
        if rng.chance(1, 2) {
            w.flush().unwrap();
        }
    }
    w.finish().unwrap()
}

// ------------------------------------------------------------------ SAM

fn sam_case(ctx: &mut Ctx, sub: u64) {
    let mut rng = Rng::new(sub);
    let case = format!("sam {sub}");
    let Some(a) = gen_aln(&mut rng, false) else {
        ctx.bump("aln_generator_rejected_by_sync_sam_parser");
        return;
    };
    // ---- writer (text: byte-identical)
    let mut st = vec![];
    let mut sw = sam::io::Writer::new(Vec::new());
    st.push(match sw.write_header(&a.header) { Ok(()) => "ok".to_string(), Err(e) => err_line(&e) });
    for r in &a.recs {
        st.push(match sw.write_alignment_record(&a.header, r) { Ok(()) => "ok".to_string(), Err(e) => err_line(&e) });
    }
    let sbytes = sw.get_ref().clone();
    st.push(format!("bytes {}:{:08x}", sbytes.len(), crc32(&sbytes)));
    let (k, acc, kname) = snk(&mut rng, sbytes.len());
    let (h2, recs2) = (a.header.clone(), a.recs.clone());
    let at = guarded(move || {
        block_on(async move {
            use tokio::io::AsyncWriteExt;
            let mut t = vec![];
            let mut w = sam::r#async::io::Writer::new(k);
            t.push(match w.write_header(&h2).await { Ok(()) => "ok".to_string(), Err(e) => err_line(&e) });
            for r in &recs2 {
                t.push(match w.write_alignment_record(&h2, r).await { Ok(()) => "ok".to_string(), Err(e) => err_line(&e) });
            }
            let _ = w.get_mut().shutdown().await;
            t
        })
    })
    .map(|mut t| {
        let b = acc.lock().unwrap().clone();
        t.push(format!("bytes {}:{:08x}", b.len(), crc32(&b)));
        t
    });
    ctx.eval(if a.recs.len() > 1 { Some(fnv(format!("{case} w").as_bytes())) } else { None });
    same(ctx, "sam-async-writer", "SAM write_header/write_alignment_record", &st, &at, &format!("sink schedule {kname}"), &case);
    // ---- reader on the plain text
    let mode = rng.below(4);
    let what = ["SAM read_record_buf", "SAM read_record", "SAM records()", "SAM record_bufs()"][mode as usize];
    let mut sync = vec![];
    {
        let mut r = sam::io::Reader::new(&a.text[..]);
        match r.read_header() {
            Ok(h) => sync.push(format!("header {:?}", h)),
            Err(e) => sync.push(err_line(&e)),
        }
        match mode {
            0 => {
                let mut rec = RecordBuf::default();
                loop {
                    match r.read_record_buf(&a.header, &mut rec) {
                        Ok(0) => { sync.push("EOF".into()); break; }
                        Ok(_) => sync.push(format!("rec {:?}", rec)),
                        Err(e) => { sync.push(err_line(&e)); break; }
                    }
                }
            }
            1 => {
                let mut rec = sam::Record::default();
                loop {
                    match r.read_record(&mut rec) {
                        Ok(0) => { sync.push("EOF".into()); break; }
                        Ok(_) => sync.push(format!("rec {:?}", rec)),
                        Err(e) => { sync.push(err_line(&e)); break; }
                    }
                }
            }
            2 => {
                for x in r.records() {
                    match x {
                        Ok(rec) => sync.push(format!("rec {:?}", rec)),
                        Err(e) => { sync.push(err_line(&e)); break; }
                    }
                }
                sync.push("END".into());
            }
            _ => {
                for x in r.record_bufs(&a.header) {
                    match x {
                        Ok(rec) => sync.push(format!("rec {:?}", rec)),
                        Err(e) => { sync.push(err_line(&e)); break; }
                    }
                }
                sync.push("END".into());
            }
        }
    }
    let (s, sname) = src(&mut rng, &a.text);
    let cap = *rng.pick(&[1usize, 3, 64, 8192]);
    let hdr = a.header.clone();
    let asy = guarded(move || {
        block_on(async move {
            let mut t = vec![];
            let mut r = sam::r#async::io::Reader::new(tokio::io::BufReader::with_capacity(cap, s));
            match r.read_header().await {
                Ok(h) => t.push(format!("header {:?}", h)),
                Err(e) => t.push(err_line(&e)),
            }
            match mode {
                0 => {
                    let mut rec = RecordBuf::default();
                    loop {
                        match r.read_record_buf(&hdr, &mut rec).await {
                            Ok(0) => { t.push("EOF".into()); break; }
                            Ok(_) => t.push(format!("rec {:?}", rec)),
                            Err(e) => { t.push(err_line(&e)); break; }
                        }
                    }
                }
                1 => {
                    let mut rec = sam::Record::default();
                    loop {
                        match r.read_record(&mut rec).await {
                            Ok(0) => { t.push("EOF".into()); break; }
                            Ok(_) => t.push(format!("rec {:?}", rec)),
                            Err(e) => { t.push(err_line(&e)); break; }
                        }
                    }
                }
                2 => {
                    {
                        let mut st = r.records();
                        loop {
                            match st.try_next().await {
                                Ok(Some(rec)) => t.push(format!("rec {:?}", rec)),
                                Ok(None) => break,
                                Err(e) => { t.push(err_line(&e)); break; }
                            }
                        }
                    }
                    t.push("END".into());
                }
                _ => {
                    {
                        let mut st = r.record_bufs(&hdr);
                        loop {
                            match st.try_next().await {
                                Ok(Some(rec)) => t.push(format!("rec {:?}", rec)),
                                Ok(None) => break,
                                Err(e) => { t.push(err_line(&e)); break; }
                            }
                        }
                    }
                    t.push("END".into());
                }
            }
            t
        })
    });
    ctx.eval(if a.recs.len() > 1 { Some(fnv(format!("{case} r").as_bytes())) } else { None });
    same(ctx, "sam-async-reader", what, &sync, &asy, &format!("schedule {sname}, BufReader capacity {cap}"), &case);
    // ---- BGZF-compressed SAM: index by a sync scan, then queries on shared readers
    let file = bgzf_text(&mut rng, &a.text);
    let index: BamIndex = {
        let mut r = sam::io::Reader::new(bgzf::io::Reader::new(&file[..]));
        if r.read_header().is_err() {
            return;
        }
        let mut ix = Indexer::<LinearIndex>::default();
        let mut rec = RecordBuf::default();
        loop {
            let start = r.get_ref().virtual_position();
            match r.read_record_buf(&a.header, &mut rec) {
                Ok(0) => break,
                Ok(_) => {
                    let end = r.get_ref().virtual_position();
                    let c = match (rec.reference_sequence_id(), rec.alignment_start(), rec.alignment_end()) {
                        (Some(id), Some(s), Some(e)) => Some((id, s, e, !rec.flags().is_unmapped())),
                        _ => None,
                    };
                    if ix.add_record(c, Chunk::new(start, end)).is_err() {
                        return;
                    }
                }
                Err(_) => return,
            }
        }
        ix.build(a.refs.len())
    };
    let regions = gen_regions(&mut rng, a.refs.len());
    // unplaced reads only: ask for them twice, so that the second query finds a reader that has been read
    let regions = if !a.recs.is_empty() && a.recs.iter().all(|r| r.reference_sequence_id().is_none()) {
        ctx.bump("query_file_with_unplaced_reads_only");
        vec![None, Some(Region::new("sq0", ..)), None]
    } else {
        regions
    };
    let starts: Vec<Option<(u64, u64)>> = regions
        .iter()
        .map(|q| q.as_ref().and_then(|rg| a.header.reference_sequences().get_index_of(rg.name()).and_then(|id| index.query(id, rg.interval()).ok()).and_then(|c| chunk_ends(&c))))
        .collect();
    let mut sync = vec![];
    {
        let mut r = sam::io::Reader::new(bgzf::io::Reader::new(std::io::Cursor::new(file.clone())));
        let _ = r.read_header();
        for q in &regions {
            match q {
                Some(region) => {
                    sync.push(format!("query {region}"));
                    match r.query(&a.header, &index, region) {
                        Ok(qr) => {
                            for x in qr.records() {
                                match x {
                                    Ok(rec) => sync.push(name_of(&rec)),
                                    Err(e) => { sync.push(err_line(&e)); break; }
                                }
                            }
                            sync.push("END".into());
                        }
                        Err(e) => sync.push(err_line(&e)),
                    }
                }
                None => {
                    sync.push("query unmapped".into());
                    match r.query_unmapped(&index) {
                        Ok(it) => {
                            for x in it {
                                match x {
                                    Ok(rec) => sync.push(name_of(&rec)),
                                    Err(e) => { sync.push(err_line(&e)); break; }
                                }
                            }
                            sync.push("END".into());
                        }
                        Err(e) => sync.push(err_line(&e)),
                    }
                }
            }
        }
    }
    let (s, sname) = src(&mut rng, &file);
    let qworkers = 1 + rng.below(8) as usize;
    let hdr = a.header.clone();
    let ix2 = index.clone();
    let regions2 = regions.clone();
    let asy = guarded(move || {
        block_on(async move {
            let mut t = vec![];
            let inner = bgzf::r#async::io::reader::Builder::default().set_worker_count(NonZero::new(qworkers).unwrap()).build_from_reader(s);
            let mut r = sam::r#async::io::Reader::new(inner);
            let _ = r.read_header().await;
            for q in &regions2 {
                match q {
                    Some(region) => {
                        t.push(format!("query {region}"));
                        match r.query(&hdr, &ix2, region) {
                            Ok(qr) => {
                                let mut st = qr.records();
                                loop {
                                    match st.try_next().await {
                                        Ok(Some(rec)) => t.push(name_of(&rec)),
                                        Ok(None) => break,
                                        Err(e) => { t.push(err_line(&e)); break; }
                                    }
                                }
                                t.push("END".into());
                            }
                            Err(e) => t.push(err_line(&e)),
                        }
                    }
                    None => {
                        t.push("query unmapped".into());
                        match r.query_unmapped(&ix2).await {
                            Ok(mut st) => {
                                loop {
                                    match st.try_next().await {
                                        Ok(Some(rec)) => t.push(name_of(&rec)),
                                        Ok(None) => break,
                                        Err(e) => { t.push(err_line(&e)); break; }
                                    }
                                }
                                t.push("END".into());
                            }
                            Err(e) => t.push(err_line(&e)),
                        }
                    }
                }
            }
            t
        })
    });
    ctx.eval(if a.recs.len() > 1 { Some(fnv(format!("{case} q").as_bytes())) } else { None });
    let cls = query_class("sam", &sync, &asy, &starts);
    same(ctx, &cls, "SAM.gz queries on one shared reader", &sync, &asy, &format!("schedule {sname}, workers {qworkers}"), &case);
    ctx.bump("fmt_sam");
}

// ------------------------------------------------------------------ variants (VCF text as the source of truth)

use noodles_bcf as bcf;
use noodles_vcf::{self as vcf, variant::io::Write as _};

pub struct Var {
    pub header: vcf::Header,
    pub recs: Vec<vcf::variant::RecordBuf>,
    pub text: Vec<u8>,
    pub ncontig: usize,
}

/// canonical rendering of a VCF header: its text (by the sync VCF writer) and the BCF dictionaries in
/// index order. (`{:?}` of a header is not canonical: the string maps hold a `HashMap`.)
fn vcf_header_line(h: &vcf::Header) -> String {
    let mut w = vcf::io::Writer::new(Vec::new());
    let text = match w.write_header(h) { Ok(()) => String::from_utf8_lossy(w.get_ref()).to_string(), Err(e) => format!("unwritable:{e}") };
    let strings: Vec<Option<&str>> = (0..64).map(|i| h.string_maps().strings().get_index(i)).collect();
    let contigs: Vec<Option<&str>> = (0..16).map(|i| h.string_maps().contigs().get_index(i)).collect();
    format!("header {} strings {:?} contigs {:?}", text.escape_debug(), strings, contigs)
}

pub fn gen_var(rng: &mut Rng) -> Option<Var> {
    let ncontig = 1 + rng.below(3) as usize;
    let nsamples = rng.below(3) as usize;
    let mut t = String::new();
    t.push_str("##fileformat=VCFv4.3\n");
    for i in 0..ncontig {
        t.push_str(&format!("##contig=<ID=sq{i},length=250000>\n"));
    }
    t.push_str("##INFO=<ID=DP,Number=1,Type=Integer,Description=\"depth\">\n");
    t.push_str("##INFO=<ID=AF,Number=A,Type=Float,Description=\"freq\">\n");
    t.push_str("##INFO=<ID=DB,Number=0,Type=Flag,Description=\"db\">\n");
    t.push_str("##INFO=<ID=AA,Number=1,Type=String,Description=\"anc\">\n");
    t.push_str("##FILTER=<ID=PASS,Description=\"All filters passed\">\n");
    t.push_str("##FILTER=<ID=q10,Description=\"low\">\n");
    t.push_str("##FORMAT=<ID=GT,Number=1,Type=String,Description=\"gt\">\n");
    t.push_str("##FORMAT=<ID=GQ,Number=1,Type=Integer,Description=\"gq\">\n");
    t.push_str("##FORMAT=<ID=AD,Number=R,Type=Integer,Description=\"ad\">\n");
    t.push_str("#CHROM\tPOS\tID\tREF\tALT\tQUAL\tFILTER\tINFO");
    if nsamples > 0 {
        t.push_str("\tFORMAT");
        for i in 0..nsamples {
            t.push_str(&format!("\ts{i}"));
        }
    }
    t.push('\n');
    let dense = rng.chance(1, 3);
    let mut serial = 0;
    for c in 0..ncontig {
        let n = if dense { rng.below(150) } else { rng.below(14) } as usize;
        let mut pos: Vec<usize> = (0..n).map(|_| 1 + rng.below(240_000) as usize).collect();
        pos.sort();
        for p in pos {
            let reflen = 1 + rng.below(4) as usize;
            let refb: String = (0..reflen).map(|_| *rng.pick(b"ACGT") as char).collect();
            let nalt = rng.below(3) as usize;
            let alts: Vec<String> = (0..nalt).map(|_| (0..1 + rng.below(3)).map(|_| *rng.pick(b"ACGT") as char).collect()).collect();
            let alt = if alts.is_empty() { ".".to_string() } else { alts.join(",") };
            let id = if rng.chance(1, 2) { format!("v{serial}") } else { format!("v{serial};rs{}", rng.below(9999)) };
            let qual = if rng.chance(1, 3) { ".".to_string() } else { format!("{}", *rng.pick(&["10", "29.5", "100", "0.25", "3000"])) };
            let filt = *rng.pick(&["PASS", ".", "q10"]);
            let mut info = vec![];
            if rng.chance(1, 2) { info.push(format!("DP={}", rng.below(500))); }
            if nalt > 0 && rng.chance(1, 2) { info.push(format!("AF={}", (0..nalt).map(|_| *rng.pick(&["0.5", "0.25", "0.125", "1"])).collect::<Vec<_>>().join(","))); }
            if rng.chance(1, 4) { info.push("DB".to_string()); }
            if rng.chance(1, 5) { info.push(format!("AA={}", *rng.pick(&["A", "C", "G", "T"]))); }
            let info = if info.is_empty() { ".".to_string() } else { info.join(";") };
            let mut line = format!("sq{c}\t{p}\t{id}\t{refb}\t{alt}\t{qual}\t{filt}\t{info}");
            if nsamples > 0 {
                let with_ad = rng.chance(1, 2);
                line.push_str(if with_ad { "\tGT:GQ:AD" } else { "\tGT:GQ" });
                for _ in 0..nsamples {
                    let gt = *rng.pick(&["0/0", "0/1", "1/1", "./.", "0|1"]);
                    let gq = if rng.chance(1, 5) { ".".to_string() } else { format!("{}", rng.below(99)) };
                    line.push_str(&format!("\t{gt}:{gq}"));
                    if with_ad {
                        // one value per allele (REF + ALTs); never an all-missing column (a known BCF writer defect, C10)
                        let ad: Vec<String> = (0..=nalt).map(|_| format!("{}", rng.below(60))).collect();
                        line.push_str(&format!(":{}", ad.join(",")));
                    }
                }
            }
            line.push('\n');
            t.push_str(&line);
            serial += 1;
        }
    }
    let text = t.into_bytes();
    let mut r = vcf::io::Reader::new(&text[..]);
    let header = r.read_header().ok()?;
    let mut recs = vec![];
    let mut rec = vcf::variant::RecordBuf::default();
    loop {
        match r.read_record_buf(&header, &mut rec) {
            Ok(0) => break,
            Ok(_) => recs.push(rec.clone()),
            Err(_) => return None,
        }
    }
    Some(Var { header, recs, text, ncontig })
}

fn var_regions(rng: &mut Rng, ncontig: usize) -> Vec<Region> {
    let mut out: Vec<Region> = vec![];
    let n = 3 + rng.below(8);
    for _ in 0..n {
        let name = format!("sq{}", rng.below(ncontig as u64));
        let r = match rng.below(8) {
            0 => Region::new(name, ..),
            1 => Region::new("nosuch", ..),
            2 => out.last().cloned().unwrap_or_else(|| Region::new(name, ..)),
            _ => {
                let s = 1 + rng.below(240_000) as usize;
                let e = s + rng.below(60_000) as usize;
                Region::new(name, Position::try_from(s).unwrap()..=Position::try_from(e).unwrap())
            }
        };
        out.push(r);
    }
    out
}

fn ids_of(r: &dyn vcf::variant::Record) -> String {
    r.ids().iter().map(|s| s.to_string()).collect::<Vec<_>>().join(";")
}

/// index reading and writing: the async reader/writer of a CSI or tabix index vs the sync ones
fn index_io_csi(ctx: &mut Ctx, rng: &mut Rng, index: &csi::Index, case: &str) {
    let mut sw = csi::io::Writer::new(Vec::new());
    if sw.write_index(index).is_err() {
        return;
    }
    let Ok(sbytes) = sw.into_inner().finish() else { return };
    let (k, acc, kname) = snk(rng, sbytes.len());
    let ix = index.clone();
    let wr = guarded(move || {
        block_on(async move {
            let mut w = csi::r#async::io::Writer::new(k);
            w.write_index(&ix).await?;
            w.shutdown().await
        })
    });
    ctx.eval(Some(fnv(format!("{case} csi-w").as_bytes())));
    match wr {
        Ok(Ok(())) => {
            let fa = acc.lock().unwrap().clone();
            if bgzf_decode(&fa) != bgzf_decode(&sbytes) || bgzf_decode(&fa).is_err() {
                let (da, ds) = (bgzf_decode(&fa).unwrap_or_default(), bgzf_decode(&sbytes).unwrap_or_default());
                let at = da.iter().zip(ds.iter()).position(|(x, y)| x != y).unwrap_or(da.len().min(ds.len()));
                if let Ok(d) = std::env::var("NVH_DUMP") {
                    let _ = std::fs::write(format!("{d}/csi.async.bin"), &da);
                    let _ = std::fs::write(format!("{d}/csi.sync.bin"), &ds);
                }
                let back = match guarded(|| csi::io::Reader::new(&fa[..]).read_index()) {
                    Ok(Ok(i)) => if format!("{:?}", i) == format!("{:?}", index) { "the sync reader reads the async output back as the same index".to_string() } else { "the sync reader reads the async output back as a DIFFERENT index".to_string() },
                    Ok(Err(e)) => format!("the sync reader rejects the async output: {e}"),
                    Err(p) => format!("the sync reader panics on the async output: {}", clip(&p)),
                };
                // two known defects of the async CSI writer: n_ref is never written (the payloads then differ
                // from byte 16 + l_aux on and are 4 bytes shorter), and loffset is not the minimum over the
                // bin's ancestors (same length, different loffset fields)
                let cls = if da.len() + 4 == ds.len() { "csi-async-writer-missing-n-ref" } else { "csi-async-writer" };
                ctx.fail(cls, format!("the async CSI writer's output decodes to {} bytes, the sync writer's to {} bytes; first difference at payload offset {at}; {back} (sink schedule {kname})", da.len(), ds.len()), case.into());
            } else if fa != sbytes {
                ctx.bump("csi_writer_same_payload_different_bgzf_bytes");
            }
        }
        other => ctx.fail("csi-async-writer", format!("the async CSI writer failed or panicked where the sync writer succeeded: {:?} (sink schedule {kname})", other.map(|r| r.map_err(|e| e.to_string()))), case.into()),
    }
    let sync = vec![match csi::io::Reader::new(&sbytes[..]).read_index() { Ok(i) => format!("{:?}", i), Err(e) => err_line(&e) }];
    let (s, sname) = src(rng, &sbytes);
    let asy = guarded(move || block_on(async move { vec![match csi::r#async::io::Reader::new(s).read_index().await { Ok(i) => format!("{:?}", i), Err(e) => err_line(&e) }] }));
    ctx.eval(Some(fnv(format!("{case} csi-r").as_bytes())));
    same(ctx, "csi-async-reader", "CSI read_index", &sync, &asy, &format!("schedule {sname}"), case);
}

fn index_io_tabix(ctx: &mut Ctx, rng: &mut Rng, index: &noodles_tabix::Index, case: &str) {
    use noodles_tabix as tabix;
    let mut sw = tabix::io::Writer::new(Vec::new());
    if sw.write_index(index).is_err() || sw.try_finish().is_err() {
        return;
    }
    let sbytes = sw.get_ref().get_ref().clone();
    let (k, acc, kname) = snk(rng, sbytes.len());
    let ix = index.clone();
    let wr = guarded(move || {
        block_on(async move {
            let mut w = tabix::r#async::io::Writer::new(k);
            w.write_index(&ix).await?;
            w.shutdown().await
        })
    });
    ctx.eval(Some(fnv(format!("{case} tbi-w").as_bytes())));
    match wr {
        Ok(Ok(())) => {
            let fa = acc.lock().unwrap().clone();
            if bgzf_decode(&fa) != bgzf_decode(&sbytes) || bgzf_decode(&fa).is_err() {
                ctx.fail("tabix-async-writer", format!("the async tabix writer's output does not decode to what the sync writer's output decodes to (sink schedule {kname})"), case.into());
            } else if fa != sbytes {
                ctx.bump("tabix_writer_same_payload_different_bgzf_bytes");
            }
        }
        other => ctx.fail("tabix-async-writer", format!("the async tabix writer failed or panicked where the sync writer succeeded: {:?} (sink schedule {kname})", other.map(|r| r.map_err(|e| e.to_string()))), case.into()),
    }
    let sync = vec![match tabix::io::Reader::new(&sbytes[..]).read_index() { Ok(i) => format!("{:?}", i), Err(e) => err_line(&e) }];
    let (s, sname) = src(rng, &sbytes);
    let asy = guarded(move || block_on(async move { vec![match tabix::r#async::io::Reader::new(s).read_index().await { Ok(i) => format!("{:?}", i), Err(e) => err_line(&e) }] }));
    ctx.eval(Some(fnv(format!("{case} tbi-r").as_bytes())));
    same(ctx, "tabix-async-reader", "tabix read_index", &sync, &asy, &format!("schedule {sname}"), case);
}

fn vcf_case(ctx: &mut Ctx, sub: u64) {
    let mut rng = Rng::new(sub);
    let case = format!("vcf {sub}");
    let Some(v) = gen_var(&mut rng) else {
        ctx.bump("var_generator_rejected_by_sync_vcf_parser");
        return;
    };
    // ---- writer
    let mut st = vec![];
    let mut sw = vcf::io::Writer::new(Vec::new());
    st.push(match sw.write_header(&v.header) { Ok(()) => "ok".to_string(), Err(e) => err_line(&e) });
    for r in &v.recs {
        st.push(match sw.write_variant_record(&v.header, r) { Ok(()) => "ok".to_string(), Err(e) => err_line(&e) });
    }
    let sbytes = sw.get_ref().clone();
    st.push(format!("bytes {}:{:08x}", sbytes.len(), crc32(&sbytes)));
    let (k, acc, kname) = snk(&mut rng, sbytes.len());
    let (h2, recs2) = (v.header.clone(), v.recs.clone());
    let at = guarded(move || {
        block_on(async move {
            let mut t = vec![];
            let mut w = vcf::r#async::io::Writer::new(k);
            t.push(match w.write_header(&h2).await { Ok(()) => "ok".to_string(), Err(e) => err_line(&e) });
            for r in &recs2 {
                t.push(match w.write_variant_record(&h2, r).await { Ok(()) => "ok".to_string(), Err(e) => err_line(&e) });
            }
            let _ = w.shutdown().await;
            t
        })
    })
    .map(|mut t| {
        let b = acc.lock().unwrap().clone();
        t.push(format!("bytes {}:{:08x}", b.len(), crc32(&b)));
        t
    });
    ctx.eval(if v.recs.len() > 1 { Some(fnv(format!("{case} w").as_bytes())) } else { None });
    same(ctx, "vcf-async-writer", "VCF write_header/write_variant_record", &st, &at, &format!("sink schedule {kname}"), &case);
    // ---- reader on plain text
    let mode = rng.below(4);
    let what = ["VCF read_record_buf", "VCF read_record", "VCF records()", "VCF record_bufs()"][mode as usize];
    let mut sync = vec![];
    {
        let mut r = vcf::io::Reader::new(&v.text[..]);
        match r.read_header() {
            Ok(h) => sync.push(vcf_header_line(&h)),
            Err(e) => sync.push(err_line(&e)),
        }
        match mode {
            0 => {
                let mut rec = vcf::variant::RecordBuf::default();
                loop {
                    match r.read_record_buf(&v.header, &mut rec) {
                        Ok(0) => { sync.push("EOF".into()); break; }
                        Ok(_) => sync.push(format!("rec {:?}", rec)),
                        Err(e) => { sync.push(err_line(&e)); break; }
                    }
                }
            }
            1 => {
                let mut rec = vcf::Record::default();
                loop {
                    match r.read_record(&mut rec) {
                        Ok(0) => { sync.push("EOF".into()); break; }
                        Ok(_) => sync.push(format!("rec {:?}", rec)),
                        Err(e) => { sync.push(err_line(&e)); break; }
                    }
                }
            }
            2 => {
                for x in r.records() {
                    match x {
                        Ok(rec) => sync.push(format!("rec {:?}", rec)),
                        Err(e) => { sync.push(err_line(&e)); break; }
                    }
                }
                sync.push("END".into());
            }
            _ => {
                for x in r.record_bufs(&v.header) {
                    match x {
                        Ok(rec) => sync.push(format!("rec {:?}", rec)),
                        Err(e) => { sync.push(err_line(&e)); break; }
                    }
                }
                sync.push("END".into());
            }
        }
    }
    let (s, sname) = src(&mut rng, &v.text);
    let cap = *rng.pick(&[1usize, 3, 64, 8192]);
    let hdr = v.header.clone();
    let asy = guarded(move || {
        block_on(async move {
            let mut t = vec![];
            let mut r = vcf::r#async::io::Reader::new(tokio::io::BufReader::with_capacity(cap, s));
            match r.read_header().await {
                Ok(h) => t.push(vcf_header_line(&h)),
                Err(e) => t.push(err_line(&e)),
            }
            match mode {
                0 => {
                    let mut rec = vcf::variant::RecordBuf::default();
                    loop {
                        match r.read_record_buf(&hdr, &mut rec).await {
                            Ok(0) => { t.push("EOF".into()); break; }
                            Ok(_) => t.push(format!("rec {:?}", rec)),
                            Err(e) => { t.push(err_line(&e)); break; }
                        }
                    }
                }
                1 => {
                    let mut rec = vcf::Record::default();
                    loop {
                        match r.read_record(&mut rec).await {
                            Ok(0) => { t.push("EOF".into()); break; }
                            Ok(_) => t.push(format!("rec {:?}", rec)),
                            Err(e) => { t.push(err_line(&e)); break; }
                        }
                    }
                }
                2 => {
                    {
                        let mut st = r.records();
                        loop {
                            match st.try_next().await {
                                Ok(Some(rec)) => t.push(format!("rec {:?}", rec)),
                                Ok(None) => break,
                                Err(e) => { t.push(err_line(&e)); break; }
                            }
                        }
                    }
                    t.push("END".into());
                }
                _ => {
                    {
                        let mut st = r.record_bufs(&hdr);
                        loop {
                            match st.try_next().await {
                                Ok(Some(rec)) => t.push(format!("rec {:?}", rec)),
                                Ok(None) => break,
                                Err(e) => { t.push(err_line(&e)); break; }
                            }
                        }
                    }
                    t.push("END".into());
                }
            }
            t
        })
    });
    ctx.eval(if v.recs.len() > 1 { Some(fnv(format!("{case} r").as_bytes())) } else { None });
    same(ctx, "vcf-async-reader", what, &sync, &asy, &format!("schedule {sname}, BufReader capacity {cap}"), &case);
    // ---- VCF.gz: tabix index by a sync scan (as vcf::fs::index does), then queries
    let file = bgzf_text(&mut rng, &v.text);
    let index: noodles_tabix::Index = {
        use vcf::variant::Record as _;
        let mut r = vcf::io::Reader::new(bgzf::io::Reader::new(&file[..]));
        let Ok(h) = r.read_header() else { return };
        let mut ix = noodles_tabix::index::Indexer::default();
        ix.set_header(csi::binning_index::index::header::Builder::vcf().build());
        let mut rec = vcf::Record::default();
        let mut start = r.get_ref().virtual_position();
        loop {
            match r.read_record(&mut rec) {
                Ok(0) => break,
                Ok(_) => {
                    let end = r.get_ref().virtual_position();
                    let (Some(Ok(s)), Ok(e)) = (rec.variant_start(), rec.variant_end(&h)) else { return };
                    if ix.add_record(rec.reference_sequence_name(), s, e, Chunk::new(start, end)).is_err() {
                        return;
                    }
                    start = end;
                }
                Err(_) => return,
            }
        }
        ix.build()
    };
    index_io_tabix(ctx, &mut rng, &index, &case);
    let regions = var_regions(&mut rng, v.ncontig);
    let starts: Vec<Option<(u64, u64)>> = regions
        .iter()
        .map(|rg| index.header().and_then(|h| h.reference_sequence_names().get_index_of(rg.name())).and_then(|id| index.query(id, rg.interval()).ok()).and_then(|c| chunk_ends(&c)))
        .collect();
    let via_csi_reader = rng.chance(1, 3);
    let mut sync = vec![];
    if via_csi_reader {
        let mut r = csi::io::IndexedReader::new(std::io::Cursor::new(file.clone()), index.clone());
        for region in &regions {
            sync.push(format!("query {region}"));
            match r.query(region) {
                Ok(it) => {
                    for x in it {
                        match x {
                            Ok(rec) => sync.push(AsRef::<str>::as_ref(&rec).to_string()),
                            Err(e) => { sync.push(err_line(&e)); break; }
                        }
                    }
                    sync.push("END".into());
                }
                Err(e) => sync.push(err_line(&e)),
            };
        }
    } else {
        let mut r = vcf::io::Reader::new(bgzf::io::Reader::new(std::io::Cursor::new(file.clone())));
        let _ = r.read_header();
        for region in &regions {
            sync.push(format!("query {region}"));
            match r.query(&v.header, &index, region) {
                Ok(qr) => {
                    for x in qr.records() {
                        match x {
                            Ok(rec) => sync.push(ids_of(&rec)),
                            Err(e) => { sync.push(err_line(&e)); break; }
                        }
                    }
                    sync.push("END".into());
                }
                Err(e) => sync.push(err_line(&e)),
            }
        }
    }
    let (s, sname) = src(&mut rng, &file);
    let qworkers = 1 + rng.below(8) as usize;
    let hdr = v.header.clone();
    let ix2 = index.clone();
    let regions2 = regions.clone();
    let asy = guarded(move || {
        block_on(async move {
            let mut t = vec![];
            if via_csi_reader {
                // csi's IndexedReader builds its own async BGZF reader (default worker count)
                let mut r = csi::r#async::io::IndexedReader::new(s, ix2);
                for region in &regions2 {
                    t.push(format!("query {region}"));
                    match r.query(region) {
                        Ok(st) => {
                            let mut st = Box::pin(st);
                            loop {
                                match st.try_next().await {
                                    Ok(Some(rec)) => t.push(AsRef::<str>::as_ref(&rec).to_string()),
                                    Ok(None) => break,
                                    Err(e) => { t.push(err_line(&e)); break; }
                                }
                            }
                            t.push("END".into());
                        }
                        Err(e) => t.push(err_line(&e)),
                    };
                }
            } else {
                let inner = bgzf::r#async::io::reader::Builder::default().set_worker_count(NonZero::new(qworkers).unwrap()).build_from_reader(s);
                let mut r = vcf::r#async::io::Reader::new(inner);
                let _ = r.read_header().await;
                for region in &regions2 {
                    t.push(format!("query {region}"));
                    match r.query(&hdr, &ix2, region) {
                        Ok(qr) => {
                            let mut st = qr.records();
                            loop {
                                match st.try_next().await {
                                    Ok(Some(rec)) => t.push(ids_of(&rec)),
                                    Ok(None) => break,
                                    Err(e) => { t.push(err_line(&e)); break; }
                                }
                            }
                            t.push("END".into());
                        }
                        Err(e) => t.push(err_line(&e)),
                    }
                }
            }
            t
        })
    });
    ctx.eval(if v.recs.len() > 1 { Some(fnv(format!("{case} q").as_bytes())) } else { None });
    let fmt = if via_csi_reader { "csi" } else { "vcf" };
    let cls = query_class(fmt, &sync, &asy, &starts);
    same(ctx, &cls, if via_csi_reader { "csi IndexedReader queries on one shared reader" } else { "VCF.gz queries on one shared reader" }, &sync, &asy, &format!("schedule {sname}, workers {qworkers}"), &case);
    ctx.bump("fmt_vcf");
}

fn bcf_case(ctx: &mut Ctx, sub: u64) {
    let mut rng = Rng::new(sub);
    let case = format!("bcf {sub}");
    let Some(v) = gen_var(&mut rng) else {
        ctx.bump("var_generator_rejected_by_sync_vcf_parser");
        return;
    };
    let wr = guarded(|| -> std::io::Result<Vec<u8>> {
        let mut w = bcf::io::Writer::new(Vec::new());
        w.write_header(&v.header)?;
        for r in &v.recs {
            w.write_variant_record(&v.header, r)?;
        }
        w.try_finish()?;
        Ok(w.get_ref().get_ref().clone())
    });
    let file = match wr {
        Ok(Ok(f)) => f,
        _ => {
            ctx.bump("bcf_sync_writer_rejected_input");
            return;
        }
    };
    // ---- writer
    let workers = 1 + rng.below(8) as usize;
    let (k, acc, kname) = snk(&mut rng, file.len());
    let (h2, recs2) = (v.header.clone(), v.recs.clone());
    let wr = guarded(move || {
        block_on(async move {
            let inner = bgzf::r#async::io::writer::Builder::default().set_worker_count(NonZero::new(workers).unwrap()).build_from_writer(k);
            let mut w = bcf::r#async::io::Writer::from(inner);
            w.write_header(&h2).await?;
            for r in &recs2 {
                w.write_variant_record(&h2, r).await?;
            }
            // the async BCF writer has no shutdown of its own: the BGZF writer is shut down directly
            tokio::io::AsyncWriteExt::shutdown(w.get_mut()).await
        })
    });
    ctx.eval(if v.recs.len() > 1 { Some(fnv(format!("{case} w").as_bytes())) } else { None });
    let how = format!("sink schedule {kname}, workers {workers}");
    match wr {
        Err(p) => ctx.fail("bcf-async-writer", format!("async BCF writer panicked: {} ({how})", clip(&p)), case.clone()),
        Ok(Err(e)) => ctx.fail("bcf-async-writer", format!("async BCF writer failed where the sync writer succeeded: {e} ({how})"), case.clone()),
        Ok(Ok(())) => {
            let fa = acc.lock().unwrap().clone();
            let (da, ds) = (bgzf_decode(&fa), bgzf_decode(&file));
            if da != ds || da.is_err() {
                ctx.fail("bcf-async-writer", format!("the async BCF writer's output decodes to {:?} bytes, the sync writer's to {:?} bytes, or they differ in content ({how})", da.as_ref().map(|v| v.len()), ds.as_ref().map(|v| v.len())), case.clone());
            } else if !fa.ends_with(&super::super::c01::EOF) {
                ctx.fail("bcf-async-writer", format!("the async BCF writer's output does not end with the BGZF EOF marker ({how})"), case.clone());
            } else if fa != file {
                ctx.bump("bcf_writer_same_payload_different_bgzf_bytes");
            }
        }
    }
    // ---- reader
    let layout = layout_of(&file);
    let via_stream = rng.chance(1, 2);
    let mut sync = vec![];
    {
        let mut r = bcf::io::Reader::new(&file[..]);
        match r.read_header() {
            Ok(h) => sync.push(vcf_header_line(&h)),
            Err(e) => sync.push(err_line(&e)),
        }
        sync.push(vp_line(&layout, r.get_ref().virtual_position()));
        if via_stream {
            for x in r.records() {
                match x {
                    Ok(rec) => sync.push(format!("rec {:?}", rec)),
                    Err(e) => { sync.push(err_line(&e)); break; }
                }
            }
            sync.push("END".into());
        } else {
            let mut rec = bcf::Record::default();
            loop {
                match r.read_record(&mut rec) {
                    Ok(0) => { sync.push("EOF".into()); break; }
                    Ok(_) => sync.push(format!("rec {:?} {}", rec, vp_line(&layout, r.get_ref().virtual_position()))),
                    Err(e) => { sync.push(err_line(&e)); break; }
                }
            }
        }
        sync.push(vp_line(&layout, r.get_ref().virtual_position()));
    }
    let (s, sname) = src(&mut rng, &file);
    let rworkers = 1 + rng.below(8) as usize;
    let lay2 = layout.clone();
    let asy = guarded(move || {
        block_on(async move {
            let layout = lay2;
            let mut t = vec![];
            let inner = bgzf::r#async::io::reader::Builder::default().set_worker_count(NonZero::new(rworkers).unwrap()).build_from_reader(s);
            let mut r = bcf::r#async::io::Reader::from(inner);
            match r.read_header().await {
                Ok(h) => t.push(vcf_header_line(&h)),
                Err(e) => t.push(err_line(&e)),
            }
            t.push(vp_line(&layout, r.get_ref().virtual_position()));
            if via_stream {
                {
                    let mut st = r.records();
                    loop {
                        match st.try_next().await {
                            Ok(Some(rec)) => t.push(format!("rec {:?}", rec)),
                            Ok(None) => break,
                            Err(e) => { t.push(err_line(&e)); break; }
                        }
                    }
                }
                t.push("END".into());
            } else {
                let mut rec = bcf::Record::default();
                loop {
                    match r.read_record(&mut rec).await {
                        Ok(0) => { t.push("EOF".into()); break; }
                        Ok(_) => t.push(format!("rec {:?} {}", rec, vp_line(&layout, r.get_ref().virtual_position()))),
                        Err(e) => { t.push(err_line(&e)); break; }
                    }
                }
            }
            t.push(vp_line(&layout, r.get_ref().virtual_position()));
            t
        })
    });
    ctx.eval(if v.recs.len() > 1 { Some(fnv(format!("{case} r").as_bytes())) } else { None });
    same(ctx, "bcf-async-reader", if via_stream { "BCF records()" } else { "BCF read_record" }, &sync, &asy, &format!("schedule {sname}, workers {rworkers}"), &case);
    // one file in four is made "foreign": the stored rlen of every other record is replaced by a value that
    // disagrees with the record's own end (REF length / INFO END / SVLEN). The sync query derives the end
    // from the record and the header; the async query must give the same answers on the same bytes.
    let file = if rng.chance(1, 4) {
        match bcf_with_foreign_rlen(&file, &mut rng) {
            Some(f) => {
                ctx.bump("bcf_query_file_with_foreign_rlen");
                f
            }
            None => file,
        }
    } else {
        file
    };
    // ---- CSI index by a sync scan (as bcf::fs::index does), index I/O, queries
    let index: csi::Index = {
        use vcf::variant::Record as _;
        let mut r = bcf::io::Reader::new(&file[..]);
        let Ok(h) = r.read_header() else { return };
        let mut ix = Indexer::default();
        let mut rec = bcf::Record::default();
        let mut start = r.get_ref().virtual_position();
        loop {
            match r.read_record(&mut rec) {
                Ok(0) => break,
                Ok(_) => {
                    let end = r.get_ref().virtual_position();
                    let (Ok(id), Some(Ok(s)), Ok(e)) = (rec.reference_sequence_id(), rec.variant_start(), rec.variant_end(&h)) else { return };
                    if ix.add_record(Some((id, s, e, true)), Chunk::new(start, end)).is_err() {
                        return;
                    }
                    start = end;
                }
                Err(_) => return,
            }
        }
        ix.build(h.contigs().len())
    };
    index_io_csi(ctx, &mut rng, &index, &case);
    let regions = var_regions(&mut rng, v.ncontig);
    let starts: Vec<Option<(u64, u64)>> = regions
        .iter()
        .map(|rg| v.header.contigs().get_index_of(rg.name()).and_then(|id| index.query(id, rg.interval()).ok()).and_then(|c| chunk_ends(&c)))
        .collect();
    let mut sync = vec![];
    {
        let mut r = bcf::io::Reader::new(std::io::Cursor::new(file.clone()));
        // the header as the BCF reader delivers it: only that one carries the string maps a query resolves
        // the region's name with (a header parsed from VCF text has none: every query would be refused)
        let Ok(bcf_header) = r.read_header() else { return };
        for region in &regions {
            sync.push(format!("query {region}"));
            match r.query(&bcf_header, &index, region) {
                Ok(qr) => {
                    for x in qr.records() {
                        match x {
                            Ok(rec) => sync.push(ids_of(&rec)),
                            Err(e) => { sync.push(err_line(&e)); break; }
                        }
                    }
                    sync.push("END".into());
                }
                Err(e) => sync.push(err_line(&e)),
            }
        }
    }
    let (s, sname) = src(&mut rng, &file);
    let qworkers = 1 + rng.below(8) as usize;
    let hdr = v.header.clone();
    let ix2 = index.clone();
    let regions2 = regions.clone();
    let asy = guarded(move || {
        block_on(async move {
            let mut t = vec![];
            let inner = bgzf::r#async::io::reader::Builder::default().set_worker_count(NonZero::new(qworkers).unwrap()).build_from_reader(s);
            let mut r = bcf::r#async::io::Reader::from(inner);
            let hdr = match r.read_header().await {
                Ok(h) => h,
                Err(_) => hdr,
            };
            for region in &regions2 {
                t.push(format!("query {region}"));
                match r.query(&hdr, &ix2, region) {
                    Ok(qr) => {
                        let mut st = qr.records();
                        loop {
                            match st.try_next().await {
                                Ok(Some(rec)) => t.push(ids_of(&rec)),
                                Ok(None) => break,
                                Err(e) => { t.push(err_line(&e)); break; }
                            }
                        }
                        t.push("END".into());
                    }
                    Err(e) => t.push(err_line(&e)),
                }
            }
            t
        })
    });
    ctx.eval(if v.recs.len() > 1 { Some(fnv(format!("{case} q").as_bytes())) } else { None });
    ctx.bump(&format!("bcf_query_lines:{}", if sync.iter().any(|l| l == "END") { "answered" } else { "all-refused" }));
    let cls = query_class("bcf", &sync, &asy, &starts);
    same(ctx, &cls, "BCF queries on one shared reader", &sync, &asy, &format!("schedule {sname}, workers {qworkers}"), &case);
    ctx.bump("fmt_bcf");
}

/// the same BCF file with the `rlen` field of every other record overwritten (1, or 100 000 more than stored)
fn bcf_with_foreign_rlen(file: &[u8], rng: &mut Rng) -> Option<Vec<u8>> {
    use std::io::{Read as _, Write as _};
    let mut raw = vec![];
    bgzf::io::Reader::new(file).read_to_end(&mut raw).ok()?;
    if raw.len() < 9 || &raw[..3] != b"BCF" {
        return None;
    }
    let l_text = u32::from_le_bytes(raw[5..9].try_into().ok()?) as usize;
    let mut k = 9 + l_text;
    let mut i = 0;
    while k + 8 <= raw.len() {
        let l_shared = u32::from_le_bytes(raw[k..k + 4].try_into().ok()?) as usize;
        let l_indiv = u32::from_le_bytes(raw[k + 4..k + 8].try_into().ok()?) as usize;
        if l_shared < 24 || k + 8 + l_shared + l_indiv > raw.len() {
            return None;
        }
        if i % 2 == 0 {
            let at = k + 8 + 8;
            let rlen = i32::from_le_bytes(raw[at..at + 4].try_into().ok()?);
            let new = if rng.chance(1, 2) { 1 } else { rlen.saturating_add(100_000) };
            raw[at..at + 4].copy_from_slice(&new.to_le_bytes());
        }
        i += 1;
        k += 8 + l_shared + l_indiv;
    }
    let mut w = bgzf::io::Writer::new(Vec::new());
    w.write_all(&raw).ok()?;
    w.finish().ok()
}

// ------------------------------------------------------------------ CRAM

/// scratch directory: `<--dir>/files` (the orchestrator passes `--dir <root>/work/C16`)
fn work_dir() -> String {
    let args: Vec<String> = std::env::args().collect();
    let base = args.iter().position(|a| a == "--dir").and_then(|i| args.get(i + 1).cloned()).unwrap_or_else(|| "/verif/work/C16".to_string());
    let d = format!("{base}/files");
    let _ = std::fs::create_dir_all(&d);
    d
}

fn cram_case(ctx: &mut Ctx, sub: u64) {
    use noodles_cram as cram;
    use noodles_fasta as fasta;
    let mut rng = Rng::new(sub);
    let case = format!("cram {sub}");
    let Some(a) = gen_aln(&mut rng, true) else {
        ctx.bump("aln_generator_rejected_by_sync_sam_parser");
        return;
    };
    let repo = fasta::Repository::new(
        a.refs.iter().map(|(n, s)| fasta::Record::new(fasta::record::Definition::new(n.clone(), None), fasta::record::Sequence::from(s.clone()))).collect::<Vec<_>>(),
    );
    // builder options, the same for both writers: a third of the cases use a CRAM 3.1 codec (the file
    // definition must then say 3.1), some drop read names / store absolute positions. The option draw has
    // its own generator so that the rest of the case is what it was before the options existed.
    let mut orng = Rng::new(sub ^ 0x0c16_0b7);
    let opt_31 = orng.chance(1, 3);
    let opt_names = !orng.chance(1, 4);
    let opt_deltas = !orng.chance(1, 4);
    let encoder_map = move || {
        use cram::{codecs::{rans_nx16, Encoder}, container::BlockContentEncoderMap};
        BlockContentEncoderMap::builder().set_default_encoder(Some(Encoder::RansNx16(rans_nx16::Flags::empty()))).build()
    };
    ctx.bump(&format!("cram_writer_options:v31={opt_31},names={opt_names},deltas={opt_deltas}"));
    let wr = guarded(|| -> std::io::Result<Vec<u8>> {
        let mut b = cram::io::writer::Builder::default().set_reference_sequence_repository(repo.clone()).preserve_read_names(opt_names).encode_alignment_start_positions_as_deltas(opt_deltas);
        if opt_31 {
            b = b.set_block_content_encoder_map(encoder_map());
        }
        let mut w = b.build_from_writer(Vec::new());
        w.write_header(&a.header)?;
        for r in &a.recs {
            w.write_alignment_record(&a.header, r)?;
        }
        w.try_finish(&a.header)?;
        Ok(w.get_ref().clone())
    });
    let file = match wr {
        Ok(Ok(f)) => f,
        other => {
            if std::env::var("NVH_DEBUG").is_ok() { eprintln!("cram sync writer: {:?}", other.map(|r| r.map(|v| v.len()).map_err(|e| e.to_string()))); }
            ctx.bump("cram_sync_writer_rejected_input");
            return;
        }
    };
    // what a CRAM file decodes to, by the sync reader
    let decode = |bytes: &[u8]| -> Transcript {
        let mut t = vec![];
        let mut r = cram::io::reader::Builder::default().set_reference_sequence_repository(repo.clone()).build_from_reader(bytes);
        match r.read_header() {
            Ok(h) => t.push(format!("header {:?}", h)),
            Err(e) => {
                t.push(err_line(&e));
                return t;
            }
        }
        for x in r.records(&a.header) {
            match x {
                Ok(rec) => t.push(format!("rec {:?}", rec)),
                Err(e) => {
                    t.push(err_line(&e));
                    return t;
                }
            }
        }
        t.push("END".into());
        t
    };
    let sync = match guarded(|| decode(&file)) {
        Ok(t) => t,
        Err(_) => {
            ctx.bump("cram_sync_reader_panicked");
            return;
        }
    };
    // ---- writer
    let (k, acc, kname) = snk(&mut rng, file.len());
    let (h2, recs2, repo2) = (a.header.clone(), a.recs.clone(), repo.clone());
    let wr = guarded(move || {
        block_on(async move {
            let mut b = cram::r#async::io::writer::Builder::default().set_reference_sequence_repository(repo2).preserve_read_names(opt_names).encode_alignment_start_positions_as_deltas(opt_deltas);
            if opt_31 {
                b = b.set_block_content_encoder_map(encoder_map());
            }
            let mut w = b.build_from_writer(k);
            w.write_header(&h2).await?;
            for r in &recs2 {
                w.write_alignment_record(&h2, r).await?;
            }
            w.shutdown(&h2).await
        })
    });
    ctx.eval(if a.recs.len() > 1 { Some(fnv(format!("{case} w").as_bytes())) } else { None });
    let how = format!("sink schedule {kname}");
    match wr {
        Err(p) => ctx.fail("cram-async-writer", format!("async CRAM writer panicked: {} ({how})", clip(&p)), case.clone()),
        Ok(Err(e)) => ctx.fail("cram-async-writer", format!("async CRAM writer failed where the sync writer succeeded: {e} ({how})"), case.clone()),
        Ok(Ok(())) => {
            let fa = acc.lock().unwrap().clone();
            let back = guarded(|| decode(&fa));
            same(ctx, "cram-async-writer", "what the async CRAM writer's output decodes to (sync reader) vs the sync writer's output", &sync, &back, &how, &case);
            if fa != file {
                ctx.bump("cram_writer_same_records_different_bytes");
                if let Ok(d) = std::env::var("NVH_DUMP") {
                    let _ = std::fs::write(format!("{d}/cram.async.bin"), &fa);
                    let _ = std::fs::write(format!("{d}/cram.sync.bin"), &file);
                }
            }
            // the file definition (magic number, format version; the file id is empty for both)
            if fa.len() < 6 || file.len() < 6 || fa[..6] != file[..6] {
                ctx.fail("cram-async-writer", format!("the async CRAM writer's file definition starts {} where the sync writer's starts {} (CRAM 3.1 codec requested: {opt_31}; {how})", hex(&fa[..fa.len().min(6)]), hex(&file[..file.len().min(6)])), case.clone());
            }
            // both must end with the CRAM EOF container (38 bytes in CRAM 3.x)
            if fa.len() < 38 || file.len() < 38 || fa[fa.len() - 38..] != file[file.len() - 38..] {
                ctx.fail("cram-async-writer", format!("the async CRAM writer's output does not end with the same EOF container as the sync writer's ({how})"), case.clone());
            }
        }
    }
    // ---- reader
    let (s, sname) = src(&mut rng, &file);
    let (hdr, repo2) = (a.header.clone(), repo.clone());
    let asy = guarded(move || {
        block_on(async move {
            let mut t = vec![];
            let mut r = cram::r#async::io::reader::Builder::default().set_reference_sequence_repository(repo2).build_from_reader(s);
            match r.read_header().await {
                Ok(h) => t.push(format!("header {:?}", h)),
                Err(e) => {
                    t.push(err_line(&e));
                    return t;
                }
            }
            {
                let mut st = r.records(&hdr);
                loop {
                    match st.try_next().await {
                        Ok(Some(rec)) => t.push(format!("rec {:?}", rec)),
                        Ok(None) => break,
                        Err(e) => {
                            t.push(err_line(&e));
                            return t;
                        }
                    }
                }
            }
            t.push("END".into());
            t
        })
    });
    ctx.eval(if a.recs.len() > 1 { Some(fnv(format!("{case} r").as_bytes())) } else { None });
    same(ctx, "cram-async-reader", "CRAM read_header/records()", &sync, &asy, &format!("schedule {sname}"), &case);
    // ---- queries (crai by the sync indexer on a scratch file)
    let path = format!("{}/{sub}.cram", work_dir());
    if std::fs::write(&path, &file).is_err() {
        return;
    }
    let index = match guarded(|| cram::fs::index(&path)) {
        Ok(Ok(i)) => i,
        _ => {
            ctx.bump("cram_sync_indexer_failed");
            let _ = std::fs::remove_file(&path);
            return;
        }
    };
    let _ = std::fs::remove_file(&path);
    let regions = gen_regions(&mut rng, a.refs.len());
    // unplaced reads only: ask for them twice, so that the second query finds a reader that has been read
    let regions = if !a.recs.is_empty() && a.recs.iter().all(|r| r.reference_sequence_id().is_none()) {
        ctx.bump("query_file_with_unplaced_reads_only");
        vec![None, Some(Region::new("sq0", ..)), None]
    } else {
        regions
    };
    let mut sync = vec![];
    let sync_ok = guarded(|| {
        let mut r = cram::io::reader::Builder::default().set_reference_sequence_repository(repo.clone()).build_from_reader(std::io::Cursor::new(file.clone()));
        let _ = r.read_header();
        for q in &regions {
            match q {
                Some(region) => {
                    sync.push(format!("query {region}"));
                    match r.query(&a.header, &index, region) {
                        Ok(qr) => {
                            for x in qr.records() {
                                match x {
                                    Ok(rec) => sync.push(name_of(&rec)),
                                    Err(e) => { sync.push(err_line(&e)); break; }
                                }
                            }
                            sync.push("END".into());
                        }
                        Err(e) => sync.push(err_line(&e)),
                    }
                }
                None => {
                    sync.push("query unmapped".into());
                    match r.query_unmapped(&a.header, &index) {
                        Ok(it) => {
                            for x in it {
                                match x {
                                    Ok(rec) => sync.push(name_of(&rec)),
                                    Err(e) => { sync.push(err_line(&e)); break; }
                                }
                            }
                            sync.push("END".into());
                        }
                        Err(e) => sync.push(err_line(&e)),
                    }
                }
            }
        }
    });
    if sync_ok.is_err() {
        ctx.bump("cram_sync_query_panicked");
        return;
    }
    let (s, sname) = src(&mut rng, &file);
    let (hdr, repo2, ix2, regions2) = (a.header.clone(), repo.clone(), index.clone(), regions.clone());
    let asy = guarded(move || {
        block_on(async move {
            let mut t = vec![];
            let mut r = cram::r#async::io::reader::Builder::default().set_reference_sequence_repository(repo2).build_from_reader(s);
            let _ = r.read_header().await;
            for q in &regions2 {
                match q {
                    Some(region) => {
                        t.push(format!("query {region}"));
                        match r.query(&hdr, &ix2, region) {
                            Ok(qr) => {
                                let mut st = Box::pin(qr.records());
                                loop {
                                    match st.try_next().await {
                                        Ok(Some(rec)) => t.push(name_of(&rec)),
                                        Ok(None) => break,
                                        Err(e) => { t.push(err_line(&e)); break; }
                                    }
                                }
                                t.push("END".into());
                            }
                            Err(e) => t.push(err_line(&e)),
                        }
                    }
                    None => {
                        t.push("query unmapped".into());
                        match r.query_unmapped(&hdr, &ix2).await {
                            Ok(mut st) => {
                                loop {
                                    match st.try_next().await {
                                        Ok(Some(rec)) => t.push(name_of(&rec)),
                                        Ok(None) => break,
                                        Err(e) => { t.push(err_line(&e)); break; }
                                    }
                                }
                                t.push("END".into());
                            }
                            Err(e) => t.push(err_line(&e)),
                        }
                    }
                }
            }
            t
        })
    });
    ctx.eval(if a.recs.len() > 1 { Some(fnv(format!("{case} q").as_bytes())) } else { None });
    same(ctx, "cram-async-query", "CRAM queries on one shared reader", &sync, &asy, &format!("schedule {sname}"), &case);
    ctx.bump("fmt_cram");
}

// ------------------------------------------------------------------ entry points

/// (number of records, record counter) of every data container of a CRAM file
fn cram_container_counters(bytes: &[u8]) -> Result<Vec<(i32, i64)>, String> {
    use noodles_cram as cram;
    let mut src: &[u8] = bytes.get(26..).ok_or("no file definition")?;
    let mut out = vec![];
    let mut first = true;
    while !src.is_empty() {
        let len = i32::from_le_bytes(src.get(..4).ok_or("cut")?.try_into().unwrap());
        src = &src[4..];
        let e = |e: std::io::Error| e.to_string();
        let (r0, _r1, _r2) = (cram::verif::read_itf8(&mut src).map_err(e)?, cram::verif::read_itf8(&mut src).map_err(e)?, cram::verif::read_itf8(&mut src).map_err(e)?);
        let nrec = cram::verif::read_itf8(&mut src).map_err(e)?;
        let counter = cram::verif::read_ltf8(&mut src).map_err(e)?;
        let _bases = cram::verif::read_ltf8(&mut src).map_err(e)?;
        let _nblocks = cram::verif::read_itf8(&mut src).map_err(e)?;
        let nl = cram::verif::read_itf8(&mut src).map_err(e)?;
        for _ in 0..nl {
            cram::verif::read_itf8(&mut src).map_err(e)?;
        }
        src = src.get(4..).ok_or("cut in crc")?;
        src = src.get(len.max(0) as usize..).ok_or("cut in body")?;
        if first {
            first = false;
            continue;
        }
        if len == 15 && r0 == -1 {
            break; // EOF container
        }
        out.push((nrec, counter));
    }
    Ok(out)
}

/// More records than two containers hold (2 × 10240): the running record counter of the third
/// container onwards, sync writer vs async writer.
fn cram_big_case(ctx: &mut Ctx) {
    use noodles_cram as cram;
    let case = "cram-big 0".to_string();
    let header = sam::Header::default();
    let n = 20_490usize;
    let recs: Vec<RecordBuf> = (0..n)
        .map(|i| {
            RecordBuf::builder()
                .set_name(format!("r{i}"))
                .set_flags(sam::alignment::record::Flags::UNMAPPED)
                .set_sequence(b"A".to_vec().into())
                .set_quality_scores(vec![30].into())
                .build()
        })
        .collect();
    ctx.eval(Some(fnv(case.as_bytes())));
    let sync = guarded(|| -> std::io::Result<Vec<u8>> {
        let mut w = cram::io::writer::Builder::default().build_from_writer(Vec::new());
        w.write_header(&header)?;
        for r in &recs {
            w.write_alignment_record(&header, r)?;
        }
        w.try_finish(&header)?;
        Ok(w.get_ref().clone())
    });
    let (h2, recs2) = (header.clone(), recs.clone());
    let asy = guarded(move || {
        block_on(async move {
            let mut w = cram::r#async::io::writer::Builder::default().build_from_writer(Vec::new());
            w.write_header(&h2).await?;
            for r in &recs2 {
                w.write_alignment_record(&h2, r).await?;
            }
            w.shutdown(&h2).await?;
            Ok::<Vec<u8>, std::io::Error>(w.get_ref().clone())
        })
    });
    match (sync, asy) {
        (Ok(Ok(s)), Ok(Ok(a))) => {
            let (cs, ca) = (cram_container_counters(&s), cram_container_counters(&a));
            match (&cs, &ca) {
                (Ok(x), Ok(y)) if x == y && x.len() >= 3 => ctx.bump("cram_big_counters_equal"),
                _ => ctx.fail("cram-async-writer", format!("{n} records: (records, record counter) per container: sync writer {:?}, async writer {:?}", cs, ca), case),
            }
        }
        (s, a) => {
            let d = |r: &Result<std::io::Result<Vec<u8>>, String>| match r { Ok(Ok(v)) => format!("{} bytes", v.len()), Ok(Err(e)) => format!("error {e}"), Err(p) => format!("panic {}", clip(p)) };
            if matches!(s, Ok(Ok(_))) {
                ctx.fail("cram-async-writer", format!("{n} records: sync writer {}, async writer {}", d(&s), d(&a)), case);
            } else {
                ctx.bump("cram_big_sync_writer_failed");
            }
        }
    }
}

pub fn text_case(ctx: &mut Ctx, suite: &str, sub: u64) {
    let mut rng = Rng::new(sub);
    let case = format!("{suite} {sub}");
    match suite {
        "fasta" => {
            let d = gen_fasta(&mut rng);
            fasta_case(ctx, &d, &mut rng, &case);
        }
        "fastq" => {
            let d = gen_fastq(&mut rng);
            fastq_case(ctx, &d, &mut rng, &case);
        }
        "gff" => {
            let d = gen_gff(&mut rng);
            gff_case(ctx, &d, &mut rng, &case);
        }
        _ => {}
    }
    ctx.bump(&format!("fmt_{suite}"));
}

pub fn corpus(ctx: &mut Ctx) {
    // hand-written boundary inputs, a fixed schedule each (sub-seed = fixed)
    let mut rng = Rng::new(0xC16);
    fasta_case(ctx, b">sq0\nACGT\n>sq1 desc\nNN\nNN\n", &mut rng, "corpus fasta-basic");
    fasta_case(ctx, b">sq0\r\nACGT\r\nAC\r\n>sq1\r\n\r\nGG\r\n", &mut rng, "corpus fasta-crlf");
    // every CR LF pair split across two fill_buf chunks (one-byte buffer)
    fasta_case_cap(ctx, b">sq0\r\nACGT\r\nAC\r\n>sq1\r\nGG\r\n", &mut rng, "corpus fasta-crlf-split", Some(1));
    fasta_case(ctx, b">sq0\nACGT", &mut rng, "corpus fasta-no-final-newline");
    fasta_case(ctx, b"", &mut rng, "corpus fasta-empty");
    fastq_case(ctx, b"@r0\nACGT\n+\n!!!!\n@r1 d\nA\n+r1\n@\n", &mut rng, "corpus fastq-basic");
    fastq_case(ctx, b"@r0\r\nACGT\r\n+\r\n@+!!\r\n", &mut rng, "corpus fastq-crlf");
    fastq_case(ctx, b"@r0\nAC\n+\n!!", &mut rng, "corpus fastq-no-final-newline");
    gff_case(ctx, b"##gff-version 3\n#c\nsq0\t.\tgene\t1\t9\t.\t+\t.\tID=g0;Note=a%3Bb\n", &mut rng, "corpus gff-basic");
    gff_case(ctx, b"##gff-version 3\r\nsq0\t.\tgene\t1\t9\t.\t+\t.\tID=g0\r\n", &mut rng, "corpus gff-crlf");
    // fixed sub-seeds that are witnesses of defects found with this check (replayed on every run):
    // a second query whose first chunk starts where the previous query last sought (BAM, SAM.gz, VCF.gz),
    // the CSI index written by the async writer (BCF case), and one CRAM case
    bam_case(ctx, 16002005);
    sam_case(ctx, 16003001);
    vcf_case(ctx, 16004003);
    bcf_case(ctx, 16005001);
    bcf_case(ctx, 16005007); // loffset written by the async CSI writer (visible once n_ref is written)
    cram_case(ctx, 16006002);
    cram_big_case(ctx);
}

pub fn run(ctx: &mut Ctx) {
    let n = ctx.n(60, 3000);
    for it in 0..n {
        for (k, suite) in ["fasta", "fastq", "gff"].iter().enumerate() {
            text_case(ctx, suite, ctx.seed.wrapping_mul(16_001_003).wrapping_add(it * 16 + k as u64));
        }
    }
    let n = ctx.n(40, 2000);
    for it in 0..n {
        bam_case(ctx, ctx.seed.wrapping_mul(16_002_001).wrapping_add(it));
        sam_case(ctx, ctx.seed.wrapping_mul(16_003_001).wrapping_add(it));
        vcf_case(ctx, ctx.seed.wrapping_mul(16_004_001).wrapping_add(it));
        bcf_case(ctx, ctx.seed.wrapping_mul(16_005_001).wrapping_add(it));
        cram_case(ctx, ctx.seed.wrapping_mul(16_006_001).wrapping_add(it));
    }
}

pub fn replay(ctx: &mut Ctx, suite: &str, sub: u64) {
    match suite {
        "fasta" | "fastq" | "gff" => text_case(ctx, suite, sub),
        "bam" => bam_case(ctx, sub),
        "sam" => sam_case(ctx, sub),
        "vcf" => vcf_case(ctx, sub),
        "bcf" => bcf_case(ctx, sub),
        "cram" => cram_case(ctx, sub),
        "cram-big" => cram_big_case(ctx),
        _ => {}
    }
}

#[allow(dead_code)]
fn _unused(_: &dyn BufRead, _: Poll1) {}
