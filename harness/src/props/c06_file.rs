//! C06 extension: whole SAM files — header + record lines through the real line splitters
//! (`sam::io::Reader::read_header` + `record_bufs()` / the lazy `read_record`), over `BufReader`s of
//! several capacities, with LF → CRLF rewriting, the final newline dropped, a blank line appended,
//! header-only / records-only / empty files, and byte mutations; and the same data through
//! `bam::io::Writer` / `Reader` (BGZF).
//!
//! Correspondence (model: `lean/Noodles/Sam/File.lean`, handler `DriverC06File.lean`):
//! * `c06 wfile <hdr> <ftab> <rec>*` — real `sam::io::Writer` (write_header + write_alignment_record
//!   per record) → the bytes, or the error class of the first failing call;
//! * `c06 file <cap> <bytes> <ftab>` — real `sam::io::Reader` over `BufReader::with_capacity(cap, bytes)`:
//!   `read_header`'s error class, or `<hdr> <ok|error class of the record loop> <rec>*`;
//! * `c06 bfile <hdr> <rec>*` — real `bam::io::Writer` (BGZF) → bytes → `bam::io::Reader`:
//!   `<hdr> <rec>*` or the error class of the first failing call.
//!
//! Oracle (the property on the real code): a valid header + valid records written as a SAM file read
//! back equal (integer tags by value) at every capacity, also after LF → CRLF and without the final
//! newline; the lazy reader agrees with the eager one; the BAM file of the same data reads back as
//! the same header and the same records up to BAM's base alphabet.

use super::c06::*;
use crate::common::*;
use noodles_bam as bam;
use noodles_sam as sam;
use sam::alignment::io::Write as _;
use sam::alignment::RecordBuf;
use std::io::BufReader;

const CAPS: [usize; 5] = [1, 2, 7, 64, 8192];

// ------------------------------------------------------------------ float table of a whole file

/// as `c06.rs::float_tokens`: every byte string of a line that a reader could hand to the float parser
fn float_tokens(line: &[u8]) -> Vec<Vec<u8>> {
    let mut out = vec![];
    let upto_tab = |from: usize| -> &[u8] {
        let end = line[from..].iter().position(|&b| b == b'\t').map(|k| from + k).unwrap_or(line.len());
        &line[from..end]
    };
    for i in 0..line.len() {
        if line[i..].starts_with(b":f:") {
            out.push(upto_tab(i + 3).to_vec());
        }
        if line[i..].starts_with(b":B:f,") {
            for t in upto_tab(i + 5).split(|&b| b == b',') {
                out.push(t.to_vec());
            }
        }
    }
    out
}

/// the float library's answers for every float of `recs` (print) and every float token of the lines
/// of `bytes` (parse), in the grammar of `DriverC06.lean::parseFTab`
fn ftab_file(recs: &[MRec], bytes: &[u8]) -> String {
    let mut out = String::from("t");
    let mut toks: Vec<Vec<u8>> = vec![];
    let mut seen_s = std::collections::BTreeSet::new();
    let mut seen_a = std::collections::BTreeSet::new();
    let hx = |b: &[u8]| -> String { b.iter().map(|x| format!("{x:02x}")).collect() };
    for r in recs {
        for (_, v) in &r.data {
            match v {
                MVal::Float(b) => {
                    let t = lex_fmt(*b);
                    if seen_s.insert(*b) {
                        out.push_str(&format!(",s{}:{}", b, hx(&t)));
                    }
                    toks.push(t);
                }
                MVal::FArr(l) => {
                    for b in l {
                        let t = disp_fmt(*b);
                        if seen_a.insert(*b) {
                            out.push_str(&format!(",a{}:{}", b, hx(&t)));
                        }
                        toks.push(t);
                    }
                }
                _ => {}
            }
        }
    }
    for line in bytes.split(|&b| b == b'\n') {
        let line = if line.last() == Some(&b'\r') { &line[..line.len() - 1] } else { line };
        // also for lines that start with '@': after the first non-'@' line they are record lines
        toks.extend(float_tokens(line));
    }
    toks.sort();
    toks.dedup();
    for t in toks {
        match lex_parse(&t) {
            Some(b) => out.push_str(&format!(",p{}:{}", hx(&t), b)),
            None => out.push_str(&format!(",p{}:x", hx(&t))),
        }
    }
    out
}

// ------------------------------------------------------------------ the real code

fn pclass(p: String) -> String {
    format!("panic:{}", p.replace([' ', '\n', '\t'], "_"))
}

/// `sam::io::Writer`: header, then every record
fn real_write_file(h: &sam::Header, recs: &[MRec]) -> Result<Vec<u8>, String> {
    guarded(|| -> Result<Vec<u8>, String> {
        let mut w = sam::io::Writer::new(Vec::new());
        w.write_header(h).map_err(|e| errclass(&e).to_string())?;
        for r in recs {
            w.write_alignment_record(h, &to_real(r)).map_err(|e| errclass(&e).to_string())?;
        }
        Ok(w.into_inner())
    })
    .unwrap_or_else(|p| Err(pclass(p)))
}

struct Read {
    hdr: Result<sam::Header, String>,
    recs: Vec<RecordBuf>,
    err: Option<String>,
}

impl Read {
    fn answer(&self) -> String {
        match &self.hdr {
            Err(c) => c.clone(),
            Ok(h) => {
                let mut toks = vec![tok_hdr(&from_real_hdr(h)), self.err.clone().unwrap_or_else(|| "ok".into())];
                toks.extend(self.recs.iter().map(|r| tok_rec(&from_real(r))));
                toks.join(" ")
            }
        }
    }
}

/// `read_header` + `read_record_buf` until `Ok(0)` or the first error, over a `BufReader` of capacity `cap`
fn real_read_file(bytes: &[u8], cap: usize) -> Read {
    guarded(|| {
        let mut rd = sam::io::Reader::new(BufReader::with_capacity(cap, bytes));
        let h = match rd.read_header() {
            Ok(h) => h,
            Err(e) => return Read { hdr: Err(errclass(&e).to_string()), recs: vec![], err: None },
        };
        let mut recs = vec![];
        let mut err = None;
        loop {
            let mut rec = RecordBuf::default();
            match rd.read_record_buf(&h, &mut rec) {
                Ok(0) => break,
                Ok(_) => recs.push(rec),
                Err(e) => {
                    err = Some(errclass(&e).to_string());
                    break;
                }
            }
        }
        Read { hdr: Ok(h), recs, err }
    })
    .unwrap_or_else(|p| Read { hdr: Err(pclass(p)), recs: vec![], err: None })
}

/// the lazy path: `read_header` + `read_record` (→ `sam::Record`) + `RecordBuf::try_from_alignment_record`
fn real_read_file_lazy(bytes: &[u8], cap: usize) -> Result<(sam::Header, Vec<RecordBuf>), String> {
    guarded(|| -> Result<(sam::Header, Vec<RecordBuf>), String> {
        let mut rd = sam::io::Reader::new(BufReader::with_capacity(cap, bytes));
        let h = rd.read_header().map_err(|e| format!("read_header: {e}"))?;
        let mut recs = vec![];
        let mut rec = sam::Record::default();
        loop {
            match rd.read_record(&mut rec) {
                Ok(0) => break,
                Ok(_) => recs.push(RecordBuf::try_from_alignment_record(&h, &rec).map_err(|e| format!("record {} does not convert: {e}", recs.len()))?),
                Err(e) => return Err(format!("read_record {}: {e}", recs.len())),
            }
        }
        Ok((h, recs))
    })
    .unwrap_or_else(|p| Err(pclass(p)))
}

/// `bam::io::Writer` (BGZF) → bytes → `bam::io::Reader`
fn real_bam_file(h: &sam::Header, recs: &[MRec]) -> Result<(sam::Header, Vec<RecordBuf>), String> {
    guarded(|| -> Result<(sam::Header, Vec<RecordBuf>), String> {
        let c = |e: std::io::Error| errclass(&e).to_string();
        let mut w = bam::io::Writer::new(Vec::new());
        w.write_header(h).map_err(c)?;
        for r in recs {
            w.write_alignment_record(h, &to_real(r)).map_err(c)?;
        }
        w.try_finish().map_err(c)?;
        let bytes = w.into_inner().into_inner();
        let mut rd = bam::io::Reader::new(&bytes[..]);
        let hb = rd.read_header().map_err(c)?;
        let mut out = vec![];
        loop {
            let mut rec = RecordBuf::default();
            match rd.read_record_buf(&hb, &mut rec) {
                Ok(0) => break,
                Ok(_) => out.push(rec),
                Err(e) => return Err(c(e)),
            }
        }
        Ok((hb, out))
    })
    .unwrap_or_else(|p| Err(pclass(p)))
}

// ------------------------------------------------------------------ text rewrites

fn to_crlf(b: &[u8]) -> Vec<u8> {
    let mut out = Vec::with_capacity(b.len() + 16);
    for &x in b {
        if x == b'\n' {
            out.push(b'\r');
        }
        out.push(x);
    }
    out
}

fn mutate(rng: &mut Rng, b: &[u8]) -> Vec<u8> {
    let mut v = b.to_vec();
    for _ in 0..1 + rng.below(3) {
        let special = *rng.pick(&[b'\n', b'\r', b'\t', b'@', b'*', b':', b'\n', b'\r', 0u8, b'A', b'1']);
        let at = if v.is_empty() { 0 } else { rng.below(v.len() as u64 + 1) as usize };
        // positions next to line ends are where the splitters decide
        let at = if !v.is_empty() && rng.chance(1, 2) {
            let nl: Vec<usize> = v.iter().enumerate().filter(|&(_, &x)| x == b'\n').map(|(i, _)| i).collect();
            if nl.is_empty() { at } else { (*rng.pick(&nl) + rng.below(3) as usize).min(v.len()) }
        } else {
            at
        };
        match rng.below(3) {
            0 => v.insert(at, special),
            1 if at < v.len() => {
                v.remove(at);
            }
            _ if at < v.len() => v[at] = special,
            _ => v.push(special),
        }
    }
    v
}

// ------------------------------------------------------------------ one case

struct Case {
    /// mirror of the header handed to the writers
    hdr: MHdr,
    recs: Vec<MRec>,
    /// valid by the data model (header and every record, for SAM)
    valid: bool,
    /// … and every record valid for BAM too
    bam_valid: bool,
}

fn corr_read(ctx: &mut Ctx, recs: &[MRec], bytes: &[u8], cap: usize) -> Read {
    let got = real_read_file(bytes, cap);
    ctx.corr(format!("c06 file {} {} {}", cap, hex(bytes), ftab_file(recs, bytes)), got.answer());
    ctx.bump(&format!("sfile_read_cap_{cap}"));
    ctx.bump(&format!(
        "sfile_read_outcome_{}",
        match (&got.hdr, &got.err) {
            (Err(c), _) => format!("header:{}", c.split(':').take(2).collect::<Vec<_>>().join(":")),
            (Ok(_), Some(c)) => format!("records:{c}"),
            (Ok(_), None) => "ok".to_string(),
        }
    ));
    got
}

fn same_recs(a: &[RecordBuf], want: &[MRec]) -> Option<String> {
    if a.len() != want.len() {
        return Some(format!("{} records written, {} read", want.len(), a.len()));
    }
    for (i, (x, y)) in a.iter().zip(want).enumerate() {
        if num_norm(&from_real(x)) != num_norm(y) {
            return Some(format!("record {i}: wrote {} read {}", tok_rec(y), tok_rec(&from_real(x))));
        }
    }
    None
}

fn run_case(ctx: &mut Ctx, c: &Case, rng: &mut Rng, tag: &str) {
    let Some(h) = to_real_hdr(&c.hdr) else {
        ctx.bump("sfile_header_not_representable");
        return;
    };
    let m = from_real_hdr(&h);
    ctx.bump(&format!("sfile_shape_hdr{}_recs{}", if m == MHdr::default() { "0" } else { "+" }, match c.recs.len() { 0 => "0", 1 => "1", _ => "+" }));
    ctx.bump(if c.valid { "sfile_valid" } else { "sfile_hostile" });
    // ---- writer
    let written = real_write_file(&h, &c.recs);
    ctx.corr(
        format!("c06 wfile {} {} {}", tok_hdr(&m), ftab_file(&c.recs, &[]), c.recs.iter().map(tok_rec).collect::<Vec<_>>().join(" ")).trim_end().to_string(),
        match &written {
            Ok(b) => hex(b),
            Err(cl) => cl.clone(),
        },
    );
    ctx.eval(if c.valid && !c.recs.is_empty() { Some(fnv(tag.as_bytes()) ^ 0x5f11e) } else { None });
    // ---- BAM file of the same data
    let bam = real_bam_file(&h, &c.recs);
    ctx.corr(
        format!("c06 bfile {} {}", tok_hdr(&m), c.recs.iter().map(tok_rec).collect::<Vec<_>>().join(" ")).trim_end().to_string(),
        match &bam {
            Ok((hb, rb)) => {
                let mut t = vec![tok_hdr(&from_real_hdr(hb))];
                t.extend(rb.iter().map(|r| tok_rec(&from_real(r))));
                t.join(" ")
            }
            Err(cl) => cl.clone(),
        },
    );
    ctx.bump(&format!("sfile_bam_{}", match &bam { Ok(_) => "ok".to_string(), Err(c) => c.clone() }));
    let text = match written {
        Ok(t) => t,
        Err(cl) => {
            ctx.bump(&format!("sfile_write_{cl}"));
            if cl.starts_with("panic") {
                ctx.fail("sfile-panic", format!("sam::io::Writer panicked: {cl}"), tag.into());
            } else if c.valid {
                ctx.fail("sfile-write-rejects-valid", format!("the SAM writer refused ({cl}) a valid file: header {} records {}", tok_hdr(&m), c.recs.iter().map(tok_rec).collect::<Vec<_>>().join(" ")), tag.into());
            }
            return;
        }
    };
    ctx.bump("sfile_write_ok");
    ctx.bump(&format!("sfile_bytes_{}", match text.len() { 0 => "0", 1..=99 => "<100", 100..=999 => "<1k", _ => ">=1k" }));
    // ---- reader: the file as written, at every capacity
    let mut first: Option<String> = None;
    for cap in CAPS {
        let got = corr_read(ctx, &c.recs, &text, cap);
        let ans = got.answer();
        if let Some(f) = &first {
            if *f != ans {
                ctx.fail("sfile-capacity-dependent", format!("the same file reads differently through BufReader capacities {} and {cap}: {f} vs {ans}", CAPS[0]), tag.into());
            }
        } else {
            first = Some(ans.clone());
        }
        if ans.starts_with("panic") {
            ctx.fail("sfile-panic", format!("sam::io::Reader panicked: {ans}"), tag.into());
        }
        if c.valid {
            check_read(ctx, "sfile-roundtrip", &format!("as written, capacity {cap}"), &got, &h, &c.recs, tag);
        }
    }
    // ---- variants
    let crlf = to_crlf(&text);
    let nofinal = if text.last() == Some(&b'\n') { text[..text.len() - 1].to_vec() } else { text.clone() };
    let mut blank = text.clone();
    blank.push(b'\n');
    let mut crlf_nofinal = crlf.clone();
    if crlf_nofinal.last() == Some(&b'\n') {
        crlf_nofinal.pop();
    }
    for (name, class, bytes) in [("crlf", "sfile-crlf", &crlf), ("nofinal", "sfile-no-final-newline", &nofinal), ("blank", "", &blank), ("crlf-cr-final", "", &crlf_nofinal)] {
        let caps = [*rng.pick(&CAPS), *rng.pick(&[1usize, 2, 7])];
        for cap in caps {
            let got = corr_read(ctx, &c.recs, bytes, cap);
            ctx.bump(&format!("sfile_variant_{name}"));
            if c.valid && !class.is_empty() {
                check_read(ctx, class, &format!("{name}, capacity {cap}"), &got, &h, &c.recs, tag);
            }
            if c.valid && name == "blank" {
                // what the code does with a blank line after the data: the records, then InvalidData
                let ok = got.hdr.as_ref().ok() == Some(&h) && same_recs(&got.recs, &c.recs).is_none() && got.err.as_deref() == Some("err:invalid-data");
                ctx.bump(if ok { "sfile_blank_line_is_invalid_data" } else { "sfile_blank_line_other" });
            }
        }
    }
    for k in 0..2 {
        let bytes = mutate(rng, if k == 0 { &text } else { &crlf });
        let cap = *rng.pick(&CAPS);
        let got = corr_read(ctx, &c.recs, &bytes, cap);
        ctx.bump("sfile_variant_mutated");
        if got.answer().starts_with("panic") {
            ctx.fail("sfile-panic", format!("sam::io::Reader panicked on {}: {}", hex(&bytes), got.answer()), tag.into());
        }
    }
    if !c.valid {
        return;
    }
    // ---- lazy reader = eager reader
    for (name, bytes) in [("as written", &text), ("crlf", &crlf), ("nofinal", &nofinal)] {
        let cap = *rng.pick(&CAPS);
        ctx.eval(None);
        match real_read_file_lazy(bytes, cap) {
            Ok((hl, rl)) => {
                if hl != h {
                    ctx.fail("sfile-lazy-eager-differ", format!("{name}, capacity {cap}: header differs"), tag.into());
                } else if let Some(d) = same_recs(&rl, &c.recs) {
                    ctx.fail("sfile-lazy-eager-differ", format!("{name}, capacity {cap}: lazy read_record + try_from_alignment_record: {d}"), tag.into());
                } else {
                    ctx.bump("sfile_lazy_agrees");
                }
            }
            Err(e) => ctx.fail("sfile-lazy-eager-differ", format!("{name}, capacity {cap}: the lazy reader fails on a file the eager reader reads: {e}"), tag.into()),
        }
    }
    // ---- SAM file ≡ BAM file
    if c.bam_valid {
        ctx.eval(None);
        match &bam {
            Ok((hb, rb)) => {
                if *hb != h {
                    ctx.fail("sfile-bam-differ", format!("BAM header reads back as {} (written {})", tok_hdr(&from_real_hdr(hb)), tok_hdr(&m)), tag.into());
                } else if rb.len() != c.recs.len() {
                    ctx.fail("sfile-bam-differ", format!("{} records written, {} read from BAM", c.recs.len(), rb.len()), tag.into());
                } else {
                    let sam_side = real_read_file(&text, 8192);
                    let mut ok = sam_side.recs.len() == rb.len();
                    for (a, b) in sam_side.recs.iter().zip(rb) {
                        if num_norm(&base_norm(&from_real(a))) != num_norm(&base_norm(&from_real(b))) {
                            ok = false;
                            ctx.fail("sfile-bam-differ", format!("SAM gives {} BAM gives {}", tok_rec(&from_real(a)), tok_rec(&from_real(b))), tag.into());
                            break;
                        }
                    }
                    if ok {
                        ctx.bump("sfile_bam_agrees");
                    }
                }
            }
            Err(cl) => ctx.fail("sfile-bam-differ", format!("the BAM writer/reader fails ({cl}) on a file valid for both formats"), tag.into()),
        }
    }
}

fn check_read(ctx: &mut Ctx, class: &str, what: &str, got: &Read, h: &sam::Header, recs: &[MRec], tag: &str) {
    ctx.eval(None);
    match &got.hdr {
        Err(cl) => ctx.fail(class, format!("{what}: read_header fails ({cl}) on noodles' own file"), tag.into()),
        Ok(hs) if hs != h => ctx.fail(class, format!("{what}: header reads back as {} (written {})", tok_hdr(&from_real_hdr(hs)), tok_hdr(&from_real_hdr(h))), tag.into()),
        Ok(_) => {
            if let Some(e) = &got.err {
                ctx.fail(class, format!("{what}: record {} fails ({e})", got.recs.len()), tag.into());
            } else if let Some(d) = same_recs(&got.recs, recs) {
                ctx.fail(class, format!("{what}: {d}"), tag.into());
            }
        }
    }
}

// ------------------------------------------------------------------ generators and corpus

fn small(r: &MRec) -> bool {
    r.cigar.len() <= 24 && r.seq.len() <= 200 && r.data.len() <= 6 && r.data.iter().all(|(_, v)| match v {
        MVal::Str(s) | MVal::Hex(s) => s.len() <= 120,
        MVal::IArr(_, l) => l.len() <= 40,
        MVal::FArr(l) => l.len() <= 40,
        _ => true,
    })
}

fn gen_case(sub: u64) -> Case {
    let mut rng = Rng::new(sub ^ 0x5a4d_f11e);
    let shape = rng.below(12);
    let hostile_hdr = shape == 10;
    let hostile_rec = shape == 11;
    let mut m = if shape == 2 || shape == 3 { MHdr::default() } else { gen_hdr(&mut rng, hostile_hdr) };
    m.sq.truncate(*rng.pick(&[2usize, 6, 6, 12]));
    if !hostile_hdr && hdr_invalid(&m).is_some() {
        m.co.retain(|c| !c.contains(&b'\n') && c.last() != Some(&b'\r'));
        m.sq.retain(|(_, l, _)| *l <= (1 << 31) - 1);
    }
    let n = if shape == 1 || shape == 3 { 0 } else { *rng.pick(&[1usize, 1, 2, 3, 5]) };
    let mut recs = vec![];
    let mut tries = 0;
    while recs.len() < n && tries < 400 {
        tries += 1;
        let hostile = hostile_rec && recs.len() + 1 == n;
        let r = gen_rec(&mut rng, m.sq.len(), hostile);
        if !small(&r) {
            continue;
        }
        if hostile || sam_invalid(&r, m.sq.len()).is_none() {
            recs.push(r);
        }
    }
    let valid = hdr_invalid(&m).is_none() && recs.iter().all(|r| sam_invalid(r, m.sq.len()).is_none());
    let bam_valid = valid && recs.iter().all(|r| bam_invalid(r).is_none());
    Case { hdr: m, recs, valid, bam_valid }
}

fn rec0() -> MRec {
    MRec { name: Some(b"r0".to_vec()), flags: 0, rid: Some(0), pos: 1, mapq: 60, cigar: vec![('M', 4)], mrid: None, mpos: 0, tlen: 0, seq: b"ACGT".to_vec(), qual: vec![30, 31, 32, 33], data: vec![] }
}

fn unmapped(name: Option<&[u8]>) -> MRec {
    MRec { name: name.map(|n| n.to_vec()), flags: 4, rid: None, pos: 0, mapq: 255, cigar: vec![], mrid: None, mpos: 0, tlen: 0, seq: vec![], qual: vec![], data: vec![] }
}

fn corpus() -> Vec<Case> {
    let hd = Some((1u32, 6u32, vec![]));
    let sq = vec![(b"sq0".to_vec(), 8usize, vec![]), (b"sq1".to_vec(), 13, vec![(*b"M5", b"abc".to_vec())])];
    let full = MHdr { hd: hd.clone(), sq: sq.clone(), rg: vec![(b"rg0".to_vec(), vec![])], pg: vec![(b"pg0".to_vec(), vec![(*b"PN", b"x".to_vec())])], co: vec![b"hello".to_vec(), vec![], b"@SQ\tSN:looks-like-a-line".to_vec()] };
    let mut with_data = rec0();
    with_data.data = vec![(*b"NH", MVal::Int('C', 1)), (*b"XZ", MVal::Str(b"a b".to_vec())), (*b"XB", MVal::IArr('c', vec![]))];
    let mut star_last = unmapped(Some(b"q"));
    star_last.data = vec![(*b"XA", MVal::Char(b'*'))];
    let v = |hdr: MHdr, recs: Vec<MRec>| {
        let valid = hdr_invalid(&hdr).is_none() && recs.iter().all(|r| sam_invalid(r, hdr.sq.len()).is_none());
        let bam_valid = valid && recs.iter().all(|r| bam_invalid(r).is_none());
        Case { hdr, recs, valid, bam_valid }
    };
    vec![
        // empty header, no records: the empty file
        v(MHdr::default(), vec![]),
        // header only
        v(MHdr { hd: hd.clone(), ..Default::default() }, vec![]),
        v(full.clone(), vec![]),
        // records only (a file with no header lines)
        v(MHdr::default(), vec![unmapped(None)]),
        v(MHdr::default(), vec![unmapped(Some(b"a")), unmapped(None), star_last.clone()]),
        // both
        v(full.clone(), vec![rec0()]),
        v(full.clone(), vec![rec0(), with_data.clone(), unmapped(None)]),
        v(MHdr { sq: sq.clone(), ..Default::default() }, vec![with_data.clone()]),
        // header made of comments only; a comment that is empty (`@CO\t`)
        v(MHdr { co: vec![vec![], b"x".to_vec()], ..Default::default() }, vec![unmapped(Some(b"n"))]),
        // the boundary: a name starting with '@' / containing '@' must be refused by the writer
        v(MHdr::default(), vec![unmapped(Some(b"@r"))]),
        v(full.clone(), vec![rec0(), unmapped(Some(b"@CO"))]),
        v(MHdr::default(), vec![unmapped(Some(b"a@b"))]),
        // hostile: a comment with a line feed / ending in CR (outside HdrWF; correspondence only)
        v(MHdr { co: vec![b"two\nlines".to_vec()], ..Default::default() }, vec![unmapped(None)]),
        v(MHdr { co: vec![b"two\n@CO\tlines".to_vec()], ..Default::default() }, vec![unmapped(None)]),
        v(MHdr { hd: hd.clone(), co: vec![b"ends in CR\r".to_vec()], ..Default::default() }, vec![]),
        // hostile: a record the writer refuses after the first one was written
        v(full.clone(), vec![rec0(), unmapped(Some(b""))]),
        // a name of 254 bytes, and 255 (refused)
        v(MHdr::default(), vec![unmapped(Some(&[b'x'; 254]))]),
        v(MHdr::default(), vec![unmapped(Some(&[b'x'; 255]))]),
    ]
}

/// hand-written byte streams for the reader (malformed or foreign files)
fn corpus_streams() -> Vec<Vec<u8>> {
    let rec = b"*\t4\t*\t0\t255\t*\t*\t0\t0\t*\t*";
    let mut v: Vec<Vec<u8>> = vec![
        b"".to_vec(),
        b"\n".to_vec(),
        b"\r\n".to_vec(),
        b"\r".to_vec(),
        b"@".to_vec(),
        b"@\n".to_vec(),
        b"@HD\tVN:1.6".to_vec(),
        b"@HD\tVN:1.6\r".to_vec(),
        b"@HD\tVN:1.6\r\n".to_vec(),
        b"@HD\tVN:1.6\n\n".to_vec(),
        b"@HD\tVN:1.6\n\r\n".to_vec(),
        b"@CO\tx\n@CO\ty".to_vec(),
        b"@CO\tx\n\n@CO\ty\n".to_vec(),
        b"@CO\tx\r\r\n".to_vec(),
        b"@CO\t\r\n".to_vec(),
        b"@CO\n".to_vec(),
        b"@SQ\tSN:a\tLN:1\n@SQ\tSN:a\tLN:2\n".to_vec(),
    ];
    for (pre, post) in [(&b""[..], &b"\n"[..]), (b"", b""), (b"", b"\r\n"), (b"", b"\r"), (b"@HD\tVN:1.6\n", b"\n"), (b"@HD\tVN:1.6\r\n", b"\r\n"), (b"@HD\tVN:1.6\n", b"\n@CO\tafter a record\n"), (b"@HD\tVN:1.6\n", b"\tXA:Z:x\r\n"), (b"@HD\tVN:1.6\n", b"\tXA:Z:x\r"), (b"\n", b"\n"), (b" @HD\tVN:1.6\n", b"\n")] {
        let mut s = pre.to_vec();
        s.extend_from_slice(rec);
        s.extend_from_slice(post);
        v.push(s.clone());
        s.extend_from_slice(rec);
        v.push(s);
    }
    // '@' as the first byte of a record line: taken for a header line
    v.push(b"@HD\tVN:1.6\n@r\t4\t*\t0\t255\t*\t*\t0\t0\t*\t*\n".to_vec());
    v.push(b"@r\t4\t*\t0\t255\t*\t*\t0\t0\t*\t*\n".to_vec());
    v
}

fn stream_case(ctx: &mut Ctx, bytes: &[u8], tag: &str) {
    let mut first: Option<String> = None;
    for cap in CAPS {
        let got = corr_read(ctx, &[], bytes, cap);
        let ans = got.answer();
        ctx.eval(None);
        if ans.starts_with("panic") {
            ctx.fail("sfile-panic", format!("sam::io::Reader panicked on {}: {ans}", hex(bytes)), tag.into());
        }
        if let Some(f) = &first {
            if *f != ans {
                ctx.fail("sfile-capacity-dependent", format!("{} reads differently through BufReader capacities {} and {cap}: {f} vs {ans}", hex(bytes), CAPS[0]), tag.into());
            }
        } else {
            first = Some(ans);
        }
    }
}

fn float_line_safe(ctx: &mut Ctx, bits: u32) {
    ctx.eval(None);
    for (which, text) in [("lexical trim_floats (f field)", lex_fmt(bits)), ("Display (B:f element)", disp_fmt(bits))] {
        if text.iter().any(|&b| b == b'\n' || b == b'\r') {
            ctx.fail("float-line-safe", format!("{which} of bits {bits:#x} contains a line break: {:?}", String::from_utf8_lossy(&text)), format!("sfile-float {bits}"));
        }
    }
}

// ------------------------------------------------------------------ entry

pub fn replay(ctx: &mut Ctx, case: &[String]) -> bool {
    let sub: u64 = case.get(1).and_then(|s| s.parse().ok()).unwrap_or(0);
    match case.first().map(|s| s.as_str()) {
        Some("sfile") => {
            let c = gen_case(sub);
            run_case(ctx, &c, &mut Rng::new(sub ^ 0x77), &format!("sfile {sub}"));
            true
        }
        Some("corpus-sfile") => {
            if let Some(c) = corpus().get(sub as usize) {
                run_case(ctx, c, &mut Rng::new(sub ^ 0x77), &format!("corpus-sfile {sub}"));
            }
            true
        }
        Some("corpus-sstream") => {
            if let Some(b) = corpus_streams().get(sub as usize) {
                stream_case(ctx, b, &format!("corpus-sstream {sub}"));
            }
            true
        }
        Some("sfile-float") => {
            float_line_safe(ctx, sub as u32);
            true
        }
        _ => false,
    }
}

pub fn run(ctx: &mut Ctx) {
    for (i, c) in corpus().iter().enumerate() {
        run_case(ctx, c, &mut Rng::new(i as u64 ^ 0x77), &format!("corpus-sfile {i}"));
    }
    for (i, b) in corpus_streams().iter().enumerate() {
        stream_case(ctx, b, &format!("corpus-sstream {i}"));
    }
    let seed = ctx.seed;
    let n = ctx.n(70, 6_000);
    for it in 0..n {
        let sub = seed.wrapping_mul(6_100_003).wrapping_add(it);
        let c = gen_case(sub);
        run_case(ctx, &c, &mut Rng::new(sub ^ 0x77), &format!("sfile {sub}"));
    }
    let n = ctx.n(3_000, 1_000_000);
    let mut rng = Rng::new(seed.wrapping_mul(6_100_007));
    for _ in 0..n {
        let b = gen_f32_bits(&mut rng, true);
        float_line_safe(ctx, b);
    }
    ctx.sample(|| "c06 file 7 40484409564e3a312e360d0a2a0934092a093009323535092a092a09300930092a092a0d0a t".into());
}
