//! C19, async extension — the ASYNC CRAM region query and `query_unmapped` equal the sync ones.
//!
//! One case = one file of the `c19.rs` generators (multi-reference slices, several containers,
//! several slices per container, unmapped tails, files without unplaced reads), written by the real
//! writer into memory, laid out by the independent walker of `c19.rs`, and queried
//!   * by the real `cram::io::Reader::query` / `query_unmapped` over a `SchedReader`
//!     (short reads, `Interrupted`), and
//!   * by the real `cram::r#async::io::Reader::query` / `query_unmapped` over an `AsyncSchedReader`
//!     (one byte per poll, partial transfers with `Pending`, `Pending` before every poll, 4k),
//! through the file's own index and through FOREIGN indexes (entries removed / duplicated /
//! reordered / spans widened / reference changed / landmark moved / offsets that name the EOF
//! container or lie behind the end of the stream), on the whole stream and on a truncated one.
//!
//! Observation per query: the serial numbers of the records delivered up to the first error, and the
//! class of that error (`recs=0,1;err:eof`), or `panic`.
//!   * ORACLE (`cram-async-query-differs`): async observation = sync observation; and
//!     (`cram-async-query-reader-state`): a query on the reader that served the earlier queries = the
//!     same query on a fresh reader.
//!   * CORRESPONDENCE (`c19 async aq|au|sq|su …`): both = the Lean state machines
//!     (`asyncQuery`, `asyncQueryUnmapped`, `syncQuery`, `syncQueryUnmapped` of
//!     `Noodles/Cram/AsyncQuery.lean`) run over the walker's layout with the same schedule text.
use super::c19::{corpus_case, fmt_entries, fmt_file, fmt_ids, gen_case, record_of, repository, sam_header, serial_of, to_record_buf, truth_entries, walk, Case, Entry, WFile, DEFAULT_RPS};
use crate::adversary::{block_on, poll_schedule, AsyncSchedReader, Delivery, Poll1, SchedReader};
use crate::common::*;
use noodles_core::{Position, Region};
use noodles_cram::{self as cram, crai};
use noodles_sam::{self as sam, alignment::io::Write as _, alignment::RecordBuf};

type Q = (Option<usize>, Option<usize>);

fn region_of(rid: usize, q: Q) -> Region {
    let name = format!("sq{rid}");
    let p = |n: usize| Position::try_from(n).unwrap();
    match q {
        (Some(s), Some(e)) => Region::new(name, p(s)..=p(e)),
        (Some(s), None) => Region::new(name, p(s)..),
        (None, Some(e)) => Region::new(name, ..=p(e)),
        (None, None) => Region::new(name, ..),
    }
}

fn runs<T: PartialEq>(v: &[T], f: impl Fn(&T) -> String) -> String {
    if v.is_empty() {
        return "-".into();
    }
    let mut out = vec![];
    let mut i = 0;
    while i < v.len() {
        let mut j = i;
        while j < v.len() && v[j] == v[i] {
            j += 1;
        }
        out.push(if j - i == 1 { f(&v[i]) } else { format!("{}*{}", f(&v[i]), j - i) });
        i = j;
    }
    out.join(",")
}
fn fmt_asched(s: &[Poll1]) -> String {
    let v: Vec<Option<usize>> = s.iter().map(|p| match p { Poll1::Pending => None, Poll1::Ready(n) => Some(*n) }).collect();
    runs(&v, |p| match p { None => "p".to_string(), Some(n) => n.to_string() })
}
fn fmt_ssched(s: &[Delivery]) -> String {
    runs(s, |d| match d { Delivery::Interrupted => "i".to_string(), Delivery::Chunk(n) => format!("c{n}") })
}

/// the observation: records up to the first error, then its class
fn observe(items: Vec<Result<usize, String>>) -> String {
    let mut ids = vec![];
    for it in items {
        match it {
            Ok(s) => ids.push(s),
            Err(c) => return format!("recs={};{c}", fmt_ids(&ids)),
        }
    }
    format!("recs={}", fmt_ids(&ids))
}

fn name_item(r: std::io::Result<RecordBuf>) -> Result<usize, String> {
    match r {
        Ok(r) => serial_of(r.name()).ok_or_else(|| "err:unnamed".to_string()),
        Err(e) => Err(errclass(&e).to_string()),
    }
}

/// `None` = every query; `Some(i)` = only request `i` (a fresh reader for the reader-state oracle)
enum Req {
    Query(Region),
    Unmapped,
}

fn sync_answers(bytes: &[u8], sched: &[Delivery], repo: &noodles_fasta::Repository, reqs: &[(Req, crai::Index)]) -> Vec<String> {
    let r = guarded(|| {
        let src = SchedReader::new(bytes.to_vec(), sched.to_vec(), usize::MAX);
        let mut rd = cram::io::reader::Builder::default().set_reference_sequence_repository(repo.clone()).build_from_reader(src);
        let header: sam::Header = match rd.read_header() {
            Ok(h) => h,
            Err(e) => return reqs.iter().map(|_| format!("header:{}", errclass(&e))).collect::<Vec<_>>(),
        };
        let mut out = vec![];
        for (req, index) in reqs {
            let one = guarded(|| -> String {
                let mut items = vec![];
                match req {
                    Req::Query(region) => match rd.query(&header, index, region) {
                        Ok(q) => {
                            for r in q.records() {
                                let it = name_item(r);
                                let stop = it.is_err();
                                items.push(it);
                                if stop {
                                    break;
                                }
                            }
                        }
                        Err(e) => items.push(Err(errclass(&e).to_string())),
                    },
                    Req::Unmapped => match rd.query_unmapped(&header, index) {
                        Ok(q) => {
                            for r in q {
                                let it = name_item(r);
                                let stop = it.is_err();
                                items.push(it);
                                if stop {
                                    break;
                                }
                            }
                        }
                        Err(e) => items.push(Err(errclass(&e).to_string())),
                    },
                }
                observe(items)
            });
            out.push(one.unwrap_or_else(|_| "panic".into()));
        }
        out
    });
    r.unwrap_or_else(|_| reqs.iter().map(|_| "panic".to_string()).collect())
}

fn async_answers(bytes: &[u8], sched: &[Poll1], fallback: usize, repo: &noodles_fasta::Repository, reqs: &[(Req, crai::Index)]) -> Vec<String> {
    use futures::StreamExt;
    let r = guarded(|| {
        block_on(async {
            let src = AsyncSchedReader::new(bytes.to_vec(), sched.to_vec(), fallback);
            let mut rd = cram::r#async::io::reader::Builder::default().set_reference_sequence_repository(repo.clone()).build_from_reader(src);
            let header: sam::Header = match rd.read_header().await {
                Ok(h) => h,
                Err(e) => return reqs.iter().map(|_| format!("header:{}", errclass(&e))).collect::<Vec<_>>(),
            };
            let mut out = vec![];
            for (req, index) in reqs {
                let mut items = vec![];
                match req {
                    Req::Query(region) => match rd.query(&header, index, region) {
                        Ok(q) => {
                            let mut s = q.records();
                            while let Some(r) = s.next().await {
                                let it = name_item(r);
                                let stop = it.is_err();
                                items.push(it);
                                if stop {
                                    break;
                                }
                            }
                        }
                        Err(e) => items.push(Err(errclass(&e).to_string())),
                    },
                    Req::Unmapped => match rd.query_unmapped(&header, index).await {
                        Ok(mut s) => {
                            while let Some(r) = s.next().await {
                                let it = name_item(r);
                                let stop = it.is_err();
                                items.push(it);
                                if stop {
                                    break;
                                }
                            }
                        }
                        Err(e) => items.push(Err(errclass(&e).to_string())),
                    },
                }
                out.push(observe(items));
            }
            out
        })
    });
    r.unwrap_or_else(|_| reqs.iter().map(|_| "panic".to_string()).collect())
}

/// foreign indexes. Offsets are only ever container starts, the EOF container, or positions behind
/// the end of the stream: what a reader finds in the middle of a container is not modelled.
fn foreign(rng: &mut Rng, kind: u64, own: &[Entry], w: &WFile, total_len: usize, nref: usize) -> (String, Vec<Entry>) {
    let mut v = own.to_vec();
    let eof_off = w.containers.last().map(|c| c.offset + c.hdr_len + c.body_len).unwrap_or(w.start);
    let at = |rng: &mut Rng, n: usize| if n == 0 { 0 } else { rng.below(n as u64) as usize };
    match kind {
        0 => ("own".into(), v),
        1 => {
            if !v.is_empty() {
                let i = at(rng, v.len());
                v.remove(i);
            }
            ("entry-removed".into(), v)
        }
        2 => {
            if !v.is_empty() {
                let i = at(rng, v.len());
                let e = v[i];
                let j = if rng.chance(1, 2) { i + 1 } else { at(rng, v.len() + 1) };
                v.insert(j, e);
            }
            ("entry-duplicated".into(), v)
        }
        3 => {
            if rng.chance(1, 2) {
                v.reverse();
            } else {
                for i in (1..v.len()).rev() {
                    let j = at(rng, i + 1);
                    v.swap(i, j);
                }
            }
            ("reordered".into(), v)
        }
        4 => {
            for e in v.iter_mut() {
                if e.0 >= 0 {
                    e.1 = 1;
                    e.2 = 1_000_000;
                }
            }
            ("spans-widened".into(), v)
        }
        5 => {
            // an entry that names the EOF container: both readers end the query there
            let j = at(rng, v.len() + 1);
            let r = if rng.chance(1, 3) { -1 } else { at(rng, nref) as i64 };
            v.insert(j, (r, 1, 10, eof_off, 0, 10));
            ("eof-entry".into(), v)
        }
        6 => {
            // an entry behind the end of the stream
            let j = at(rng, v.len() + 1);
            let r = if rng.chance(1, 3) { -1 } else { at(rng, nref) as i64 };
            v.insert(j, (r, 1, 10, total_len + at(rng, 3) * 7, 0, 10));
            ("behind-end-entry".into(), v)
        }
        7 => {
            if !v.is_empty() {
                let i = at(rng, v.len());
                v[i].4 += 1 + at(rng, 3);
            }
            ("landmark-moved".into(), v)
        }
        8 => {
            // an entry filed under another reference (or as unplaced / from unplaced)
            if !v.is_empty() {
                let i = at(rng, v.len());
                v[i].0 = if rng.chance(1, 4) { -1 } else { at(rng, nref) as i64 };
            }
            ("reference-changed".into(), v)
        }
        9 => {
            // an entry that points at another container of the file (landmark kept)
            if !v.is_empty() && !w.containers.is_empty() {
                let i = at(rng, v.len());
                v[i].3 = w.containers[at(rng, w.containers.len())].offset;
            }
            ("offset-of-other-container".into(), v)
        }
        _ => {
            v.retain(|e| e.0 >= 0);
            ("no-unplaced-entry".into(), v)
        }
    }
}

fn write_file(case: &Case) -> Result<std::io::Result<Vec<u8>>, String> {
    let repo = repository(case);
    let header = sam_header(case);
    guarded(|| -> std::io::Result<Vec<u8>> {
        let b = cram::io::writer::Builder::default().set_reference_sequence_repository(repo.clone()).encode_alignment_start_positions_as_deltas(case.ap_delta);
        let mut buf = Vec::new();
        {
            let mut w = if case.rps == DEFAULT_RPS && case.spc == 1 { b.build_from_writer(&mut buf) } else { b.verif_build_from_writer_with_layout(&mut buf, case.rps, case.spc) };
            w.write_header(&header)?;
            for r in &case.recs {
                w.write_alignment_record(&header, &to_record_buf(case, r))?;
            }
            w.try_finish(&header)?;
        }
        Ok(buf)
    })
}

fn run_case(ctx: &mut Ctx, case: &Case, emit: bool) {
    let id = format!("async {}", case.id);
    let bytes = match write_file(case) {
        Ok(Ok(b)) => b,
        _ => {
            ctx.bump("async:writer_refused_or_failed"); // c19.rs reports on these
            return;
        }
    };
    let w = match walk(&bytes) {
        Ok(w) => w,
        Err(_) => {
            ctx.bump("async:walker_failed");
            return;
        }
    };
    let total: usize = w.containers.iter().flat_map(|c| c.slices.iter()).map(|s| s.nrec).sum();
    if total != case.recs.len() || !w.eof_marker {
        ctx.bump("async:walker_failed");
        return;
    }
    let repo = repository(case);
    let own = truth_entries(&w, &case.recs);
    let file_txt = fmt_file(&w, &case.recs);
    let mut rng = Rng::new(case.seed ^ 0xa5a5_19c1_9a57_0001);
    ctx.bump("async:files");
    ctx.bump(&format!("async:containers_{}", w.containers.len().min(4)));
    if w.containers.iter().any(|c| c.slices.len() > 1) {
        ctx.bump("async:files_with_multi_slice_container");
    }
    if w.containers.iter().flat_map(|c| c.slices.iter()).any(|s| s.ctx.0 == -2) {
        ctx.bump("async:files_with_multi_reference_slice");
    }
    ctx.bump(if case.recs.iter().any(|r| r.rid.is_none()) { "async:files_with_unplaced_reads" } else { "async:files_without_unplaced_reads" });

    // ---- the stream: whole, or truncated somewhere behind the header container
    let eof_off = w.containers.last().map(|c| c.offset + c.hdr_len + c.body_len).unwrap_or(w.start);
    let (trunc_txt, stream): (String, Vec<u8>) = if rng.chance(1, 4) {
        let n = match rng.below(6) {
            0 => w.start,
            1 => eof_off,
            2 => eof_off + 1 + rng.below((bytes.len() - eof_off - 1) as u64) as usize,
            3 if !w.containers.is_empty() => {
                let c = &w.containers[rng.below(w.containers.len() as u64) as usize];
                c.offset + 1 + rng.below((c.hdr_len - 1) as u64) as usize // inside a container header
            }
            4 if !w.containers.is_empty() => {
                let c = &w.containers[rng.below(w.containers.len() as u64) as usize];
                c.offset + c.hdr_len + rng.below(c.body_len as u64) as usize // inside the body
            }
            _ => w.start + rng.below((bytes.len() - w.start) as u64) as usize,
        };
        ctx.bump(if n >= eof_off { "async:stream_truncated_in_eof_container" } else { "async:stream_truncated_in_data" });
        (n.to_string(), bytes[..n].to_vec())
    } else {
        ctx.bump("async:stream_whole");
        ("-".into(), bytes.clone())
    };

    // ---- schedules
    let pk = rng.below(4) as usize;
    let (asched, fallback, aname) = poll_schedule(&mut rng, pk, stream.len());
    ctx.bump(&format!("async:poll_schedule_{aname}"));
    let mut ssched = vec![];
    if rng.chance(2, 3) {
        for _ in 0..rng.range(1, 120) {
            ssched.push(if rng.chance(1, 5) { Delivery::Interrupted } else { Delivery::Chunk(1 + rng.below(40) as usize) });
        }
    }
    ctx.bump(if ssched.is_empty() { "async:sync_schedule_plain" } else { "async:sync_schedule_short_reads_interrupted" });
    let fb_txt = fallback.to_string();
    let as_txt = fmt_asched(&asched);
    let ss_txt = fmt_ssched(&ssched);

    // ---- index variants and queries
    let mut kinds: Vec<u64> = vec![0];
    let nvar = if ctx.tier_thorough { 4 } else { 3 };
    for _ in 0..nvar {
        kinds.push(1 + rng.below(10));
    }
    let mut reqs: Vec<(Req, crai::Index)> = vec![];
    let mut texts: Vec<(String, String, String)> = vec![]; // (variant, async request, sync request)
    for kind in kinds {
        let (vname, entries) = foreign(&mut rng, kind, &own, &w, bytes.len(), case.nref);
        let index: crai::Index = entries.iter().map(record_of).collect();
        let idx_txt = fmt_entries(&entries);
        let mut qs: Vec<(usize, Q)> = vec![];
        for rid in 0..case.nref {
            qs.push((rid, (None, None)));
            let on: Vec<&super::c19::GRec> = case.recs.iter().filter(|r| r.rid == Some(rid)).collect();
            if !on.is_empty() && rng.chance(2, 3) {
                let r = on[rng.below(on.len() as u64) as usize];
                qs.push((rid, match rng.below(4) {
                    0 => (Some(r.start), Some(r.start)),
                    1 => (Some(r.end), None),
                    2 => (None, Some(r.start)),
                    _ => (Some(r.end + 1), Some(r.end + 3)),
                }));
            }
        }
        for (rid, q) in qs {
            let (a, b) = (q.0.unwrap_or(1), q.1.unwrap_or(usize::MAX));
            reqs.push((Req::Query(region_of(rid, q)), index.clone()));
            texts.push((
                vname.clone(),
                format!("c19 async aq {} {file_txt} {idx_txt} {trunc_txt} {as_txt} {fb_txt} {rid} {a} {b}", w.start),
                format!("c19 async sq {} {file_txt} {idx_txt} {trunc_txt} {ss_txt} {rid} {a} {b}", w.start),
            ));
        }
        reqs.push((Req::Unmapped, index.clone()));
        texts.push((
            vname.clone(),
            format!("c19 async au {} {file_txt} {idx_txt} {trunc_txt} {as_txt} {fb_txt}", w.start),
            format!("c19 async su {} {file_txt} {idx_txt} {trunc_txt} {ss_txt}", w.start),
        ));
    }

    let sync = sync_answers(&stream, &ssched, &repo, &reqs);
    let asy = async_answers(&stream, &asched, fallback, &repo, &reqs);
    for (i, (vname, areq, sreq)) in texts.iter().enumerate() {
        let what = if matches!(reqs[i].0, Req::Unmapped) { "query_unmapped" } else { "query" };
        ctx.eval(Some(fnv(format!("{id} {i}").as_bytes())));
        ctx.bump(&format!("async:{what}_index_{vname}"));
        let a = &asy[i];
        ctx.bump(&format!(
            "async:{what}_answer_{}",
            if a == "panic" { "panic" } else if a.contains(";err:eof") { "records_then_eof_error" } else if a.contains(";err") { "records_then_other_error" } else if a == "recs=-" { "empty" } else { "records" }
        ));
        if sync[i] != *a {
            ctx.fail(
                "cram-async-query-differs",
                format!("{what} #{i} through index variant {vname} (stream {trunc_txt}, polls {aname}): async {a}, sync {} — request {areq}", sync[i]),
                id.clone(),
            );
        }
        if emit {
            ctx.corr(areq.clone(), a.clone());
            ctx.corr(sreq.clone(), sync[i].clone());
        }
    }
    // ---- a query on the used reader = the same query on a fresh reader
    if !reqs.is_empty() {
        let i = rng.below(reqs.len() as u64) as usize;
        let one = [(match &reqs[i].0 { Req::Query(r) => Req::Query(r.clone()), Req::Unmapped => Req::Unmapped }, reqs[i].1.clone())];
        let fresh = async_answers(&stream, &asched, fallback, &repo, &one);
        ctx.eval(None);
        ctx.bump("async:fresh_reader_comparisons");
        if fresh[0] != asy[i] {
            ctx.fail("cram-async-query-reader-state", format!("request #{i} ({}): after {} earlier queries {}, on a fresh reader {}", texts[i].1, i, asy[i], fresh[0]), id.clone());
        }
    }
}

pub fn replay(ctx: &mut Ctx, case: &[String]) -> bool {
    if case.first().map(|s| s.as_str()) != Some("async") {
        return false;
    }
    let k: u64 = case.get(2).and_then(|s| s.parse().ok()).unwrap_or(0);
    match case.get(1).map(|s| s.as_str()) {
        Some("corpus") => {
            if let Some(mut c) = corpus_case(k as usize) {
                let round: u64 = case.get(3).and_then(|s| s.parse().ok()).unwrap_or(0);
                c.seed = c.seed.wrapping_add(round * 1000);
                c.id = format!("corpus {k} {round}");
                run_case(ctx, &c, true)
            }
        }
        Some("file") => run_case(ctx, &gen_case(k), true),
        _ => {}
    }
    true
}

pub fn run(ctx: &mut Ctx) {
    let mut k = 0;
    while let Some(c) = corpus_case(k) {
        // every corpus file three times: other variants, truncations and schedules each time
        for round in 0..3u64 {
            let mut c = c.clone();
            c.seed = c.seed.wrapping_add(round * 1000);
            c.id = format!("corpus {k} {round}");
            run_case(ctx, &c, true);
        }
        k += 1;
    }
    let n = ctx.n(150, 6_000);
    for it in 0..n {
        let emit = !ctx.tier_thorough || it % 4 == 0;
        run_case(ctx, &gen_case(ctx.seed.wrapping_mul(5_000_011).wrapping_add(it)), emit);
    }
}
