//! C12, second part — the readers that `c12.rs` covers with the differential oracle only, tied to
//! the Lean transcriptions of `Noodles/Io/{Prog,Binary,Lines}.lean` under delivery schedules:
//! BAM records (the `read_exact_to_vec` form), BCF records, CRAM file definition + containers, the
//! BAI / tabix / CSI / gzi index readers, the lazy SAM / VCF record readers, the "one line, then parse
//! it" readers (SAM / VCF `read_record_buf`, fai, crai), GFF3 / GTF lines, the FASTA sequence reader
//! and record iterator.
//!
//! Per case: the REAL reader is run over a plain delivery and over a scheduled one (`SchedReader`,
//! behind a `BufReader` of one of the capacities where the reader wants `BufRead`, and in half of the
//! cases also where it only wants `Read`); the oracle demands the same answer; the scheduled answer is
//! the correspondence answer the Lean model has to reproduce from the same bytes and schedule.
use super::c12::{gen_file, Fmt, CAPS};
use super::c17::fmt_chunks;
use crate::adversary::{schedule, Delivery, SchedReader};
use crate::common::*;
use indexmap::IndexMap;
use noodles_bam as bam;
use noodles_bcf as bcf;
use noodles_bgzf as bgzf;
use noodles_cram as cram;
use noodles_csi::{
    self as csi,
    binning_index::{
        self,
        index::{
            header::{format::CoordinateSystem, Format},
            reference_sequence::{
                index::{BinnedIndex, LinearIndex},
                Bin, Metadata,
            },
            Header, ReferenceSequence,
        },
        BinningIndex, ReferenceSequence as _,
    },
};
use noodles_fasta as fasta;
use noodles_gff as gff;
use noodles_gtf as gtf;
use noodles_sam as sam;
use noodles_tabix as tabix;
use noodles_vcf as vcf;
use std::io::{self, BufRead, BufReader, Read, Write};

// ------------------------------------------------------------------------------------------------
// sources

/// a scheduled source, directly or behind a `BufReader`; `pos` = bytes logically consumed
enum Src2 {
    Raw(SchedReader),
    Buf(BufReader<SchedReader>),
}

impl Src2 {
    fn new(data: &[u8], sched: Vec<Delivery>, cap: Option<usize>) -> Self {
        let s = SchedReader::new(data.to_vec(), sched, usize::MAX);
        match cap {
            None => Src2::Raw(s),
            Some(c) => Src2::Buf(BufReader::with_capacity(c, s)),
        }
    }
    fn pos(&self) -> usize {
        match self {
            Src2::Raw(r) => r.pos,
            Src2::Buf(b) => b.get_ref().pos - b.buffer().len(),
        }
    }
}

impl Read for Src2 {
    fn read(&mut self, buf: &mut [u8]) -> io::Result<usize> {
        match self {
            Src2::Raw(r) => r.read(buf),
            Src2::Buf(b) => b.read(buf),
        }
    }
}

fn bufsrc(data: &[u8], sched: Vec<Delivery>, cap: usize) -> BufReader<SchedReader> {
    BufReader::with_capacity(cap, SchedReader::new(data.to_vec(), sched, usize::MAX))
}

fn bufpos(b: &BufReader<SchedReader>) -> usize {
    b.get_ref().pos - b.buffer().len()
}

fn or_dash(v: Vec<String>, sep: &str) -> String {
    if v.is_empty() { "-".into() } else { v.join(sep) }
}

fn dec(n: impl ToString) -> String {
    hex(n.to_string().as_bytes())
}

// ------------------------------------------------------------------------------------------------
// kinds

#[derive(Clone, Copy, Debug, PartialEq, Eq)]
pub(crate) enum K {
    BamV,
    Bcf,
    Cram,
    Bai,
    Tbi,
    Csi,
    Gzi,
    SamRec,
    VcfRec,
    SamLine,
    VcfLine,
    Fai,
    Crai,
    Gff,
    Gtf,
    FaSeq,
    Fasta,
}

pub(crate) const KINDS: [K; 17] = [K::BamV, K::Bcf, K::Cram, K::Bai, K::Tbi, K::Csi, K::Gzi, K::SamRec, K::VcfRec, K::SamLine, K::VcfLine, K::Fai, K::Crai, K::Gff, K::Gtf, K::FaSeq, K::Fasta];

impl K {
    pub(crate) fn name(self) -> &'static str {
        match self {
            K::BamV => "bamv",
            K::Bcf => "bcf",
            K::Cram => "cram",
            K::Bai => "bai",
            K::Tbi => "tbi",
            K::Csi => "csi",
            K::Gzi => "gzi",
            K::SamRec => "samrec",
            K::VcfRec => "vcfrec",
            K::SamLine => "samline",
            K::VcfLine => "vcfline",
            K::Fai => "fai",
            K::Crai => "crai",
            K::Gff => "gff",
            K::Gtf => "gtf",
            K::FaSeq => "faseq",
            K::Fasta => "fasta",
        }
    }
    pub(crate) fn parse(s: &str) -> Option<K> {
        KINDS.into_iter().find(|k| k.name() == s)
    }
    /// the noodles reader takes `BufRead`
    pub(crate) fn buffered(self) -> bool {
        matches!(self, K::SamRec | K::VcfRec | K::SamLine | K::VcfLine | K::Fai | K::Gff | K::Gtf | K::FaSeq | K::Fasta)
    }
    /// the class suffix of the oracle failures (the names `c12.rs` uses for the same readers)
    pub(crate) fn class(self) -> &'static str {
        match self {
            K::BamV => "bam-raw",
            K::Bcf => "bcf-raw",
            K::Cram => "cram",
            K::Bai => "bai",
            K::Tbi => "tabix",
            K::Csi => "csi",
            K::Gzi => "gzi",
            K::SamRec | K::SamLine => "sam",
            K::VcfRec | K::VcfLine => "vcf",
            K::Fai => "fai",
            K::Crai => "crai",
            K::Gff => "gff",
            K::Gtf => "gtf",
            K::FaSeq | K::Fasta => "fasta",
        }
    }
}

/// one input: what the real reader is given, what the model is given (the uncompressed payload
/// for readers behind BGZF / gzip), structure offsets for the boundary schedules, extra request words
pub(crate) struct Input {
    pub(crate) data: Vec<u8>,
    pub(crate) model: Vec<u8>,
    pub(crate) bounds: Vec<usize>,
    /// FASTA sequence reader: the buffer sizes the harness-driven `fill_buf` / `consume` loop uses
    pub(crate) sizes: Vec<usize>,
}

impl Input {
    pub(crate) fn plain(data: Vec<u8>, bounds: Vec<usize>) -> Self {
        Input { model: data.clone(), data, bounds, sizes: vec![] }
    }
}

// ------------------------------------------------------------------------------------------------
// generators: binary formats

fn u32_at(b: &[u8], at: usize) -> usize {
    u32::from_le_bytes(b[at..at + 4].try_into().unwrap()) as usize
}

/// a BAM record body (no block size): fixed fields, name, CIGAR, bases, qualities, a little aux data
fn bam_record_body(rng: &mut Rng) -> Vec<u8> {
    let name: Vec<u8> = (0..1 + rng.below(7)).map(|_| b'a' + rng.below(26) as u8).collect();
    let n_cigar = rng.below(3) as usize;
    let l_seq = if rng.chance(1, 5) { 0 } else { rng.below(24) as usize };
    let mut r = vec![];
    r.extend_from_slice(&(rng.below(3) as i32 - 1).to_le_bytes());
    r.extend_from_slice(&(rng.below(3000) as i32).to_le_bytes());
    r.push(name.len() as u8 + 1);
    r.push(rng.below(61) as u8);
    r.extend_from_slice(&4680u16.to_le_bytes());
    r.extend_from_slice(&(n_cigar as u16).to_le_bytes());
    r.extend_from_slice(&(rng.below(4096) as u16).to_le_bytes());
    r.extend_from_slice(&(l_seq as u32).to_le_bytes());
    r.extend_from_slice(&(-1i32).to_le_bytes());
    r.extend_from_slice(&(-1i32).to_le_bytes());
    r.extend_from_slice(&0i32.to_le_bytes());
    r.extend_from_slice(&name);
    r.push(0);
    for _ in 0..n_cigar {
        r.extend_from_slice(&(((1 + rng.below(30)) as u32) << 4).to_le_bytes());
    }
    r.extend((0..l_seq.div_ceil(2)).map(|_| 0x12u8));
    r.extend((0..l_seq).map(|_| 30u8));
    if rng.chance(1, 3) {
        r.extend_from_slice(b"NMC\x03");
    }
    r
}

fn framed_starts(raw: &[u8], words: usize) -> Vec<usize> {
    // record starts of a stream of frames that begin with `words` u32 lengths covering what follows
    let mut v = vec![];
    let mut at = 0;
    while at + 4 * words <= raw.len() {
        v.push(at);
        let mut n = 4 * words;
        for w in 0..words {
            n += u32_at(raw, at + 4 * w);
        }
        at += n;
    }
    if v.is_empty() {
        v.push(0);
    }
    v
}

fn gen_bamv(rng: &mut Rng) -> Input {
    let mut raw = vec![];
    for _ in 0..rng.below(6) {
        let b = bam_record_body(rng);
        raw.extend_from_slice(&(b.len() as u32).to_le_bytes());
        raw.extend_from_slice(&b);
    }
    let starts = framed_starts(&raw, 1);
    match rng.below(9) {
        0 if !raw.is_empty() => raw.truncate(rng.below(raw.len() as u64) as usize),
        1 if raw.len() >= 4 => {
            let k = *rng.pick(&starts);
            raw[k..k + 4].copy_from_slice(&0u32.to_le_bytes());
        }
        2 if raw.len() >= 4 => {
            let k = *rng.pick(&starts);
            let n = *rng.pick(&[1u32, 31, 32, 33]);
            raw[k..k + 4].copy_from_slice(&n.to_le_bytes());
        }
        3 => raw.extend_from_slice(&[1, 0]),
        4 if raw.len() >= 4 => {
            // a block size far beyond the rest of the stream: nothing of that size may be allocated up front
            let k = *rng.pick(&starts);
            raw[k..k + 4].copy_from_slice(&0x7fff_fff0u32.to_le_bytes());
        }
        _ => {}
    }
    let b = framed_starts(&raw, 1).into_iter().flat_map(|x| [x, x + 4]).collect();
    Input::plain(raw, b)
}

fn gen_bcf(rng: &mut Rng) -> Option<Input> {
    let g = gen_file(Fmt::BcfRaw, rng)?;
    let f = g.bytes;
    if f.len() < 9 {
        return None;
    }
    let start = 9 + u32_at(&f, 5);
    if start > f.len() {
        return None;
    }
    let mut raw = f[start..].to_vec();
    if raw.len() > 4000 {
        // keep whole records
        let st = framed_starts(&raw, 2);
        let cut = st.iter().copied().filter(|&x| x <= 4000).max().unwrap_or(0);
        raw.truncate(cut);
    }
    let starts = framed_starts(&raw, 2);
    match rng.below(10) {
        0 if !raw.is_empty() => raw.truncate(rng.below(raw.len() as u64) as usize),
        1 if raw.len() >= 8 => {
            let k = *rng.pick(&starts);
            raw[k..k + 4].copy_from_slice(&0u32.to_le_bytes()); // l_shared = 0: end of stream
        }
        2 if raw.len() >= 8 => {
            // a site block shorter than the fixed fields / cut inside the typed fields: `index` fails
            let k = *rng.pick(&starts);
            let n = *rng.pick(&[1u32, 23, 24, 25, 27]);
            raw[k..k + 4].copy_from_slice(&n.to_le_bytes());
        }
        3 if raw.len() >= 8 => {
            let k = *rng.pick(&starts);
            if k + 8 + 26 < raw.len() {
                raw[k + 8 + 24 + rng.below(3) as usize] ^= 0x5a; // a typed-value descriptor of the site block
            }
        }
        4 if raw.len() >= 8 => {
            let k = *rng.pick(&starts);
            let n = u32_at(&raw, k + 4) as u32 + 1 + rng.below(500) as u32; // l_indiv beyond the stream / into the next record
            raw[k + 4..k + 8].copy_from_slice(&n.to_le_bytes());
        }
        5 => raw.extend_from_slice(&[7, 0, 0]), // partial l_shared at the end
        6 if raw.len() >= 8 => {
            let k = *rng.pick(&starts);
            raw[k + 4..k + 8].copy_from_slice(&0xffff_fff0u32.to_le_bytes());
        }
        _ => {}
    }
    let b = framed_starts(&raw, 2).into_iter().flat_map(|x| [x, x + 4, x + 8]).collect();
    Some(Input::plain(raw, b))
}

// ---------- CRAM

fn itf8(n: i32, len: usize) -> Vec<u8> {
    // the shortest encoding has `len` bytes for the value classes the caller picks
    let v = n as u32;
    match len {
        1 => vec![v as u8 & 0x7f],
        2 => vec![0x80 | ((v >> 8) as u8 & 0x3f), v as u8],
        3 => vec![0xc0 | ((v >> 16) as u8 & 0x1f), (v >> 8) as u8, v as u8],
        4 => vec![0xe0 | ((v >> 24) as u8 & 0x0f), (v >> 16) as u8, (v >> 8) as u8, v as u8],
        _ => vec![0xf0 | ((v >> 28) as u8 & 0x0f), (v >> 20) as u8, (v >> 12) as u8, (v >> 4) as u8, v as u8 & 0x0f],
    }
}

fn ltf8(n: i64, len: usize) -> Vec<u8> {
    let v = n as u64;
    let be = v.to_be_bytes();
    match len {
        1 => vec![v as u8 & 0x7f],
        2 => vec![0x80 | ((v >> 8) as u8 & 0x3f), v as u8],
        3 => vec![0xc0 | ((v >> 16) as u8 & 0x1f), be[6], be[7]],
        4 => vec![0xe0 | ((v >> 24) as u8 & 0x0f), be[5], be[6], be[7]],
        5 => vec![0xf0 | ((v >> 32) as u8 & 0x07), be[4], be[5], be[6], be[7]],
        6 => vec![0xf8 | ((v >> 40) as u8 & 0x03), be[3], be[4], be[5], be[6], be[7]],
        7 => vec![0xfc | ((v >> 48) as u8 & 0x01), be[2], be[3], be[4], be[5], be[6], be[7]],
        8 => vec![0xfe, be[1], be[2], be[3], be[4], be[5], be[6], be[7]],
        _ => {
            let mut x = vec![0xff];
            x.extend_from_slice(&be);
            x
        }
    }
}

fn rand_itf8(ctx_hist: &mut Vec<String>, rng: &mut Rng, nonneg: bool) -> Vec<u8> {
    let len = 1 + rng.below(5) as usize;
    ctx_hist.push(format!("cram_itf8_bytes:{len}"));
    let bits = [7, 14, 21, 28, if nonneg { 31 } else { 32 }][len - 1];
    let v = (rng.next() & ((1u64 << bits) - 1)) as u32;
    itf8(v as i32, len)
}

fn rand_ltf8(ctx_hist: &mut Vec<String>, rng: &mut Rng) -> Vec<u8> {
    let len = 1 + rng.below(9) as usize;
    ctx_hist.push(format!("cram_ltf8_bytes:{len}"));
    let bits = [7, 14, 21, 28, 35, 42, 49, 56, 63][len - 1];
    let v = rng.next() & ((1u64 << bits) - 1);
    ltf8(v as i64, len)
}

const CRAM_EOF: [u8; 38] = [
    0x0f, 0x00, 0x00, 0x00, 0xff, 0xff, 0xff, 0xff, 0x0f, 0xe0, 0x45, 0x4f, 0x46, 0x00, 0x00, 0x00, 0x00, 0x01, 0x00, 0x05, 0xbd, 0xd9, 0x4f, 0x00, 0x01, 0x00, 0x06, 0x06, 0x01, 0x00, 0x01, 0x00, 0x01, 0x00,
    0xee, 0x63, 0x01, 0x4b,
];

/// a container with a hand-made header (every ITF8 / LTF8 length class, every reference context
/// kind) and an arbitrary body: the container reader does not look into the body
fn synthetic_container(hist: &mut Vec<String>, rng: &mut Rng) -> Vec<u8> {
    let len = if rng.chance(1, 12) { 0 } else { rng.below(60) as u32 };
    let mut h = len.to_le_bytes().to_vec();
    match rng.below(6) {
        0 => {
            hist.push("cram_ctx:none".into());
            h.extend(itf8(-1, 5));
            h.extend(rand_itf8(hist, rng, false));
            h.extend(rand_itf8(hist, rng, false));
        }
        1 => {
            hist.push("cram_ctx:many".into());
            h.extend(itf8(-2, 5));
            h.extend(rand_itf8(hist, rng, false));
            h.extend(rand_itf8(hist, rng, false));
        }
        2 => {
            // an id / start / span that `ReferenceSequenceContext::try_from` may refuse (negative, zero)
            hist.push("cram_ctx:arbitrary".into());
            h.extend(rand_itf8(hist, rng, false));
            h.extend(if rng.chance(1, 3) { itf8(0, 1) } else { rand_itf8(hist, rng, false) });
            h.extend(if rng.chance(1, 3) { itf8(0, 1) } else { rand_itf8(hist, rng, false) });
        }
        _ => {
            hist.push("cram_ctx:some".into());
            h.extend(rand_itf8(hist, rng, true));
            h.extend(itf8(1 + rng.below(1 << 20) as i32, 5));
            h.extend(itf8(1 + rng.below(1 << 12) as i32, 3));
        }
    }
    let neg = rng.chance(1, 14);
    h.extend(if neg { itf8(-5, 5) } else { rand_itf8(hist, rng, true) }); // records
    h.extend(if rng.chance(1, 14) { ltf8(-1, 9) } else { rand_ltf8(hist, rng) }); // record counter
    h.extend(rand_ltf8(hist, rng)); // bases
    h.extend(rand_itf8(hist, rng, true)); // blocks
    let nl = rng.below(4) as usize;
    h.extend(itf8(nl as i32, 1));
    for _ in 0..nl {
        h.extend(rand_itf8(hist, rng, true));
    }
    let mut c = crc32(&h);
    if rng.chance(1, 14) {
        c ^= 1;
        hist.push("cram_synthetic:bad-crc".into());
    }
    h.extend_from_slice(&c.to_le_bytes());
    h.extend(rng.bytes(len as usize));
    h
}

/// offsets where `cram::io::Reader` starts reading a container, found with the real reader
fn cram_container_starts(f: &[u8]) -> Vec<usize> {
    let mut v = vec![];
    let mut r = cram::io::Reader::new(SchedReader::plain(f.to_vec()));
    if r.read_file_definition().is_err() {
        return v;
    }
    let mut c = cram::io::reader::Container::default();
    loop {
        v.push(r.get_ref().pos);
        match guarded(|| r.read_container(&mut c)) {
            Ok(Ok(n)) if n > 0 && v.len() < 64 => {}
            _ => break,
        }
    }
    v
}

fn gen_cram(hist: &mut Vec<String>, rng: &mut Rng) -> Option<Input> {
    let mut f;
    if rng.chance(1, 2) {
        hist.push("cram_source:writer".into());
        f = gen_file(Fmt::Cram, rng)?.bytes;
        if f.len() > 12_000 {
            return None;
        }
    } else {
        hist.push("cram_source:synthetic".into());
        f = b"CRAM\x03\x00".to_vec();
        f.extend(rng.bytes(20));
        for _ in 0..rng.below(5) {
            f.extend(synthetic_container(hist, rng));
        }
        if !rng.chance(1, 6) {
            f.extend_from_slice(&CRAM_EOF);
        }
        let extra = rng.below(4) as usize;
        f.extend(rng.bytes(extra)); // bytes after the EOF container are not read
    }
    let starts = cram_container_starts(&f);
    match rng.below(10) {
        0 => f.truncate(rng.below(f.len() as u64) as usize),
        1 if !starts.is_empty() => {
            let k = *rng.pick(&starts) + rng.below(24) as usize;
            if k < f.len() {
                f[k] ^= 1 << rng.below(8);
            }
        }
        2 => f[rng.below(6) as usize] ^= 0x20, // magic / version
        _ => {}
    }
    let mut b = vec![4, 6, 26];
    for s in cram_container_starts(&f) {
        b.extend([s, s + 4, s + 5, s + 9]);
    }
    Some(Input::plain(f, b))
}

// ---------- index files

fn bgzf_payload(file: &[u8]) -> Option<Vec<u8>> {
    let mut r = bgzf::io::Reader::new(file);
    let mut v = vec![];
    r.read_to_end(&mut v).ok()?;
    Some(v)
}

/// BGZF-compress with the real writer, cutting members at random places
pub(crate) fn bgzf_wrap(rng: &mut Rng, payload: &[u8]) -> Vec<u8> {
    let mut w = bgzf::io::Writer::new(Vec::new());
    let mut at = 0;
    while at < payload.len() {
        let lim = if rng.chance(1, 2) { 40 } else { 3000 };
        let n = (1 + rng.below(lim) as usize).min(payload.len() - at);
        w.write_all(&payload[at..at + n]).unwrap();
        w.flush().unwrap();
        at += n;
    }
    w.finish().unwrap()
}

fn bgzf_member_ends(file: &[u8]) -> Vec<usize> {
    let mut v = vec![];
    let mut at = 0;
    while at + 18 <= file.len() {
        at += u16::from_le_bytes([file[at + 16], file[at + 17]]) as usize + 1;
        v.push(at);
    }
    v
}

/// damage to a binary index payload: cut anywhere, or the low byte of an aligned word changed a little
/// (`words_from`: where the 4-byte grid of counts and offsets starts; `signed`: counts are `i32`)
fn damage_index(rng: &mut Rng, p: &mut Vec<u8>, words_from: usize, signed: bool) -> &'static str {
    match rng.below(8) {
        0 if !p.is_empty() => {
            p.truncate(rng.below(p.len() as u64) as usize);
            "cut"
        }
        1 | 2 if p.len() > words_from + 4 => {
            let w = (p.len() - words_from) / 4;
            let at = words_from + 4 * rng.below(w as u64) as usize;
            p[at] ^= 1 + rng.below(3) as u8;
            "low-byte"
        }
        3 if signed && p.len() > words_from + 4 => {
            let w = (p.len() - words_from) / 4;
            let at = words_from + 4 * rng.below(w as u64) as usize;
            p[at + 3] |= 0x80; // a negative count / index
            "negative"
        }
        4 if p.len() >= 4 => {
            p[rng.below(4) as usize] ^= 0x01; // magic
            "magic"
        }
        5 => {
            let extra = 1 + rng.below(9) as usize;
            p.extend(rng.bytes(extra)); // trailing bytes: n_no_coor, partial n_no_coor, or garbage
            "trailing"
        }
        _ => "valid",
    }
}

fn put_chunks(rng: &mut Rng, p: &mut Vec<u8>) {
    let n = rng.below(4) as u32;
    p.extend_from_slice(&n.to_le_bytes());
    for _ in 0..n {
        let a = rng.below(1 << 40);
        p.extend_from_slice(&a.to_le_bytes());
        p.extend_from_slice(&(a + rng.below(1 << 20)).to_le_bytes());
    }
}

fn put_metadata(rng: &mut Rng, p: &mut Vec<u8>) {
    p.extend_from_slice(&2u32.to_le_bytes());
    for _ in 0..4 {
        p.extend_from_slice(&rng.below(1 << 44).to_le_bytes());
    }
}

/// the bins of one reference sequence, written by hand (BAI / tabix: id, chunks; CSI: id, loffset, chunks);
/// now and then a second metadata bin or a repeated id
fn put_bins(rng: &mut Rng, p: &mut Vec<u8>, meta_id: u32, csi: bool, hist: &mut Vec<String>) {
    let mut ids: Vec<u32> = vec![];
    for _ in 0..rng.below(5) {
        let id = rng.below(meta_id as u64 - 1) as u32;
        if !ids.contains(&id) {
            ids.push(id);
        }
    }
    if rng.chance(1, 2) {
        ids.insert(rng.below(ids.len() as u64 + 1) as usize, meta_id);
        if rng.chance(1, 12) {
            ids.push(meta_id);
            hist.push("index_gen:second-metadata-bin".into());
        }
    }
    if ids.len() > 1 && ids[0] != meta_id && rng.chance(1, 12) {
        ids.push(ids[0]);
        hist.push("index_gen:repeated-bin".into());
    }
    p.extend_from_slice(&(ids.len() as u32).to_le_bytes());
    for id in ids {
        p.extend_from_slice(&id.to_le_bytes());
        if csi {
            p.extend_from_slice(&rng.below(1 << 40).to_le_bytes());
        }
        if id == meta_id { put_metadata(rng, p) } else { put_chunks(rng, p) }
    }
}

fn put_intervals(rng: &mut Rng, p: &mut Vec<u8>) {
    let n = rng.below(5) as u32;
    p.extend_from_slice(&n.to_le_bytes());
    for _ in 0..n {
        p.extend_from_slice(&rng.below(1 << 40).to_le_bytes());
    }
}

/// the tabix header (also the CSI aux block): format, three columns, meta character, skip, names
fn put_tabix_header(rng: &mut Rng, p: &mut Vec<u8>, hist: &mut Vec<String>) {
    let fmt = *rng.pick(&[0u32, 1, 2, 0x10000, 0x10000, 0]);
    p.extend_from_slice(&fmt.to_le_bytes());
    let (cs, cb) = (1 + rng.below(3) as u32, 2 + rng.below(3) as u32);
    p.extend_from_slice(&cs.to_le_bytes());
    p.extend_from_slice(&cb.to_le_bytes());
    let ce = if fmt == 1 || fmt == 2 { 0 } else if rng.chance(1, 3) { cb } else { cb + 1 };
    p.extend_from_slice(&ce.to_le_bytes());
    p.extend_from_slice(&(*rng.pick(&[b'#', b'@', 0u8]) as u32).to_le_bytes());
    p.extend_from_slice(&(rng.below(3) as u32).to_le_bytes());
    let mut names = vec![];
    if rng.chance(1, 4) {
        // a names block of several hundred bytes: BGZF member boundaries (and short reads) fall inside it
        for i in 0..8 + rng.below(40) {
            names.extend_from_slice(format!("scaffold_{i}_{}", "x".repeat(rng.below(12) as usize)).as_bytes());
            names.push(0);
        }
        hist.push("index_gen:names-long-block".into());
    } else {
        for i in 0..rng.below(4) {
            names.extend_from_slice(format!("sq{i}").as_bytes());
            names.push(0);
        }
    }
    match rng.below(14) {
        0 if !names.is_empty() => {
            names.pop(); // the last NUL gone
            hist.push("index_gen:names-no-nul".into());
        }
        1 if !names.is_empty() => {
            names.extend_from_slice(b"sq0\0");
            hist.push("index_gen:names-duplicate".into());
        }
        _ => {}
    }
    p.extend_from_slice(&(names.len() as u32).to_le_bytes());
    p.extend_from_slice(&names);
}

/// a small index file written by hand (the readers are the subject, not the writers)
fn build_index(k: K, rng: &mut Rng, hist: &mut Vec<String>) -> (Vec<u8>, usize) {
    let mut p = vec![];
    let nref = rng.below(4) as u32;
    let grid;
    match k {
        K::Gzi => {
            let n = rng.below(6);
            p.extend_from_slice(&n.to_le_bytes());
            for _ in 0..2 * n {
                p.extend_from_slice(&rng.below(1 << 40).to_le_bytes());
            }
            return (p, 0);
        }
        K::Bai => {
            p.extend_from_slice(b"BAI\x01");
            p.extend_from_slice(&nref.to_le_bytes());
            grid = 4;
            for _ in 0..nref {
                put_bins(rng, &mut p, 37450, false, hist);
                put_intervals(rng, &mut p);
            }
        }
        K::Tbi => {
            p.extend_from_slice(b"TBI\x01");
            p.extend_from_slice(&nref.to_le_bytes());
            put_tabix_header(rng, &mut p, hist);
            grid = p.len();
            for _ in 0..nref {
                put_bins(rng, &mut p, 37450, false, hist);
                put_intervals(rng, &mut p);
            }
        }
        _ => {
            p.extend_from_slice(b"CSI\x01");
            let (ms, d) = *rng.pick(&[(14u32, 5u32), (14, 5), (12, 4), (10, 6), (0, 5), (14, 11)]);
            p.extend_from_slice(&ms.to_le_bytes());
            p.extend_from_slice(&d.to_le_bytes());
            if rng.chance(1, 2) {
                let mut aux = vec![];
                put_tabix_header(rng, &mut aux, hist);
                // now and then `l_aux` is smaller than the header: the `Take` ends inside it
                let l = if rng.chance(1, 10) { aux.len() - 1 - rng.below(6) as usize } else { aux.len() };
                p.extend_from_slice(&(l as u32).to_le_bytes());
                p.extend_from_slice(&aux);
            } else {
                p.extend_from_slice(&0u32.to_le_bytes());
            }
            grid = p.len();
            p.extend_from_slice(&nref.to_le_bytes());
            let meta = ((1u64 << (3 * (d.min(10) + 1))) / 7 + 1) as u32;
            for _ in 0..nref {
                put_bins(rng, &mut p, meta, true, hist);
            }
        }
    }
    if rng.chance(1, 2) {
        p.extend_from_slice(&rng.below(1000).to_le_bytes()); // n_no_coor
    }
    (p, grid)
}

fn gen_index(k: K, hist: &mut Vec<String>, rng: &mut Rng) -> Option<Input> {
    let wrapped = matches!(k, K::Tbi | K::Csi);
    let (mut p, grid) = build_index(k, rng, hist);
    let signed = k != K::Bai && k != K::Gzi;
    // a third of the damage goes to the words before the grid of counts and offsets (header fields)
    let d = if wrapped && rng.chance(1, 3) { damage_index(rng, &mut p, 4, signed) } else { damage_index(rng, &mut p, grid, signed) };
    hist.push(format!("index_damage:{d}"));
    if wrapped {
        let file = bgzf_wrap(rng, &p);
        let b = bgzf_member_ends(&file);
        Some(Input { data: file, model: p, bounds: b, sizes: vec![] })
    } else {
        let b = (0..p.len()).step_by(4).collect();
        Some(Input::plain(p, b))
    }
}

// ------------------------------------------------------------------------------------------------
// generators: text formats

fn nl(crlf: bool) -> &'static str {
    if crlf { "\r\n" } else { "\n" }
}

fn word(rng: &mut Rng, alphabet: &[u8], lo: u64, hi: u64) -> String {
    (0..rng.range(lo, hi)).map(|_| *rng.pick(alphabet) as char).collect()
}

pub(crate) fn line_ends(t: &[u8]) -> Vec<usize> {
    t.iter().enumerate().filter(|(_, c)| **c == b'\n').map(|(i, _)| i + 1).collect()
}

/// damage that leaves decimal numbers whole (the lazy records show their numeric columns only
/// through the parsers): a byte that is neither a digit nor a sign becomes a structural character
fn damage_text(rng: &mut Rng, t: &mut Vec<u8>, repl: &[u8], digits_too: bool) -> &'static str {
    match rng.below(8) {
        0 if !t.is_empty() => {
            t.truncate(rng.below(t.len() as u64) as usize);
            "cut"
        }
        1 | 2 if !t.is_empty() => {
            for _ in 0..20 {
                let k = rng.below(t.len() as u64) as usize;
                if digits_too || !(t[k].is_ascii_digit() || t[k] == b'-' || t[k] == b'+') {
                    t[k] = *rng.pick(repl);
                    return "byte";
                }
            }
            "valid"
        }
        3 if t.ends_with(b"\n") => {
            t.pop(); // no final newline
            if t.ends_with(b"\r") && rng.chance(1, 2) {
                t.pop();
            }
            "no-final-newline"
        }
        _ => "valid",
    }
}

const SAM_HEADER: &[u8] = b"@SQ\tSN:sq0\tLN:5000\n@SQ\tSN:sq1\tLN:5000\n";

fn gen_sam_lines(rng: &mut Rng) -> Vec<u8> {
    let crlf = rng.chance(1, 3);
    let mut s = String::new();
    for i in 0..rng.below(7) {
        let l = if rng.chance(1, 6) { 0 } else { rng.range(1, 30) };
        let seq = if l == 0 { "*".to_string() } else { word(rng, b"ACGTN", l, l) };
        let qual = if l == 0 || rng.chance(1, 5) { "*".to_string() } else { word(rng, b"!+5?IJ~", l, l) };
        let rname = *rng.pick(&["*", "sq0", "sq1"]);
        let pos = if rname == "*" { 0 } else { rng.range(1, 4000) };
        let cigar = if l == 0 || rname == "*" { "*".to_string() } else { format!("{l}M") };
        s += &format!(
            "r{i}\t{}\t{rname}\t{pos}\t{}\t{cigar}\t{}\t{}\t{}\t{seq}\t{qual}",
            rng.below(4096),
            *rng.pick(&[0u64, 30, 60, 255]),
            *rng.pick(&["*", "=", "sq1"]),
            rng.below(3000),
            rng.below(600) as i64 - 300
        );
        for _ in 0..rng.below(3) {
            s += *rng.pick(&["\tNM:i:1", "\tRG:Z:g0", "\tXS:A:+"]);
        }
        s += nl(crlf);
    }
    s.into_bytes()
}

fn gen_vcf_lines(rng: &mut Rng) -> Vec<u8> {
    let crlf = rng.chance(1, 3);
    let ns = rng.below(3);
    let mut s = String::new();
    for i in 0..rng.below(7) {
        let id = *rng.pick(&[".", "rs1", "rs2;rs3", "r\u{e9}"]);
        let alt = *rng.pick(&[".", "C", "G,T", "<DEL>"]);
        let qual = *rng.pick(&[".", "30", "7", "1000"]);
        let filt = *rng.pick(&[".", "PASS", "q10"]);
        let info = *rng.pick(&[".", "DP=5", "AC=1;AN=2", "NOTE=\u{3b1}\u{3b2}"]);
        s += &format!("sq{}\t{}\t{id}\tA\t{alt}\t{qual}\t{filt}\t{info}", i % 2, if rng.chance(1, 9) { 0 } else { rng.range(1, 4000) });
        if ns > 0 {
            s += "\tGT";
            for _ in 0..ns {
                s += *rng.pick(&["\t0/1", "\t1|1", "\t."]);
            }
        } else if rng.chance(1, 6) {
            s += "\t."; // a missing FORMAT
        }
        s += nl(crlf);
    }
    s.into_bytes()
}

fn gen_gxf_lines(rng: &mut Rng, gtf: bool) -> Vec<u8> {
    let crlf = rng.chance(1, 3);
    let mut s = String::new();
    if !gtf && rng.chance(1, 2) {
        s += "##gff-version 3";
        s += nl(crlf);
    }
    for i in 0..rng.below(8) {
        match rng.below(7) {
            0 => s += *rng.pick(&["", " ", "\t", " \t ", "\x0c"]), // a blank line (skipped by the GFF3 reader)
            1 => s += "# a comment",
            _ => {
                let a = rng.range(1, 900);
                let attrs = if gtf { format!("gene_id \"g{i}\"; transcript_id \"t{i}\";") } else { format!("ID=g{i};Name=n{i}") };
                s += &format!("sq{}\tsrc\tgene\t{a}\t{}\t.\t{}\t.\t{attrs}", i % 2, a + rng.below(100), *rng.pick(&["+", "-", "."]));
            }
        }
        s += nl(crlf);
    }
    s.into_bytes()
}

/// one FASTA sequence block (what follows a definition line), well formed unless damaged
fn gen_seq_block(rng: &mut Rng, crlf: bool) -> String {
    let mut s = String::new();
    let w = rng.range(1, 70);
    for _ in 0..rng.below(6) {
        if rng.chance(1, 6) {
            s += nl(crlf); // an empty line
        }
        s += &word(rng, b"ACGTNacgtn", 1, w);
        s += nl(crlf);
    }
    s
}

fn gen_fasta_text(rng: &mut Rng) -> Vec<u8> {
    let crlf = rng.chance(1, 3);
    let mut s = String::new();
    for i in 0..rng.below(5) {
        s += &format!(">sq{i}{}", *rng.pick(&["", " desc", "  two words ", "\tLN:5 >x"]));
        s += nl(crlf);
        s += &gen_seq_block(rng, crlf);
    }
    s.into_bytes()
}

/// the well-formedness the theorem about `read_sequence` asks for (`wfSeq` of the Lean model): up to
/// the next definition a `>` only follows an LF, a CR is followed by an LF or by nothing
pub(crate) fn wf_seq(mut prev: u8, t: &[u8]) -> (bool, usize) {
    for (i, &c) in t.iter().enumerate() {
        if c == b'>' {
            return (prev == b'\n', i);
        }
        if prev == b'\r' && c != b'\n' {
            return (false, i);
        }
        prev = c;
    }
    (true, t.len())
}

/// every sequence block of a FASTA text is well formed (`wfFasta` of the Lean model)
pub(crate) fn wf_fasta(t: &[u8]) -> bool {
    let mut at = 0;
    while at < t.len() {
        // the definition line
        match t[at..].iter().position(|&c| c == b'\n') {
            None => return true,
            Some(i) => at += i + 1,
        }
        let (ok, n) = wf_seq(b'\n', &t[at..]);
        if !ok {
            return false;
        }
        at += n;
    }
    true
}

fn gen_fai_text(rng: &mut Rng) -> Vec<u8> {
    let crlf = rng.chance(1, 3);
    let mut s = String::new();
    for i in 0..rng.below(7) {
        let lb = rng.range(1, 80);
        s += &format!("sq{i}\t{}\t{}\t{lb}\t{}{}", rng.below(100_000), rng.below(1 << 30), lb + 1, nl(crlf));
    }
    s.into_bytes()
}

fn gen_crai_text(rng: &mut Rng) -> Vec<u8> {
    let mut s = String::new();
    for _ in 0..rng.below(7) {
        let rid = rng.below(4) as i64 - 1;
        s += &format!("{rid}\t{}\t{}\t{}\t{}\t{}\n", rng.below(5000), rng.below(3000), rng.below(1 << 30), rng.below(1 << 16), rng.below(1 << 20));
    }
    s.into_bytes()
}

pub(crate) fn gzip(rng: &mut Rng, text: &[u8]) -> Vec<u8> {
    let mut e = flate2::write::GzEncoder::new(Vec::new(), flate2::Compression::new(rng.below(7) as u32));
    e.write_all(text).unwrap();
    e.finish().unwrap()
}

pub(crate) fn gen_input(k: K, hist: &mut Vec<String>, rng: &mut Rng) -> Option<Input> {
    const STRUCT: &[u8] = b"\t\n\rx*@>#= ";
    match k {
        K::BamV => Some(gen_bamv(rng)),
        K::Bcf => gen_bcf(rng),
        K::Cram => gen_cram(hist, rng),
        K::Bai | K::Tbi | K::Csi | K::Gzi => gen_index(k, hist, rng),
        K::SamRec | K::SamLine => {
            let mut t = gen_sam_lines(rng);
            hist.push(format!("text_damage:{}", damage_text(rng, &mut t, STRUCT, k == K::SamLine)));
            let b = line_ends(&t);
            Some(Input::plain(t, b))
        }
        K::VcfRec | K::VcfLine => {
            let mut t = gen_vcf_lines(rng);
            let repl: &[u8] = if rng.chance(1, 4) { b"\xff\xc3\xa9" } else { STRUCT };
            hist.push(format!("text_damage:{}", damage_text(rng, &mut t, repl, k == K::VcfLine)));
            let b = line_ends(&t);
            Some(Input::plain(t, b))
        }
        K::Gff | K::Gtf => {
            let mut t = gen_gxf_lines(rng, k == K::Gtf);
            hist.push(format!("text_damage:{}", damage_text(rng, &mut t, b"\t\n\r #x\x0c", true)));
            let b = line_ends(&t);
            Some(Input::plain(t, b))
        }
        K::Fai => {
            let mut t = gen_fai_text(rng);
            hist.push(format!("text_damage:{}", damage_text(rng, &mut t, b"\t\n\rx-\xff0", true)));
            let b = line_ends(&t);
            Some(Input::plain(t, b))
        }
        K::Crai => {
            let mut t = gen_crai_text(rng);
            hist.push(format!("text_damage:{}", damage_text(rng, &mut t, b"\t\n\rx-\xff0", true)));
            let gz = gzip(rng, &t);
            let b = vec![10, gz.len().saturating_sub(8)];
            Some(Input { data: gz, model: t, bounds: b, sizes: vec![] })
        }
        K::FaSeq => {
            let crlf = rng.chance(1, 3);
            let mut t = gen_seq_block(rng, crlf).into_bytes();
            if rng.chance(1, 2) {
                t.extend_from_slice(b">next\nAC\n");
            }
            // MALFORMED sequence lines on purpose in a third of the cases: a `>` or a bare CR inside a line
            let d = if rng.chance(1, 3) { damage_text(rng, &mut t, b">\r\nx", true) } else { "valid" };
            hist.push(format!("text_damage:{d}"));
            let sizes = match rng.below(3) {
                0 => vec![],
                1 => vec![32],
                _ => (0..rng.below(12)).map(|_| 1 + rng.below(9) as usize).collect(),
            };
            let b = line_ends(&t);
            Some(Input { model: t.clone(), data: t, bounds: b, sizes })
        }
        K::Fasta => {
            let mut t = gen_fasta_text(rng);
            hist.push(format!("text_damage:{}", damage_text(rng, &mut t, b">\r\nx \t", true)));
            let b = line_ends(&t);
            Some(Input::plain(t, b))
        }
    }
}

// ------------------------------------------------------------------------------------------------
// index descriptions (the format of suite c17, `Noodles/Index/Driver.lean`)

fn d_bins(b: &IndexMap<usize, Bin>) -> String {
    or_dash(b.iter().map(|(id, bin)| format!("{}={}", id, fmt_chunks(bin.chunks()))).collect(), "+")
}
fn d_md(m: Option<&Metadata>) -> String {
    match m {
        None => "-".into(),
        Some(m) => format!("{}:{}:{}:{}", u64::from(m.start_position()), u64::from(m.end_position()), m.mapped_record_count(), m.unmapped_record_count()),
    }
}
fn d_reflin(r: &ReferenceSequence<LinearIndex>) -> String {
    let lin = or_dash(r.index().iter().map(|v| u64::from(*v).to_string()).collect(), ",");
    format!("{}|{}|{}", d_bins(r.bins()), d_md(r.metadata()), lin)
}
fn d_refcsi(r: &ReferenceSequence<BinnedIndex>) -> String {
    let ix = or_dash(r.index().iter().map(|(k, v)| format!("{}:{}", k, u64::from(*v))).collect(), ",");
    format!("{}|{}|{}", d_bins(r.bins()), d_md(r.metadata()), ix)
}
fn d_opt(n: Option<u64>) -> String {
    n.map(|n| n.to_string()).unwrap_or_else(|| "-".into())
}
fn d_header(h: Option<&Header>) -> String {
    let Some(h) = h else { return "-".into() };
    let f = match h.format() {
        Format::Generic(CoordinateSystem::Gff) => "g0",
        Format::Generic(CoordinateSystem::Bed) => "g1",
        Format::Sam => "s",
        Format::Vcf => "v",
    };
    let names = or_dash(h.reference_sequence_names().iter().map(|n| if n.is_empty() { "_".into() } else { hex(n.as_ref()) }).collect(), ".");
    format!(
        "{},{},{},{},{},{},{}",
        f,
        h.reference_sequence_name_index(),
        h.start_position_index(),
        d_opt(h.end_position_index().map(|n| n as u64)),
        h.line_comment_prefix(),
        h.line_skip_count(),
        names
    )
}
fn d_bai(ix: &binning_index::Index<LinearIndex>) -> String {
    let refs = or_dash(ix.reference_sequences().iter().map(d_reflin).collect(), ";");
    format!("{}/{}", refs, d_opt(ix.unplaced_unmapped_record_count()))
}
fn d_csi(ix: &binning_index::Index<BinnedIndex>) -> String {
    let refs = or_dash(ix.reference_sequences().iter().map(d_refcsi).collect(), ";");
    format!("{},{}/{}/{}/{}", ix.min_shift(), ix.depth(), d_header(ix.header()), refs, d_opt(ix.unplaced_unmapped_record_count()))
}

// ------------------------------------------------------------------------------------------------
// the real readers

fn end_of(e: &io::Error) -> String {
    errclass(e).to_string()
}

/// `record loop` helper: items until `Ok(0)` or the first error
fn rec_loop(mut step: impl FnMut() -> io::Result<Option<String>>) -> (Vec<String>, String) {
    let mut recs = vec![];
    loop {
        match step() {
            Ok(None) => return (recs, "eof".into()),
            Ok(Some(s)) => recs.push(s),
            Err(e) => return (recs, end_of(&e)),
        }
        if recs.len() > 5000 {
            return (recs, "too-many".into());
        }
    }
}

fn opt_pos(p: Option<io::Result<noodles_core::Position>>) -> String {
    match p {
        None => dec(0),
        Some(Ok(p)) => dec(usize::from(p)),
        Some(Err(_)) => "?".into(),
    }
}

fn sam_rec_str(n: usize, rec: &sam::Record) -> String {
    guarded(|| {
        let star = |x: Option<&bstr::BStr>| hex(x.map(|b| b.as_ref()).unwrap_or(b"*"));
        let mapq = match rec.mapping_quality() {
            None => dec(255),
            Some(Ok(q)) => dec(q.get()),
            Some(Err(_)) => "?".into(),
        };
        format!(
            "{n}:{}:{}:{}:{}:{}:{}:{}:{}:{}:{}:{}:{}",
            star(rec.name()),
            rec.flags().map(|f| dec(f.bits())).unwrap_or("?".into()),
            star(rec.reference_sequence_name()),
            opt_pos(rec.alignment_start()),
            mapq,
            hex(rec.cigar().as_ref()),
            star(rec.mate_reference_sequence_name()),
            opt_pos(rec.mate_alignment_start()),
            rec.template_length().map(dec).unwrap_or("?".into()),
            hex(rec.sequence().as_ref()),
            hex(rec.quality_scores().as_ref()),
            hex(rec.data().as_ref())
        )
    })
    .unwrap_or_else(|_| format!("{n}:panic"))
}

fn vcf_rec_str(n: usize, rec: &vcf::Record) -> String {
    guarded(|| {
        let qual = match rec.quality_score() {
            None => hex(b"."),
            Some(Ok(v)) if v >= 0.0 && v < 10000.0 && v.fract() == 0.0 => dec(v as u32),
            _ => "?".into(),
        };
        format!(
            "{n}:{}:{}:{}:{}:{}:{}:{}:{}:{}",
            hex(rec.reference_sequence_name().as_bytes()),
            opt_pos(rec.variant_start()),
            hex(rec.ids().as_ref().as_bytes()),
            hex(rec.reference_bases().as_bytes()),
            hex(rec.alternate_bases().as_ref().as_bytes()),
            qual,
            hex(rec.filters().as_ref().as_bytes()),
            hex(rec.info().as_ref().as_bytes()),
            hex(rec.samples().as_ref().as_bytes())
        )
    })
    .unwrap_or_else(|_| format!("{n}:panic"))
}

fn token<T: std::fmt::Debug>(x: &T) -> String {
    format!("{:x}", fnv(format!("{x:?}").as_bytes()))
}

fn sam_header() -> sam::Header {
    sam::io::Reader::new(SAM_HEADER).read_header().unwrap()
}

/// what the real parser behind a "one line, then parse it" reader answers for one line, obtained
/// from the real reader on that line alone
fn line_token(k: K, line: &[u8]) -> String {
    // the line alone, without a line ending (an LF after it would make the reader strip a CR the
    // line ends with); the empty line needs its LF to be a line at all
    let l = if line.is_empty() { b"\n".to_vec() } else { line.to_vec() };
    let r: io::Result<String> = match k {
        K::SamLine => {
            let h = sam_header();
            let mut rec = sam::alignment::RecordBuf::default();
            sam::io::Reader::new(&l[..]).read_record_buf(&h, &mut rec).map(|_| token(&rec))
        }
        K::VcfLine => {
            let h = vcf::Header::default();
            let mut rec = vcf::variant::RecordBuf::default();
            vcf::io::Reader::new(&l[..]).read_record_buf(&h, &mut rec).map(|_| token(&rec))
        }
        K::Fai => fasta::fai::io::Reader::new(&l[..]).read_index().map(|ix| token(&ix.as_ref().first().cloned())),
        _ => {
            let gz = gzip(&mut Rng::new(1), &l);
            let mut rec = cram::crai::Record::default();
            cram::crai::io::Reader::new(&gz[..]).read_record(&mut rec).map(|_| token(&rec))
        }
    };
    match r {
        Ok(t) => t,
        Err(e) => end_of(&e),
    }
}

/// the lines of a text as `read_line` splits them (at LF, one CR before it stripped), each with the
/// real parser's answer — the `table` word of the `lines` request
fn line_table(k: K, text: &[u8]) -> String {
    let mut seen = std::collections::BTreeMap::new();
    for raw in text.split_inclusive(|&c| c == b'\n') {
        let mut l = raw;
        if l.ends_with(b"\n") {
            l = &l[..l.len() - 1];
            if l.ends_with(b"\r") {
                l = &l[..l.len() - 1];
            }
        }
        // readers that go through `BufRead::read_line(&mut String)` never show the parser a line that is not UTF-8
        if std::str::from_utf8(l).is_ok() || k == K::SamLine || k == K::Fai {
            seen.entry(l.to_vec()).or_insert_with(|| guarded(|| line_token(k, l)).unwrap_or("panic".into()));
        }
    }
    or_dash(seen.iter().map(|(l, t)| format!("{}:{t}", hex(l))).collect(), ",")
}

/// the REAL reader of kind `k` over `inp.data` delivered by (`sched`, `cap`); the canonical answer line
pub(crate) fn real(k: K, inp: &Input, sched: Vec<Delivery>, cap: Option<usize>) -> String {
    let data = &inp.data;
    let bcap = cap.unwrap_or(8192);
    let res = guarded(|| match k {
        K::BamV => {
            let mut r = bam::io::Reader::from(Src2::new(data, sched, cap));
            let mut rec = bam::Record::default();
            let (recs, end) = rec_loop(|| Ok(match r.read_record(&mut rec)? {
                0 => None,
                n => Some(format!("{n}:{}", hex(rec.name().map(|n| n.to_vec()).unwrap_or(b"*".to_vec()).as_slice()))),
            }));
            format!("recs={} end={end}@{}", or_dash(recs, ","), r.get_ref().pos())
        }
        K::Bcf => {
            let mut r = bcf::io::Reader::from(Src2::new(data, sched, cap));
            let mut rec = bcf::Record::default();
            let (recs, end) = rec_loop(|| Ok(match r.read_record(&mut rec)? {
                0 => None,
                n => Some(guarded(|| format!("{n}:{}:{}:{}", hex(rec.ids().as_ref()), hex(rec.info().as_ref()), rec.samples().map(|s| hex(s.as_ref())).unwrap_or("?".into()))).unwrap_or(format!("{n}:panic"))),
            }));
            format!("recs={} end={end}@{}", or_dash(recs, ","), r.get_ref().pos())
        }
        K::Cram => {
            let mut r = cram::io::Reader::new(Src2::new(data, sched, cap));
            match r.read_file_definition() {
                Err(e) => format!("def=- conts=- end={}@{}", end_of(&e), r.get_ref().pos()),
                Ok(d) => {
                    let mut id = vec![d.version().major(), d.version().minor()];
                    id.extend_from_slice(d.file_id());
                    let mut c = cram::io::reader::Container::default();
                    let (recs, end) = rec_loop(|| Ok(match r.read_container(&mut c)? {
                        0 => None,
                        n => {
                            let h = c.header();
                            // the enum is not nameable from outside the crate: go through `Debug`
                            // (`None`, `Many`, `Some(Context { reference_sequence_id: 2, alignment_start: Position(3), alignment_end: Position(7) })`)
                            let dbg = format!("{:?}", h.reference_sequence_context());
                            let ctx = if dbg == "None" {
                                "none".to_string()
                            } else if dbg == "Many" {
                                "many".to_string()
                            } else {
                                let nums: Vec<String> = dbg.split(|c: char| !c.is_ascii_digit()).filter(|x| !x.is_empty()).map(|x| x.to_string()).collect();
                                nums.join("/")
                            };
                            Some(format!("{n}:{ctx}:{}:{}:{}:{}:{}", h.record_count(), h.record_counter(), h.base_count(), h.block_count(), or_dash(h.landmarks().iter().map(|x| x.to_string()).collect(), "/")))
                        }
                    }));
                    format!("def={} conts={} end={end}@{}", hex(&id), or_dash(recs, ","), r.get_ref().pos())
                }
            }
        }
        K::Bai => {
            let mut r = bam::bai::io::Reader::new(Src2::new(data, sched, cap));
            match r.read_index() {
                Ok(ix) => format!("ok {} @{}", d_bai(&ix), r.get_ref().pos()),
                Err(e) => end_of(&e),
            }
        }
        K::Gzi => {
            let mut r = bgzf::gzi::io::Reader::new(Src2::new(data, sched, cap));
            match r.read_index() {
                Ok(ix) => format!("ok {} @{}", or_dash(ix.as_ref().iter().map(|(a, b)| format!("{a}:{b}")).collect(), ","), r.get_ref().pos()),
                Err(e) => end_of(&e),
            }
        }
        K::Tbi => match tabix::io::Reader::new(Src2::new(data, sched, cap)).read_index() {
            Ok(ix) => format!("ok {}/{}", d_header(ix.header()), d_bai(&ix)),
            Err(e) => end_of(&e),
        },
        K::Csi => match csi::io::Reader::new(Src2::new(data, sched, cap)).read_index() {
            Ok(ix) => format!("ok {}", d_csi(&ix)),
            Err(e) => end_of(&e),
        },
        K::SamRec => {
            let mut r = sam::io::Reader::new(bufsrc(data, sched, bcap));
            let mut rec = sam::Record::default();
            let (recs, end) = rec_loop(|| Ok(match r.read_record(&mut rec)? {
                0 => None,
                n => Some(sam_rec_str(n, &rec)),
            }));
            format!("recs={} end={end}@{}", or_dash(recs, ","), bufpos(r.get_ref()))
        }
        K::VcfRec => {
            let mut r = vcf::io::Reader::new(bufsrc(data, sched, bcap));
            let mut rec = vcf::Record::default();
            let (recs, end) = rec_loop(|| Ok(match r.read_record(&mut rec)? {
                0 => None,
                n => Some(vcf_rec_str(n, &rec)),
            }));
            format!("recs={} end={end}@{}", or_dash(recs, ","), bufpos(r.get_ref()))
        }
        K::SamLine => {
            let h = sam_header();
            let mut r = sam::io::Reader::new(bufsrc(data, sched, bcap));
            let mut rec = sam::alignment::RecordBuf::default();
            let (recs, end) = rec_loop(|| Ok(match r.read_record_buf(&h, &mut rec)? {
                0 => None,
                n => Some(format!("{n}:{}", token(&rec))),
            }));
            format!("recs={} end={end}@{}", or_dash(recs, ","), bufpos(r.get_ref()))
        }
        K::VcfLine => {
            let h = vcf::Header::default();
            let mut r = vcf::io::Reader::new(bufsrc(data, sched, bcap));
            let mut rec = vcf::variant::RecordBuf::default();
            let (recs, end) = rec_loop(|| Ok(match r.read_record_buf(&h, &mut rec)? {
                0 => None,
                n => Some(format!("{n}:{}", token(&rec))),
            }));
            format!("recs={} end={end}@{}", or_dash(recs, ","), bufpos(r.get_ref()))
        }
        K::Fai => {
            let mut r = fasta::fai::io::Reader::new(bufsrc(data, sched, bcap));
            match r.read_index() {
                Ok(ix) => format!("recs={} end=eof@{}", or_dash(ix.as_ref().iter().map(|x| token(&Some(x.clone()))).collect(), ","), bufpos(r.get_ref())),
                Err(e) => format!("recs=- end={}", end_of(&e)),
            }
        }
        K::Crai => {
            let mut r = cram::crai::io::Reader::new(Src2::new(data, sched, cap));
            let mut rec = cram::crai::Record::default();
            let (recs, end) = rec_loop(|| Ok(match r.read_record(&mut rec)? {
                0 => None,
                n => Some(format!("{n}:{}", token(&rec))),
            }));
            format!("recs={} end={end}", or_dash(recs, ","))
        }
        K::Gff => {
            let mut r = gff::io::Reader::new(bufsrc(data, sched, bcap));
            let mut line = gff::Line::default();
            let (recs, end) = rec_loop(|| Ok(match r.read_line(&mut line)? {
                0 => None,
                n => Some(format!("{n}:{}", hex(line.as_ref()))),
            }));
            format!("recs={} end={end}@{}", or_dash(recs, ","), bufpos(r.get_ref()))
        }
        K::Gtf => {
            let mut r = gtf::io::Reader::new(bufsrc(data, sched, bcap));
            let mut line = gtf::Line::default();
            let (recs, end) = rec_loop(|| Ok(match r.read_line(&mut line)? {
                0 => None,
                n => Some(format!("{n}:{}", hex(line.as_ref()))),
            }));
            format!("recs={} end={end}@{}", or_dash(recs, ","), bufpos(r.get_ref()))
        }
        K::FaSeq => {
            // `sequence_reader()` driven by hand: `fill_buf`, take `min(size, window)` bytes, `consume`
            let mut r = fasta::io::Reader::new(bufsrc(data, sched, bcap));
            let mut out = vec![];
            let mut end = "ok".to_string();
            {
                let mut sr = r.sequence_reader();
                let mut i = 0;
                let mut guard = 0;
                loop {
                    guard += 1;
                    if guard > 200_000 {
                        end = "livelock".into();
                        break;
                    }
                    match sr.fill_buf() {
                        Ok(w) => {
                            if w.is_empty() {
                                break;
                            }
                            let amt = inp.sizes.get(i).map(|&s| s.max(1).min(w.len())).unwrap_or(w.len());
                            out.extend_from_slice(&w[..amt]);
                            sr.consume(amt);
                            i += 1;
                        }
                        Err(e) if e.kind() == io::ErrorKind::Interrupted => continue,
                        Err(e) => {
                            end = end_of(&e);
                            break;
                        }
                    }
                }
            }
            format!("seq={} end={end}@{}", hex(&out), bufpos(r.get_ref()))
        }
        K::Fasta => {
            let mut r = fasta::io::Reader::new(bufsrc(data, sched, bcap));
            let mut recs = vec![];
            let mut end = "eof".to_string();
            for x in r.records() {
                match x {
                    Ok(rec) => recs.push(format!("{}:{}:{}", hex(rec.name()), hex(rec.description().map(|d| d.as_ref()).unwrap_or(b"")), hex(rec.sequence().as_ref()))),
                    Err(e) => {
                        end = end_of(&e);
                        break;
                    }
                }
            }
            format!("recs={} end={end}@{}", or_dash(recs, ","), bufpos(r.get_ref()))
        }
    });
    res.unwrap_or_else(|p| format!("panic:{p}"))
}

/// `read_sequence` (std `read_to_end` over the sequence reader) on a sequence block
fn real_read_sequence(data: &[u8], sched: Vec<Delivery>, cap: usize) -> String {
    guarded(|| {
        let mut r = fasta::io::Reader::new(bufsrc(data, sched, cap));
        let mut out = vec![];
        match r.read_sequence(&mut out) {
            Ok(_) => format!("seq={} end=ok@{}", hex(&out), bufpos(r.get_ref())),
            Err(e) => format!("seq=- end={}@{}", end_of(&e), bufpos(r.get_ref())),
        }
    })
    .unwrap_or_else(|p| format!("panic:{p}"))
}

// ------------------------------------------------------------------------------------------------
// cases

fn fmt_sched(sched: &[Delivery]) -> String {
    let mut toks: Vec<String> = vec![];
    let mut i = 0;
    while i < sched.len() {
        let mut j = i;
        while j < sched.len() && sched[j] == sched[i] {
            j += 1;
        }
        let t = match sched[i] {
            Delivery::Chunk(n) => format!("c{}", n.max(1)),
            Delivery::Interrupted => "i".to_string(),
        };
        toks.push(if j - i > 1 { format!("{t}*{}", j - i) } else { t });
        i = j;
    }
    if toks.is_empty() { "-".into() } else { toks.join(",") }
}

fn explicit(sched: &[Delivery], fallback: usize, len: usize) -> Vec<Delivery> {
    let mut v = sched.to_vec();
    if fallback != usize::MAX {
        v.extend(std::iter::repeat(Delivery::Chunk(fallback)).take(2 * len + 64));
    }
    v
}

/// the request line for the Lean model; `sched` is the explicit schedule the real reader saw. For the
/// readers behind a decompressor the model gets the payload and the schedule cut to its length (the
/// model's answer does not depend on it: that is the theorem)
pub(crate) fn request(k: K, inp: &Input, sched: &[Delivery], cap: Option<usize>) -> String {
    let m = hex(&inp.model);
    let sc = if inp.model.len() == inp.data.len() { fmt_sched(sched) } else { fmt_sched(&sched[..sched.len().min(inp.model.len() + 8)]) };
    let c = cap.unwrap_or(8192);
    match k {
        K::BamV | K::Bcf | K::Cram | K::Bai | K::Tbi | K::Csi | K::Gzi => format!("c12 {} {m} {sc}", k.name()),
        K::SamRec | K::VcfRec | K::Gff | K::Gtf | K::Fasta => format!("c12 {} {m} {sc} {c}", k.name()),
        K::SamLine => format!("c12 lines each 0 {} {m} {sc} {c}", line_table(k, &inp.model)),
        K::VcfLine => format!("c12 lines each 1 {} {m} {sc} {c}", line_table(k, &inp.model)),
        K::Fai => format!("c12 lines index 0 {} {m} {sc} {c}", line_table(k, &inp.model)),
        K::Crai => format!("c12 lines nopos 1 {} {m} {sc} 8192", line_table(k, &inp.model)),
        K::FaSeq => format!("c12 faseq {} {m} {sc} {c}", or_dash(inp.sizes.iter().map(|x| x.to_string()).collect(), ",")),
    }
}

pub(crate) fn count_items(ans: &str) -> usize {
    ans.split(' ').find_map(|w| w.strip_prefix("recs=").or(w.strip_prefix("conts="))).map(|r| if r == "-" { 0 } else { r.split(',').count() }).unwrap_or(0)
}

#[allow(clippy::too_many_arguments)]
fn check(ctx: &mut Ctx, k: K, inp: &Input, sched: &[Delivery], fallback: usize, sname: &str, cap: Option<usize>, case: String, emit_corr: bool) {
    let ex = explicit(sched, fallback, inp.data.len());
    let plain = real(k, inp, vec![], if k.buffered() { Some(inp.data.len().max(1) + 8) } else { None });
    let got = real(k, inp, ex.clone(), cap);
    let end = plain.rsplit("end=").next().unwrap_or("?").split('@').next().unwrap_or("?").to_string();
    let end = if plain.starts_with("ok ") { "ok".to_string() } else if plain.starts_with("err:") { plain.clone() } else { end };
    let nontrivial = !plain.contains("err") && !sched.is_empty() && (count_items(&plain) >= 2 || plain.starts_with("ok ") || (k == K::FaSeq && plain.len() > 30));
    ctx.eval(if nontrivial { Some(fnv(case.as_bytes())) } else { None });
    ctx.bump(&format!("more:{}", k.name()));
    ctx.bump(&format!("more_schedule:{sname}"));
    ctx.bump(&format!("more_end:{}:{end}", k.name()));
    ctx.bump(&format!("more_cap:{}", cap.map(|c| c.to_string()).unwrap_or("unbuffered".into())));
    ctx.bump(&format!("more_items:{}", match count_items(&plain) { 0 => "0", 1 => "1", 2..=4 => "2-4", _ => "5+" }));
    ctx.bump(&format!("more_size:{}", match inp.data.len() { 0 => "0", 1..=63 => "1-63", 64..=511 => "64-511", 512..=4095 => "512-4095", _ => "4096+" }));
    if plain.contains(":panic") {
        ctx.bump(&format!("more_accessor_panics:{}", k.name()));
    }
    if plain.starts_with("panic") {
        ctx.bump(&format!("plain_run_panics:more-{}", k.name()));
        return;
    }
    // the FASTA sequence reader on MALFORMED lines is chunk-dependent by design of the code (known
    // finding F33-C12): such inputs go to the correspondence (the model reproduces the dependence)
    // but the oracle reports them under the class of the known finding
    let malformed_fasta = (k == K::FaSeq && !wf_seq(b'\n', &inp.data).0) || (k == K::Fasta && !wf_fasta(&inp.data));
    if got != plain && !(malformed_fasta && !got.starts_with("panic") && !got.contains("err:interrupted")) {
        let class = if got.starts_with("panic") {
            "panic-under-schedule"
        } else if got.contains("err:interrupted") {
            "interrupted-surfaced"
        } else {
            "chunk-dependent"
        };
        let cut = |s: &str| if s.len() > 300 { format!("{}…", &s[..300]) } else { s.to_string() };
        ctx.fail(
            &format!("{class}:{}", k.class()),
            format!("{} over {} bytes, schedule={sname} cap={cap:?}: plain delivery gives [{}], scheduled source gives [{}]", k.name(), inp.data.len(), cut(&plain), cut(&got)),
            case,
        );
        return;
    }
    if got != plain {
        ctx.bump(&format!("more_malformed_fasta_chunk_dependent:{}", k.name()));
    }
    if !emit_corr {
        return;
    }
    if k == K::Fasta && malformed_fasta {
        // `read_sequence` goes through std's `read_to_end`, whose buffer sizes the model does not
        // know; on malformed lines they matter (that is the finding), so there is no model answer
        ctx.bump("more_corr_skipped:fasta-records-malformed");
        return;
    }
    if (k == K::SamRec || k == K::VcfRec) && inp.data.iter().any(|&c| c == b'+') && got.contains('?') {
        // a `+` may have reached a numeric column: `lexical_core` / `str::parse` accept a sign the
        // canonical view of the model does not try to reproduce
        let plus_numeric = inp.data.split(|&c| c == b'\t' || c == b'\n').any(|f| f.len() > 1 && f[0] == b'+' && f[1..].iter().all(|c| c.is_ascii_digit()));
        if plus_numeric {
            ctx.bump("more_corr_skipped:signed-number");
            return;
        }
    }
    let req = request(k, inp, &ex, cap);
    ctx.sample(|| if req.len() < 380 { req.clone() } else { String::new() });
    ctx.corr(req, got.clone());
    if k == K::FaSeq && !malformed_fasta {
        // well-formed block: `read_sequence` itself (std's `read_to_end` sizes) against the model with
        // no size limits — equal by the theorem `readSequence_refines`
        let rs = real_read_sequence(&inp.data, ex.clone(), cap.unwrap_or(8192));
        ctx.bump("more:faseq-read_to_end");
        let unlimited = Input { data: inp.data.clone(), model: inp.model.clone(), bounds: vec![], sizes: vec![] };
        ctx.corr(request(k, &unlimited, &ex, cap), rs);
    }
}

fn case_of(ctx: &mut Ctx, k: K, sub: u64, kind: usize, cap_sel: usize, emit_corr: bool) {
    let mut rng = Rng::new(sub);
    let mut hist = vec![];
    let Some(inp) = guarded(|| gen_input(k, &mut hist, &mut rng)).ok().flatten() else {
        ctx.bump(&format!("gen_rejected:more-{}", k.name()));
        return;
    };
    if kind == 0 {
        for h in &hist {
            ctx.bump(&format!("more_gen:{h}"));
        }
    }
    let mut prng = Rng::new(sub.wrapping_mul(31).wrapping_add(kind as u64 * 8 + cap_sel as u64));
    let (sched, fallback, sname) = schedule(&mut prng, kind, inp.data.len(), &inp.bounds);
    // readers that only want `Read`: directly over the scheduled source, or (every other capacity
    // selector) behind a `BufReader` as well
    let cap = if k.buffered() || cap_sel % 2 == 1 { Some(CAPS[cap_sel % 7]) } else { None };
    let case = format!("more {} {sub} {kind} {cap_sel}", k.name());
    check(ctx, k, &inp, &sched, fallback, &sname, cap, case, emit_corr);
}

pub fn suite(ctx: &mut Ctx) {
    let n = ctx.n(24, 400);
    for (ki, k) in KINDS.into_iter().enumerate() {
        for it in 0..n {
            let sub = ctx.seed.wrapping_mul(3_000_017).wrapping_add(ki as u64 * 1_000_000 + it);
            for kind in 0..7 {
                let cap_sel = ctx.rng.below(7) as usize;
                case_of(ctx, k, sub, kind, cap_sel, true);
            }
        }
    }
}

// ------------------------------------------------------------------------------------------------
// hand-written boundary cases, always run first (index = replay id)

pub(crate) fn corpus_cases() -> Vec<(K, Input, Vec<Delivery>, usize, Option<usize>)> {
    use Delivery::{Chunk as C, Interrupted as I};
    let t = |k: K, s: &[u8], sched: Vec<Delivery>, fb: usize, cap: usize| (k, Input::plain(s.to_vec(), line_ends(s)), sched, fb, Some(cap));
    let mut v = vec![];
    // --- BAM / BCF: the length prefix split 1+3, a body delivered in dribbles, declared sizes beyond the stream
    let mut rec = vec![0u8; 38];
    rec[0] = 34;
    rec[4 + 8] = 2;
    rec[4 + 32] = b'r';
    let mut two = rec.clone();
    two.extend_from_slice(&rec);
    v.push((K::BamV, Input::plain(two.clone(), vec![4, 38, 42]), vec![C(1), I, C(3), C(33), I, C(1), C(3), I, C(1)], usize::MAX, None));
    v.push((K::BamV, Input::plain(two.clone(), vec![]), vec![], 1, Some(1)));
    v.push((K::BamV, Input::plain(rec[..20].to_vec(), vec![]), vec![I, C(5)], usize::MAX, None));
    let mut big = vec![0xf0, 0xff, 0xff, 0x7f];
    big.extend_from_slice(&rec[4..]);
    v.push((K::BamV, Input::plain(big, vec![]), vec![C(4), I, C(7)], 3, None));
    // one minimal BCF record: l_shared 28 (24 fixed bytes, ID `.`, REF `A`, no FILTER), l_indiv 0; n_allele 1
    let mut site = vec![0u8; 24];
    site[18] = 1;
    site.extend_from_slice(&[0x07, 0x17, b'A', 0x00]);
    let mut bcf1 = (site.len() as u32).to_le_bytes().to_vec();
    bcf1.extend_from_slice(&3u32.to_le_bytes());
    bcf1.extend_from_slice(&site);
    bcf1.extend_from_slice(&[9, 8, 7]);
    let mut bcf2 = bcf1.clone();
    bcf2.extend_from_slice(&bcf1);
    v.push((K::Bcf, Input::plain(bcf2.clone(), vec![4, 8, 36]), vec![C(1), I, C(3), I, C(2), C(2), I, C(27), C(1), C(2), C(1)], usize::MAX, None));
    v.push((K::Bcf, Input::plain(bcf2.clone(), vec![]), vec![], 1, Some(2)));
    v.push((K::Bcf, Input::plain(bcf2[..bcf1.len() + 6].to_vec(), vec![]), vec![I], 5, None));
    v.push((K::Bcf, Input::plain(bcf1[..bcf1.len() - 1].to_vec(), vec![]), vec![], 2, None));
    let mut zero = bcf1.clone();
    zero.extend_from_slice(&[0, 0, 0, 0, 1, 2]);
    v.push((K::Bcf, Input::plain(zero, vec![]), vec![C(3)], usize::MAX, Some(3)));
    v.push((K::Bcf, Input::plain(vec![], vec![]), vec![I, I], usize::MAX, None));
    let mut huge = bcf1.clone();
    huge[4..8].copy_from_slice(&0xffff_fff0u32.to_le_bytes());
    v.push((K::Bcf, Input::plain(huge, vec![]), vec![], 7, None));
    // --- CRAM: definition + EOF container only; a container with 5-byte ITF8 / 9-byte LTF8 fields; length 0
    let mut f = b"CRAM\x03\x00".to_vec();
    f.extend_from_slice(&[7u8; 20]);
    let mut eof_only = f.clone();
    eof_only.extend_from_slice(&CRAM_EOF);
    v.push((K::Cram, Input::plain(eof_only.clone(), vec![4, 6, 26, 30]), vec![C(3), I, C(1), C(2), I, C(20), C(4), C(1), C(4), I], 1, None));
    let mut h = 5u32.to_le_bytes().to_vec();
    h.extend(itf8(3, 5));
    h.extend(itf8(1_000_000, 4));
    h.extend(itf8(70_000, 3));
    h.extend(itf8(300, 2));
    h.extend(ltf8(1 << 60, 9));
    h.extend(ltf8(1 << 50, 8));
    h.extend(itf8(2, 1));
    h.extend(itf8(2, 1));
    h.extend(itf8(0, 1));
    h.extend(itf8(3, 1));
    let c = crc32(&h);
    h.extend_from_slice(&c.to_le_bytes());
    h.extend_from_slice(b"BODY!");
    let mut one = f.clone();
    one.extend_from_slice(&h);
    one.extend_from_slice(&CRAM_EOF);
    v.push((K::Cram, Input::plain(one.clone(), vec![26, 30]), vec![], 1, Some(1)));
    v.push((K::Cram, Input::plain(one.clone(), vec![26, 30]), vec![I, C(27), I, C(4), C(1), I, C(4)], 2, None));
    v.push((K::Cram, Input::plain(one[..one.len() - 40].to_vec(), vec![]), vec![], 3, None)); // body cut
    v.push((K::Cram, Input::plain(one[..f.len() + 9].to_vec(), vec![]), vec![I], 1, None)); // header cut inside an ITF8
    let mut z = f.clone();
    let mut zh = 0u32.to_le_bytes().to_vec();
    zh.extend(itf8(-2, 5));
    zh.extend([0, 0, 0, 0, 0, 1, 0]);
    let c = crc32(&zh);
    zh.extend_from_slice(&c.to_le_bytes());
    z.extend_from_slice(&zh);
    z.extend_from_slice(b"never read");
    v.push((K::Cram, Input::plain(z, vec![]), vec![], 2, None)); // length 0: end of stream
    v.push((K::Cram, Input::plain(b"CRAX\x03\x00".to_vec(), vec![]), vec![C(1)], 1, None));
    // every LTF8 length (record counter / bases), every ITF8 length (landmarks), a multi-reference context
    let mut all = f.clone();
    for l in 1..=9usize {
        let mut h = 2u32.to_le_bytes().to_vec();
        h.extend(itf8(-2, 5));
        h.extend(itf8(0, 1));
        h.extend(itf8(0, 1));
        h.extend(itf8(1, 1));
        h.extend(ltf8((1i64 << (7 * l - 3)) + 5, l));
        h.extend(ltf8((1i64 << (7 * (10 - l) - 3)) + 9, 10 - l));
        h.extend(itf8(1, 1));
        h.extend(itf8(5, 1));
        for il in 1..=5usize {
            h.extend(itf8((1i32 << (7 * il - 4)) + il as i32, il));
        }
        let c = crc32(&h);
        h.extend_from_slice(&c.to_le_bytes());
        h.extend_from_slice(b"xy");
        all.extend_from_slice(&h);
    }
    all.extend_from_slice(&CRAM_EOF);
    v.push((K::Cram, Input::plain(all.clone(), vec![26]), vec![I, C(26), I, C(5)], 3, None));
    v.push((K::Cram, Input::plain(all, vec![26]), vec![], 1, Some(7)));
    // --- gzi / BAI by hand
    let mut gzi = 2u64.to_le_bytes().to_vec();
    for x in [10u64, 20, 30, 40] {
        gzi.extend_from_slice(&x.to_le_bytes());
    }
    v.push((K::Gzi, Input::plain(gzi.clone(), vec![8, 24]), vec![C(7), I, C(1), C(9)], 1, None));
    let mut g2 = gzi.clone();
    g2.push(0);
    v.push((K::Gzi, Input::plain(g2, vec![]), vec![], 3, Some(2))); // trailing data
    v.push((K::Gzi, Input::plain(gzi[..30].to_vec(), vec![]), vec![I], 5, None));
    let mut bai = b"BAI\x01".to_vec();
    bai.extend_from_slice(&1u32.to_le_bytes()); // n_ref
    bai.extend_from_slice(&2u32.to_le_bytes()); // n_bin
    bai.extend_from_slice(&4681u32.to_le_bytes());
    bai.extend_from_slice(&1u32.to_le_bytes());
    bai.extend_from_slice(&100u64.to_le_bytes());
    bai.extend_from_slice(&200u64.to_le_bytes());
    bai.extend_from_slice(&37450u32.to_le_bytes());
    bai.extend_from_slice(&2u32.to_le_bytes());
    for x in [100u64, 200, 5, 1] {
        bai.extend_from_slice(&x.to_le_bytes());
    }
    bai.extend_from_slice(&1u32.to_le_bytes()); // n_intv
    bai.extend_from_slice(&100u64.to_le_bytes());
    let full = bai.clone();
    v.push((K::Bai, Input::plain(full.clone(), vec![4, 8, 12]), vec![C(3), I, C(2), C(3), I], 1, None));
    let mut with_n = full.clone();
    with_n.extend_from_slice(&9u64.to_le_bytes());
    v.push((K::Bai, Input::plain(with_n.clone(), vec![]), vec![], 5, Some(3)));
    v.push((K::Bai, Input::plain(with_n[..with_n.len() - 3].to_vec(), vec![]), vec![], 2, None)); // partial n_no_coor: None
    let mut dup = full.clone();
    dup[12..16].copy_from_slice(&37450u32.to_le_bytes()); // first bin is a metadata bin with n_chunk = 1
    v.push((K::Bai, Input::plain(dup, vec![]), vec![], 4, None));
    let mut dupbin = full.clone();
    dupbin[36..40].copy_from_slice(&4681u32.to_le_bytes()); // the metadata bin's id repeated as an ordinary bin
    v.push((K::Bai, Input::plain(dupbin, vec![]), vec![], 4, None));
    // --- SAM lazy records: CRLF split between CR and LF, fields ending on window boundaries, no final
    // newline, missing fields, data fields, an empty last field followed by a tab
    v.push(t(K::SamRec, b"r0\t4\t*\t0\t255\t*\t*\t0\t0\t*\t*\r\nr1\t16\tsq0\t7\t30\t2M\t=\t9\t-5\tAC\tII\tNM:i:1\tXS:A:+\r\n", vec![], 1, 1));
    v.push(t(K::SamRec, b"r0\t4\t*\t0\t255\t*\t*\t0\t0\t*\t*\r\nr1\t16\tsq0\t7\t30\t2M\t=\t9\t-5\tAC\tII\tNM:i:1", vec![I, C(33), I, C(1), C(40), I, C(2)], usize::MAX, 64));
    v.push(t(K::SamRec, b"r0\t4\t*\t0\t255\t*\t*\t0\n", vec![], 2, 3));
    v.push(t(K::SamRec, b"r0\t4\t*\t0\t255\t*\t*\t0\t0\tAC", vec![I], 3, 2));
    v.push(t(K::SamRec, b"r0\t4\t*\t0\t255\t*\t*\t0\t0\t*\t*\t\nr1\t4\t*\t0\t255\t*\t*\t0\t0\t*\t*\t", vec![], 7, 7));
    v.push(t(K::SamRec, b"\n\n", vec![], 1, 1));
    v.push(t(K::SamRec, b"", vec![I, I], usize::MAX, 4));
    // the CR of `II\r` is popped by `read_line` from BEFORE the recorded end of the quality scores
    v.push(t(K::SamRec, b"r0\t4\t*\t0\t255\t*\t*\t0\t0\tAC\tII\r\t\n", vec![], 5, 4));
    // the same through `read_field`: SEQ `AC\r`, then an EMPTY quality scores field that ends the line
    // (fix df17d10: the CR stays in SEQ; before it the CR was popped and `sequence()` sliced out of range)
    v.push(t(K::SamRec, b"r0\t4\t*\t0\t255\t*\t*\t0\t0\tAC\r\t\nr1\t4\t*\t0\t255\t*\t*\t0\t0\t*\t*\n", vec![], 3, 2));
    v.push(t(K::VcfRec, b"sq0\t1\t.\tA\t.\t.\tPASS\r\t\nsq0\t2\t.\tA\t.\t.\t.\t.\n", vec![], 2, 3));
    // --- VCF lazy records: multi-byte characters split across windows, invalid UTF-8, CRLF, samples
    v.push(t(K::VcfRec, "sq0\t1\tr\u{e9}\tA\t.\t.\t.\tN=\u{3b1}\u{3b2}\tGT\t0/1\r\nsq1\t0\t.\tA\tC\t30\tPASS\t.\n".as_bytes(), vec![], 1, 1));
    v.push(t(K::VcfRec, "sq0\t1\tr\u{e9}\tA\t.\t.\t.\tN=\u{3b1}\u{3b2}\tGT\t0/1\r\nsq1\t0\t.\tA\tC\t30\tPASS\t.".as_bytes(), vec![C(8), I, C(1), I, C(30)], 2, 3));
    v.push(t(K::VcfRec, b"sq0\t1\t\xff\tA\t.\t.\t.\t.\n", vec![], 1, 2));
    v.push(t(K::VcfRec, b"sq0\t1\t.\tA\t.\t.\t.\t.\tGT\t\xc3\n", vec![I], 3, 1));
    v.push(t(K::VcfRec, b"sq0\t1\t.\tA\t.\t.\n", vec![], 2, 2));
    v.push(t(K::VcfRec, b"sq0\t1\t.\tA\t.\t.\t.\tDP=1\r\t\n", vec![], 2, 2));
    // --- line readers
    v.push(t(K::SamLine, b"r0\t4\t*\t0\t255\t*\t*\t0\t0\t*\t*\r\nbad\tline\nr1\t4\t*\t0\t255\t*\t*\t0\t0\t*\t*\n", vec![], 1, 1));
    v.push(t(K::VcfLine, "sq0\t1\tr\u{e9}\tA\t.\t.\t.\t.\r\nsq0\t1\t\u{e9}".as_bytes(), vec![C(9), I], 1, 1));
    v.push(t(K::VcfLine, b"sq0\t1\t.\tA\t.\t.\t.\t.\n\xff\n", vec![], 2, 2));
    v.push(t(K::Fai, b"sq0\t10\t5\t10\t11\r\nsq1\t7\t20\t7\t8", vec![I, C(3)], 1, 1));
    v.push(t(K::Fai, b"sq0\t10\t5\t10\t11\n\nsq1\t7\t20\t7\t8\n", vec![], 2, 2));
    v.push(t(K::Fai, b"sq0\t10\t5\t0\t11\n", vec![], 2, 64));
    let crai = b"0\t1\t100\t1234\t56\t789\n-1\t0\t0\t9\t9\t9\n1\t5\n";
    v.push((K::Crai, Input { data: gzip(&mut Rng::new(7), crai), model: crai.to_vec(), bounds: vec![10], sizes: vec![] }, vec![C(3), I, C(1)], 1, None));
    // --- GFF3 / GTF lines: blank lines (skipped by GFF3 only), CRLF, no final newline
    v.push(t(K::Gff, b"##gff-version 3\r\n\r\n \t\n# c\nsq0\t.\tgene\t1\t2\t.\t+\t.\tID=g\n\n\x0c\r\n", vec![], 1, 1));
    v.push(t(K::Gff, b"\n\n\nsq0\t.\tgene\t1\t2\t.\t+\t.\tID=g", vec![I, C(2), I], 2, 2));
    v.push(t(K::Gff, b" \t ", vec![], 1, 3)); // a blank last line without a newline
    v.push(t(K::Gtf, b"sq0\t.\tgene\t1\t2\t.\t+\t.\tgene_id \"g\";\r\n\r\n \nx", vec![], 1, 1));
    // --- FASTA sequence blocks: CRLF split across windows, blank lines, CR at the very end, and the
    // MALFORMED lines of finding F33 (a `>` / a bare CR inside a line) under window sizes that show it
    let fs = |s: &[u8], sizes: Vec<usize>, sched: Vec<Delivery>, fb: usize, cap: usize| (K::FaSeq, Input { data: s.to_vec(), model: s.to_vec(), bounds: line_ends(s), sizes }, sched, fb, Some(cap));
    v.push(fs(b"ACGT\r\nAC\r\n\r\nGG\r\n>sq1\nTT\n", vec![], vec![], 1, 1));
    v.push(fs(b"ACGT\r\nAC\r\n\r\nGG\r\n>sq1\nTT\n", vec![2, 1, 3], vec![C(5), I, C(1), I, I, C(4)], usize::MAX, 3));
    v.push(fs(b"\n\r\n\nACGT\r", vec![32], vec![], 2, 2));
    v.push(fs(b"ACGT", vec![], vec![I], usize::MAX, 64));
    v.push(fs(b"", vec![], vec![I], usize::MAX, 1));
    v.push(fs(b">sq1\nAC\n", vec![], vec![], 1, 1));
    v.push(fs(b"AC>GT\nAA\n", vec![], vec![], 1, 1));
    v.push(fs(b"AC>GT\nAA\n", vec![], vec![], usize::MAX, 64));
    v.push(fs(b"AC>GT\nAA\n", vec![2], vec![], usize::MAX, 64));
    v.push(fs(b"AC\rGT\nAA\n", vec![], vec![], 1, 1));
    v.push(fs(b"AC\rGT\nAA\n", vec![], vec![], usize::MAX, 64));
    v.push(fs(b"AC\r\r\nGT\n", vec![], vec![], 3, 3));
    v.push(fs(b"AC\r>x\n", vec![], vec![], 2, 64));
    // --- FASTA records
    v.push(t(K::Fasta, b">sq0 d\r\nACGT\r\nAC\r\n>sq1\n\nTT\n>sq2\n", vec![], 1, 1));
    v.push(t(K::Fasta, b">sq0  two words \nACGT\n>\nAC\n", vec![I], 3, 2));
    v.push(t(K::Fasta, b"ACGT\n", vec![], 2, 2));
    v.push(t(K::Fasta, b">sq0\nAC>GT\nAA\n", vec![], 1, 1));
    // --- tabix / CSI (appended last: the indices of the cases above are replay keys): the inputs of the
    // /repo `fix:` commits 125ecd7 (a names block cut short by the end of the input is an error) and
    // 8288cb5 (`read_aux` skips what the tabix header leaves of the `l_aux` bytes)
    let wrapped = |k: K, p: Vec<u8>, seed: u64, sched: Vec<Delivery>, fb: usize| {
        let file = bgzf_wrap(&mut Rng::new(seed), &p);
        let b = bgzf_member_ends(&file);
        (k, Input { data: file, model: p, bounds: b, sizes: vec![] }, sched, fb, None)
    };
    let tbx_header = |l_nm: u32, names: &[u8]| {
        let mut h = vec![];
        for x in [2u32, 1, 2, 0, 35, 0, l_nm] {
            h.extend_from_slice(&x.to_le_bytes());
        }
        h.extend_from_slice(names);
        h
    };
    // tabix, n_ref = 0, l_nm = 4 but the input ends after `a NUL` (a name boundary): rejected since 125ecd7
    // (before: an index with the single name `a`)
    let mut tbi_cut = b"TBI\x01\0\0\0\0".to_vec();
    tbi_cut.extend(tbx_header(4, b"a\0"));
    v.push(wrapped(K::Tbi, tbi_cut.clone(), 11, vec![], usize::MAX));
    v.push(wrapped(K::Tbi, tbi_cut, 12, vec![C(5), I, C(1)], 3));
    // the same names block complete: accepted, names `a`, `b`
    let mut tbi_full = b"TBI\x01\0\0\0\0".to_vec();
    tbi_full.extend(tbx_header(4, b"a\0b\0"));
    v.push(wrapped(K::Tbi, tbi_full, 13, vec![I, C(7)], 2));
    // tabix, n_ref = 1, l_nm = 3 and only `a NUL` before the end of the input
    let mut tbi_cut1 = b"TBI\x01\x01\0\0\0".to_vec();
    tbi_cut1.extend(tbx_header(3, b"a\0"));
    v.push(wrapped(K::Tbi, tbi_cut1, 14, vec![], 4));
    // CSI, l_aux = 34 = a 30-byte tabix header (names `a NUL`) + 4 bytes of padding, then n_ref = 0 and
    // n_no_coor = 5: since 8288cb5 the padding is skipped (before: n_ref / n_no_coor read 4 bytes early)
    let csi_with_aux = |l_aux: u32, aux: &[u8], rest: &[u8]| {
        let mut p = b"CSI\x01".to_vec();
        for x in [14u32, 5, l_aux] {
            p.extend_from_slice(&x.to_le_bytes());
        }
        p.extend_from_slice(aux);
        p.extend_from_slice(rest);
        p
    };
    let mut tail = 0u32.to_le_bytes().to_vec();
    tail.extend_from_slice(&5u64.to_le_bytes());
    let mut aux = tbx_header(2, b"a\0");
    aux.extend_from_slice(&[0, 0, 0, 0]);
    v.push(wrapped(K::Csi, csi_with_aux(34, &aux, &tail), 15, vec![], usize::MAX));
    v.push(wrapped(K::Csi, csi_with_aux(34, &aux, &tail), 16, vec![C(9), I, C(2)], 5));
    // padding that is not zero and not a multiple of four (7 bytes)
    let mut aux7 = tbx_header(2, b"a\0");
    aux7.extend_from_slice(&[1, 0, 0, 0, 9, 9, 9]);
    v.push(wrapped(K::Csi, csi_with_aux(37, &aux7, &tail), 17, vec![], 3));
    // l_aux promises more padding than the input has: the drain stops at the end of the input (no error
    // of its own), then n_ref is missing
    v.push(wrapped(K::Csi, csi_with_aux(64, &aux, &[]), 18, vec![], 2));
    // l_nm = 4 reaches beyond the l_aux = 30 bytes of the aux block: the names `Take` is cut short by the
    // outer `Take` (`a NUL`, limit 2 left): an error since 125ecd7, though `b NUL` follows in the stream
    let mut over = b"b\0".to_vec();
    over.extend_from_slice(&tail);
    v.push(wrapped(K::Csi, csi_with_aux(30, &tbx_header(4, b"a\0"), &over), 19, vec![], usize::MAX));
    v
}

fn corpus(ctx: &mut Ctx) {
    for (i, (k, inp, sched, fb, cap)) in corpus_cases().into_iter().enumerate() {
        check(ctx, k, &inp, &sched, fb, "corpus", cap, format!("more-corpus {i}"), true);
        ctx.bump("more_corpus_cases");
    }
}

pub fn run(ctx: &mut Ctx) {
    corpus(ctx);
    suite(ctx);
}

/// `true` if the case words belong to this module
pub fn replay(ctx: &mut Ctx, case: &[String]) -> bool {
    match case.first().map(|s| s.as_str()) {
        Some("more") if case.len() >= 5 => {
            if let (Some(k), Ok(sub), Ok(kind), Ok(cap)) = (K::parse(&case[1]), case[2].parse::<u64>(), case[3].parse::<usize>(), case[4].parse::<usize>()) {
                case_of(ctx, k, sub, kind, cap, false);
            }
            true
        }
        Some("more-corpus") if case.len() >= 2 => {
            if let Ok(i) = case[1].parse::<usize>() {
                if let Some((k, inp, sched, fb, cap)) = corpus_cases().into_iter().nth(i) {
                    check(ctx, k, &inp, &sched, fb, "corpus", cap, format!("more-corpus {i}"), false);
                }
            }
            true
        }
        // debugging aid: print the real answer and the request of a generated case
        Some("more-show") if case.len() >= 5 => {
            if let (Some(k), Ok(sub), Ok(kind), Ok(cap_sel)) = (K::parse(&case[1]), case[2].parse::<u64>(), case[3].parse::<usize>(), case[4].parse::<usize>()) {
                let mut rng = Rng::new(sub);
                let mut hist = vec![];
                if let Some(inp) = gen_input(k, &mut hist, &mut rng) {
                    let mut prng = Rng::new(sub.wrapping_mul(31).wrapping_add(kind as u64 * 8 + cap_sel as u64));
                    let (sched, fallback, sname) = schedule(&mut prng, kind, inp.data.len(), &inp.bounds);
                    let cap = if k.buffered() || cap_sel % 2 == 1 { Some(CAPS[cap_sel % 7]) } else { None };
                    let ex = explicit(&sched, fallback, inp.data.len());
                    println!("schedule {sname} cap {cap:?} gen {hist:?}");
                    println!("data  {}", String::from_utf8_lossy(&inp.model).escape_debug());
                    println!("plain {}", real(k, &inp, vec![], if k.buffered() { Some(inp.data.len().max(1) + 8) } else { None }));
                    println!("sched {}", real(k, &inp, ex.clone(), cap));
                    println!("req   {}", request(k, &inp, &ex, cap));
                }
            }
            true
        }
        _ => false,
    }
}
