//! C14 (extension) — every format writer as a *writer program* over a scripted destination.
//!
//! The Lean model (`Noodles/Io/WProg.lean`, `Noodles/Io/Writers.lean`) says: a writer call is a
//! sequence of `write_all`s / flushes / an own error on its inner writer, `?`-propagated; the inner
//! writer is the destination itself, a `std::io::BufWriter`, or a `bgzf::io::Writer`.
//! CORRESPONDENCE (`c14 wp …`): the program of a session is RECORDED by running the real format
//! writer once over a recording destination that accepts everything (the buffers of its `write`
//! calls are the `write_all`s); the model is given that program and must then predict, for EVERY
//! other destination script (failure at call k — permanent or once —, short writes, Interrupted),
//! what the real writer stack does: which call fails with which error, the bytes and call count at
//! the destination when the last explicit call returned and after `Drop`, and the destination's
//! progress after every call. `c14 wi …`: for FASTA, FASTQ, BAM, BCF, gzi and CRAM the model also
//! predicts the program itself from the data.
//! ORACLE: the property stated on the same runs (classes `more:*`).
use super::c01;
use crate::adversary::{ScriptSink, SinkStep};
use crate::common::*;
use noodles_bam as bam;
use noodles_bcf as bcf;
use noodles_bed as bed;
use noodles_bgzf as bgzf;
use noodles_core::Position;
use noodles_cram as cram;
use noodles_csi as csi;
use noodles_fasta as fasta;
use noodles_fastq as fastq;
use noodles_gff as gff;
use noodles_gtf as gtf;
use noodles_sam as sam;
use noodles_tabix as tabix;
use noodles_vcf as vcf;
use std::io::{self, ErrorKind, Write};
use std::num::NonZero;
use std::sync::{Arc, Mutex};

const KINDS: [(ErrorKind, u32); 8] = [
    (ErrorKind::Other, 0),
    (ErrorKind::BrokenPipe, 1),
    (ErrorKind::WriteZero, 2),
    (ErrorKind::PermissionDenied, 3),
    (ErrorKind::TimedOut, 4),
    (ErrorKind::InvalidInput, 5),
    (ErrorKind::InvalidData, 6),
    (ErrorKind::UnexpectedEof, 7),
];

fn kind_code(k: ErrorKind) -> u32 {
    KINDS.iter().find(|(x, _)| *x == k).map(|(_, c)| *c).unwrap_or(99)
}

// ------------------------------------------------------------------ the tap

#[derive(Clone, Debug, PartialEq)]
enum WRes {
    Acc(usize),
    Intr,
    Fail,
}

#[derive(Clone, Debug)]
enum Ev {
    Write { buf: Vec<u8>, res: WRes },
    Flush { ok: bool },
    /// an explicit writer call returned
    Mark,
}

struct TapState {
    sink: ScriptSink,
    log: Vec<Ev>,
}

/// `adversary::ScriptSink` plus a log of every call made on it
#[derive(Clone)]
struct Tap(Arc<Mutex<TapState>>);

#[derive(Clone, Debug, PartialEq)]
struct Snap {
    bytes: Vec<u8>,
    calls: usize,
    failed: bool,
}

impl Snap {
    fn fmt(&self) -> String {
        format!("{}:{}:{}:{}", self.bytes.len(), crc32(&self.bytes), self.calls, self.failed as u8)
    }
}

impl Tap {
    fn new(cfg: &Cfg) -> Self {
        let mut sink = ScriptSink::new(cfg.script.clone(), cfg.fallback, cfg.fail_at);
        sink.fail_once = cfg.fail_once;
        Tap(Arc::new(Mutex::new(TapState { sink, log: vec![] })))
    }
    fn snap(&self) -> Snap {
        let s = self.0.lock().unwrap();
        Snap { bytes: s.sink.accepted.clone(), calls: s.sink.calls, failed: s.sink.failed }
    }
    fn progress(&self) -> (usize, usize) {
        let s = self.0.lock().unwrap();
        (s.sink.accepted.len(), s.sink.calls)
    }
    fn failed(&self) -> bool {
        self.0.lock().unwrap().sink.failed
    }
    fn mark(&self) {
        self.0.lock().unwrap().log.push(Ev::Mark);
    }
    fn log(&self) -> Vec<Ev> {
        self.0.lock().unwrap().log.clone()
    }
}

impl Write for Tap {
    fn write(&mut self, buf: &[u8]) -> io::Result<usize> {
        let mut s = self.0.lock().unwrap();
        let r = s.sink.write(buf);
        // the injected kinds are never Interrupted
        let res = match &r {
            Ok(n) => WRes::Acc(*n),
            Err(e) if e.kind() == ErrorKind::Interrupted => WRes::Intr,
            Err(_) => WRes::Fail,
        };
        s.log.push(Ev::Write { buf: buf.to_vec(), res });
        r
    }
    fn flush(&mut self) -> io::Result<()> {
        let mut s = self.0.lock().unwrap();
        let r = s.sink.flush();
        s.log.push(Ev::Flush { ok: r.is_ok() });
        r
    }
}

// ------------------------------------------------------------------ destination configurations

#[derive(Clone, Debug)]
struct Cfg {
    script: Vec<SinkStep>,
    fallback: usize,
    fail_at: Option<(usize, ErrorKind)>,
    fail_once: bool,
    label: String,
}

impl Cfg {
    fn plain() -> Self {
        Cfg { script: vec![], fallback: usize::MAX, fail_at: None, fail_once: false, label: "plain".into() }
    }
    fn fmt_script(&self) -> String {
        if self.script.is_empty() {
            return "-".into();
        }
        self.script
            .iter()
            .map(|s| match s {
                SinkStep::Accept(n) => format!("a{n}"),
                SinkStep::Interrupted => "i".into(),
            })
            .collect::<Vec<_>>()
            .join(",")
    }
    fn is_healthy(&self) -> bool {
        self.fail_at.is_none()
    }
}

/// short-write / interruption patterns; `total` = bytes of the healthy output, `calls` = its calls
fn pattern(rng: &mut Rng, kind: usize, total: usize, calls: usize) -> Cfg {
    let mk = |script: Vec<SinkStep>, fallback: usize, label: &str| Cfg { script, fallback, fail_at: None, fail_once: false, label: label.into() };
    match kind % 7 {
        0 => mk(vec![], 1, "one-byte"),
        1 => mk(vec![], 3, "three-byte"),
        2 => mk(vec![], 4096, "4k"),
        3 => {
            let mut s = vec![];
            let mut budget = total.min(3000) + 16;
            let mut intr = 1 + rng.below(8);
            while budget > 0 {
                if intr > 0 && rng.chance(1, 4) {
                    s.push(SinkStep::Interrupted);
                    intr -= 1;
                } else {
                    let n = 1 + rng.below(30) as usize;
                    s.push(SinkStep::Accept(n));
                    budget = budget.saturating_sub(n);
                }
            }
            mk(s, usize::MAX, "random-short+interrupted")
        }
        4 => {
            let k = (calls + 2).min(1 + rng.below(40) as usize);
            let mut s = vec![];
            for _ in 0..k {
                s.push(SinkStep::Interrupted);
                s.push(SinkStep::Accept(1 + rng.below(5000) as usize));
            }
            mk(s, usize::MAX, "interrupted-before-calls")
        }
        5 => {
            let mut s = vec![];
            for _ in 0..1 + rng.below(6) {
                for _ in 0..1 + rng.below(4) {
                    s.push(SinkStep::Interrupted);
                }
                s.push(SinkStep::Accept(rng.below(64) as usize)); // Accept(0) is served as 1
            }
            mk(s, 1 + rng.below(100) as usize, "interrupt-bursts")
        }
        _ => {
            let s = (0..(calls * 2 + 4).min(300)).map(|i| if i % 2 == 0 { SinkStep::Accept(usize::MAX / 2) } else { SinkStep::Accept(1) }).collect();
            mk(s, 2, "whole-then-one")
        }
    }
}

// ------------------------------------------------------------------ one run of a session

#[derive(Clone, Debug)]
struct ErrInfo {
    kind: ErrorKind,
    /// kinds of all io::Errors in the source chain, outer first
    chain: Vec<ErrorKind>,
    class: &'static str,
    msg: String,
}

fn chain_kinds(e: &io::Error) -> Vec<ErrorKind> {
    let mut out = vec![e.kind()];
    let mut cur: Option<&(dyn std::error::Error + 'static)> = e.get_ref().map(|x| x as &(dyn std::error::Error + 'static));
    let mut depth = 0;
    while let Some(x) = cur {
        depth += 1;
        if depth > 16 {
            break;
        }
        if let Some(io) = x.downcast_ref::<io::Error>() {
            out.push(io.kind());
            cur = io.get_ref().map(|inner| inner as &(dyn std::error::Error + 'static));
        } else {
            cur = x.source();
        }
    }
    out
}

/// what the harness sees of a session: the result of every explicit call, the destination's
/// progress after each, and the destination when the last explicit call returned (before `Drop`)
#[derive(Default)]
struct Run {
    calls: Vec<Option<ErrInfo>>,
    trace: Vec<(usize, usize)>,
    pre: Option<Snap>,
}

impl Run {
    fn ok(&mut self, tap: &Tap) {
        self.calls.push(None);
        self.trace.push(tap.progress());
        tap.mark();
    }
    fn err(&mut self, tap: &Tap, e: &io::Error) {
        self.calls.push(Some(ErrInfo { kind: e.kind(), chain: chain_kinds(e), class: errclass(e), msg: e.to_string() }));
        self.trace.push(tap.progress());
        tap.mark();
        self.pre = Some(tap.snap());
    }
    /// all explicit calls are done; the writer is about to be dropped / taken apart
    fn end(&mut self, tap: &Tap) {
        if self.pre.is_none() {
            self.pre = Some(tap.snap());
        }
    }
    fn first_err(&self) -> Option<(usize, &ErrInfo)> {
        self.calls.iter().enumerate().find_map(|(i, c)| c.as_ref().map(|e| (i, e)))
    }
}

/// evaluate one explicit writer call; on Err the enclosing function returns `$ret` (the snapshot
/// is taken first: the writer is dropped after it)
macro_rules! call {
    ($run:expr, $tap:expr, $e:expr, $ret:expr) => {
        match $e {
            Ok(v) => {
                $run.ok($tap);
                v
            }
            Err(e) => {
                $run.err($tap, &e);
                return $ret;
            }
        }
    };
}

#[derive(Clone, Copy, Debug, PartialEq)]
enum Layer {
    Direct,
    Buffered(usize),
    Bgzf,
}

type RunFn = Arc<dyn Fn(&Tap, &mut Run) + Send + Sync>;

struct Session {
    /// Lean `Kind` name, or `-` for a stack composed by the harness itself
    kind: String,
    name: String,
    layer: Layer,
    /// the real writer stack over the destination
    real: RunFn,
    /// the format writer directly over the recording destination (no layer, no layer calls)
    record: RunFn,
    /// layer calls the real session makes after the recorded ones (`F` = try_finish, `f` = flush)
    tail: Vec<&'static str>,
    /// calls with an index in [a, b) wrap their error in `io::Error::new(InvalidInput, e)`
    wrap_from: Option<(usize, usize)>,
    /// the session lets the layer go out of scope after its last call (else: `into_inner`)
    drop_after_ok: bool,
    /// the session ends with the writer's finishing call (all Ok ⇒ complete)
    has_finish: bool,
    /// `Drop` of the stack is not modelled (external gzip layer): compare up to the last call only
    post_unmodelled: bool,
    /// output differs between runs: the program is reconstructed from the same run
    same_run: bool,
}

/// the program a recording run saw: per explicit call its items
fn program_of(log: &[Ev], run: &Run, tap_failed: bool) -> Result<Vec<Vec<String>>, String> {
    let mut calls: Vec<Vec<String>> = vec![];
    let mut cur: Vec<String> = vec![];
    // write_all continuation tracking (same-run reconstruction over a short-writing destination)
    let mut pending: Option<Vec<u8>> = None;
    for ev in log {
        match ev {
            Ev::Write { buf, res } => {
                let continuation = pending.as_ref().map(|p| p == buf).unwrap_or(false);
                if pending.is_some() && !continuation {
                    return Err("a write_all was abandoned half-way (the next write offers something else)".into());
                }
                if !continuation {
                    if buf.is_empty() {
                        return Err("write() called with an empty buffer".into());
                    }
                    cur.push(format!("e{}", hex(buf)));
                }
                pending = match res {
                    WRes::Acc(n) if *n < buf.len() => Some(buf[*n..].to_vec()),
                    WRes::Acc(_) => None,
                    WRes::Intr => Some(buf.clone()),
                    WRes::Fail => None,
                };
            }
            Ev::Flush { .. } => {
                if pending.is_some() {
                    return Err("flush in the middle of a write_all".into());
                }
                cur.push("f".into());
            }
            Ev::Mark => {
                let i = calls.len();
                if let Some(Some(e)) = run.calls.get(i) {
                    // an error the destination did not cause is the writer's own
                    if !tap_failed {
                        cur.push(format!(
                            "x{}",
                            match e.class {
                                "err:invalid-input" => "i",
                                "err:invalid-data" => "d",
                                "err:eof" => "e",
                                _ => "o",
                            }
                        ));
                    }
                }
                calls.push(std::mem::take(&mut cur));
            }
        }
    }
    if !cur.is_empty() {
        calls.push(cur); // calls made after the last explicit call (Drop)
        return Err("the destination was called after the last explicit call returned".into());
    }
    Ok(calls)
}

fn fmt_calls(calls: &[Vec<String>], wrap_from: Option<(usize, usize)>) -> String {
    if calls.is_empty() {
        return "none".into();
    }
    calls
        .iter()
        .enumerate()
        .map(|(i, c)| {
            let w = if wrap_from.map(|(a, b)| i >= a && i < b).unwrap_or(false) { "W" } else { "" };
            if c.is_empty() { format!("{w}-") } else { format!("{w}{}", c.join(",")) }
        })
        .collect::<Vec<_>>()
        .join(";")
}

struct Outcome {
    run: Run,
    pre: Snap,
    post: Snap,
    log: Vec<Ev>,
}

fn exec(f: &RunFn, cfg: &Cfg) -> Result<Outcome, String> {
    let tap = Tap::new(cfg);
    let mut run = Run::default();
    guarded(|| f(&tap, &mut run))?;
    let post = tap.snap();
    let pre = run.pre.clone().unwrap_or_else(|| post.clone());
    Ok(Outcome { run, pre, post, log: tap.log() })
}

/// the destination right after its first failing call. For a writer whose failing call consumes
/// it (`crai::io::Writer::finish(self)`: the gzip encoder's `Drop` runs before the call returns)
/// this is the only way to see the state "when the failing call returned".
fn state_at_first_failure(log: &[Ev]) -> Option<Snap> {
    let mut bytes = vec![];
    let mut calls = 0usize;
    for ev in log {
        match ev {
            Ev::Write { buf, res } => {
                calls += 1;
                match res {
                    WRes::Acc(n) => bytes.extend_from_slice(&buf[..*n]),
                    WRes::Intr => {}
                    WRes::Fail => return Some(Snap { bytes, calls, failed: true }),
                }
            }
            Ev::Flush { ok } => {
                calls += 1;
                if !ok {
                    return Some(Snap { bytes, calls, failed: true });
                }
            }
            Ev::Mark => {}
        }
    }
    None
}

/// canonical result of the real run, in the model's vocabulary
fn fmt_result(o: &Outcome, cfg: &Cfg) -> String {
    match o.run.first_err() {
        None => "ok".into(),
        Some((i, e)) => {
            let inj = cfg.fail_at.map(|x| x.1);
            if o.pre.failed {
                match inj {
                    Some(k) if e.chain.contains(&k) => format!("{i}:{}err:kind{}", if e.chain.len() > 1 { "wrapped:" } else { "" }, kind_code(k)),
                    _ => format!("{i}:replaced:{}", e.class),
                }
            } else {
                format!("{i}:{}", e.class)
            }
        }
    }
}

fn fmt_answer(o: &Outcome, cfg: &Cfg, post_unmodelled: bool) -> String {
    let tr = if o.run.trace.is_empty() { "-".to_string() } else { o.run.trace.iter().map(|(l, c)| format!("{l}:{c}")).collect::<Vec<_>>().join(",") };
    let post = if post_unmodelled { &o.pre } else { &o.post };
    format!("res={} pre={} post={} trace={tr}", fmt_result(o, cfg), o.pre.fmt(), post.fmt())
}

/// DEFLATE answers of the real library for the blocks of a BGZF file (the model's table)
fn deflate_table(file: &[u8]) -> String {
    match c01::split_members(file) {
        Ok(ms) => {
            let v: Vec<String> = ms.iter().filter(|m| m.isize > 0).map(|m| format!("{}:{}:{}", m.crc, m.isize, hex(m.cdata))).collect();
            if v.is_empty() { "-".to_string() } else { v.join(",") }
        }
        Err(_) => "-".to_string(),
    }
}

struct Healthy {
    program: String,
    table: String,
    pre: Snap,
    post: Snap,
    results_ok: bool,
    ncalls: usize,
}

/// run one destination configuration on the real stack: correspondence line + the property
fn eval_cfg(ctx: &mut Ctx, s: &Session, h: &Healthy, cfg: &Cfg, case: &str) -> Option<Outcome> {
    let what = format!("{} [{}{}]", s.name, cfg.label, cfg.fail_at.map(|(k, kind)| format!(", {} call {k} with {kind:?}", if cfg.fail_once { "fails only at" } else { "fails from" })).unwrap_or_default());
    ctx.eval(Some(fnv(format!("{case}/{what}").as_bytes())));
    let mut o = match exec(&s.real, cfg) {
        Ok(o) => o,
        Err(p) => {
            ctx.fail("more:panic", format!("{what}: {p}"), case.into());
            return None;
        }
    };
    if s.post_unmodelled && o.run.first_err().is_some() {
        if let Some(at) = state_at_first_failure(&o.log) {
            if let Some(t) = o.run.trace.last_mut() {
                *t = (at.bytes.len(), at.calls);
            }
            o.pre = at;
        }
    }
    // ---- correspondence
    let program = if s.same_run {
        match program_of(&o.log, &o.run, o.pre.failed) {
            Ok(c) => Some(fmt_calls(&c, s.wrap_from)),
            Err(why) => {
                // calls during Drop are legitimate for layered stacks; a same-run stack is direct
                ctx.fail("more:not-write-all", format!("{what}: {why}"), case.into());
                None
            }
        }
    } else {
        Some(h.program.clone())
    };
    if let Some(program) = program {
        let (layer, lparam) = match s.layer {
            Layer::Direct => ("direct", 0),
            Layer::Buffered(c) => ("buffered", c),
            Layer::Bgzf => ("bgzf", 6),
        };
        let (fa, kc) = match cfg.fail_at {
            Some((k, kind)) => (k.to_string(), kind_code(kind)),
            None => ("-".into(), 0),
        };
        ctx.corr(
            format!("c14 wp {} {layer} {lparam} {} {} {fa} {} {kc} {} {program} {}", s.kind, cfg.fmt_script(), cfg.fallback, cfg.fail_once as u8, s.drop_after_ok as u8, h.table),
            fmt_answer(&o, cfg, s.post_unmodelled),
        );
        ctx.bump(&format!("wp_{}", s.name));
    }
    // ---- the property, on the real run alone
    let first = o.run.first_err();
    match cfg.fail_at {
        Some((k, kind)) => {
            if o.pre.failed && first.is_none() && k < o.pre.calls {
                ctx.fail("more:hidden-failure", format!("{what}: the destination failed at call {k} (of {} before the writer was dropped) but every call returned Ok", o.pre.calls), case.into());
            } else if let Some((i, e)) = first {
                if e.kind == ErrorKind::Interrupted && kind != ErrorKind::Interrupted {
                    ctx.fail("more:interrupted-leaked", format!("{what}: call #{i} returned Interrupted ({})", e.msg), case.into());
                } else if o.pre.failed && !e.chain.contains(&kind) {
                    ctx.fail("more:error-replaced", format!("{what}: call #{i} returned {:?} ({}; chain {:?}) — the destination's {kind:?} is nowhere in it", e.kind, e.msg, e.chain), case.into());
                } else if !o.pre.failed && h.results_ok {
                    ctx.fail("more:spurious-error", format!("{what}: call #{i} returned {:?} ({}) although the destination never failed", e.kind, e.msg), case.into());
                } else if o.pre.failed {
                    ctx.bump(if e.chain.len() > 1 { "more_failure_surfaced_wrapped" } else { "more_failure_surfaced" });
                }
            } else if o.post.failed {
                ctx.bump("more_failure_only_during_drop");
            } else {
                ctx.bump("more_failure_index_beyond_run");
            }
        }
        None => {
            if let Some((i, e)) = first {
                if h.results_ok {
                    ctx.fail("more:short-write-error", format!("{what}: call #{i} returned {:?} ({}) on a destination that never fails hard", e.kind, e.msg), case.into());
                }
            } else if !s.same_run && (o.post.bytes != h.post.bytes || o.pre.bytes != h.pre.bytes) {
                ctx.fail("more:short-write-differs", format!("{what}: output ({} bytes) differs from the plain destination's ({} bytes)", o.post.bytes.len(), h.post.bytes.len()), case.into());
            }
        }
    }
    // all Ok including the finishing call ⇒ the destination holds what the failure-free run wrote
    if first.is_none() && s.has_finish && !s.same_run && h.results_ok && o.pre.bytes != h.pre.bytes {
        ctx.fail("more:ok-but-differs", format!("{what}: every call returned Ok but the destination holds {} bytes (crc {:08x}); the failure-free run wrote {} (crc {:08x})", o.pre.bytes.len(), crc32(&o.pre.bytes), h.pre.bytes.len(), crc32(&h.pre.bytes)), case.into());
    }
    Some(o)
}

fn check_session(ctx: &mut Ctx, s: &Session, sub: u64, case: &str) {
    let mut rng = Rng::new(sub.wrapping_mul(0x9E37_79B9).wrapping_add(0xC14));
    // recording run: the format writer over a destination that accepts everything
    let rec = match exec(&s.record, &Cfg::plain()) {
        Ok(o) => o,
        Err(p) => {
            ctx.fail("more:panic", format!("{} (recording run): {p}", s.name), case.into());
            return;
        }
    };
    let mut calls = match program_of(&rec.log, &rec.run, false) {
        Ok(c) => c,
        Err(why) => {
            ctx.fail("more:not-write-all", format!("{} (recording run): {why}", s.name), case.into());
            return;
        }
    };
    for t in &s.tail {
        calls.push(vec![t.to_string()]);
    }
    let program = fmt_calls(&calls, s.wrap_from);
    // healthy real run
    let Ok(h0) = exec(&s.real, &Cfg::plain()) else {
        ctx.fail("more:panic", format!("{} (plain destination)", s.name), case.into());
        return;
    };
    let results_ok = h0.run.first_err().is_none();
    let own_error_session = rec.run.first_err().is_some();
    if !results_ok && !own_error_session {
        ctx.fail("more:setup", format!("{}: a call failed on the plain destination: {:?}", s.name, h0.run.first_err().map(|x| x.1.msg.clone())), case.into());
        return;
    }
    ctx.bump(if own_error_session { "more_sessions_with_own_error" } else { "more_sessions_clean" });
    let table = if s.layer == Layer::Bgzf { deflate_table(&h0.post.bytes) } else { "-".into() };
    let h = Healthy { program, table, pre: h0.pre.clone(), post: h0.post.clone(), results_ok, ncalls: h0.post.calls };
    eval_cfg(ctx, s, &h, &Cfg::plain(), case);
    let n = h.ncalls;
    ctx.bump(&format!("more_healthy_calls_{}", match n { 0..=15 => "<=15", 16..=60 => "16-60", 61..=300 => "61-300", _ => ">300" }));
    // failure at call k: permanent, and (not over BGZF, whose model is permanent-only) once
    let bulky = h.post.bytes.len() > 5_000;
    let kmax = if ctx.tier_thorough { 60 } else if bulky { 4 } else { 14 };
    let ks: Vec<usize> = if n + 2 <= kmax {
        (0..n + 2).collect()
    } else {
        let mut v: Vec<usize> = (0..kmax / 3).collect();
        v.extend(n + 2 - kmax / 3..n + 2);
        v.extend((0..kmax / 3).map(|_| rng.below(n as u64) as usize));
        v.sort();
        v.dedup();
        v
    };
    for &k in &ks {
        let kind = KINDS[(k + sub as usize) % KINDS.len()].0;
        eval_cfg(ctx, s, &h, &Cfg { fail_at: Some((k, kind)), label: "plain".into(), ..Cfg::plain() }, case);
        if s.layer != Layer::Bgzf {
            eval_cfg(ctx, s, &h, &Cfg { fail_at: Some((k, kind)), fail_once: true, label: "fail-once".into(), ..Cfg::plain() }, case);
        }
    }
    // short writes / interruptions, each also with a failure inside
    for p in 0..7 {
        let cfg = pattern(&mut rng, p, h.post.bytes.len(), n);
        if cfg.fallback < 64 && h.post.bytes.len() > 3_000 {
            continue;
        }
        if bulky && !ctx.tier_thorough && p != 3 {
            continue;
        }
        ctx.bump(&format!("more_pattern_{}", cfg.label));
        let Some(o) = eval_cfg(ctx, s, &h, &cfg, case) else { continue };
        let n2 = o.post.calls;
        for j in 0..if ctx.tier_thorough { 3 } else { 1 } {
            let k = rng.below(n2.max(1) as u64) as usize;
            let kind = KINDS[rng.below(8) as usize].0;
            let once = s.layer != Layer::Bgzf && (j + p) % 2 == 1;
            eval_cfg(ctx, s, &h, &Cfg { fail_at: Some((k, kind)), fail_once: once, label: format!("{}+fail", cfg.label), ..cfg.clone() }, case);
        }
    }
}

// ------------------------------------------------------------------ data

const REF: &[u8] = b"ACGTTGCAAGGCTTAACCGGATATCGCGTACGTAGCTAGCTAGGATCCAATTGGCCTTAAGGCCA";

fn sam_header(nref: usize, nul_name: bool) -> sam::Header {
    use sam::header::record::value::{map::ReferenceSequence, Map};
    let mut b = sam::Header::builder().set_header(Default::default()).add_comment("c14more");
    for i in 0..nref {
        let name = if nul_name && i + 1 == nref { format!("s\0q{i}") } else { format!("sq{i}") };
        b = b.add_reference_sequence(name, Map::<ReferenceSequence>::new(NonZero::new(64 + i).unwrap()));
    }
    b.build()
}

#[derive(Clone, Copy, PartialEq, Debug)]
enum Bad {
    None,
    /// sequence / quality length mismatch: refused by the BAM encoder before anything is written
    QualLen,
    /// a quality score above 93: refused by the SAM writer after ten fields were written
    QualRange,
}

fn gen_alignments(rng: &mut Rng, nref: usize, n: usize, allow_unmapped: bool, bad: Bad) -> Vec<sam::alignment::RecordBuf> {
    use sam::alignment::{
        record::{
            cigar::{op::Kind, Op as COp},
            Flags, MappingQuality,
        },
        record_buf::{Cigar, QualityScores, Sequence},
        RecordBuf,
    };
    let mut v = vec![];
    let mut start = 1usize;
    let bad_at = if bad == Bad::None { usize::MAX } else { rng.below(n as u64) as usize };
    for i in 0..n {
        let len = 4 + rng.below(12) as usize;
        let mut b = RecordBuf::builder().set_name(format!("r{i}"));
        let quals: Vec<u8> = if i == bad_at && bad == Bad::QualLen {
            vec![30; len + 1]
        } else if i == bad_at && bad == Bad::QualRange {
            vec![200; len]
        } else {
            (0..len).map(|j| 20 + (j % 20) as u8).collect()
        };
        if allow_unmapped && rng.chance(1, 6) {
            b = b.set_flags(Flags::UNMAPPED).set_sequence(Sequence::from(REF[..len].to_vec())).set_quality_scores(QualityScores::from(quals));
        } else {
            start = (start + rng.below(5) as usize).min(REF.len() - len);
            let rid = rng.below(nref.max(1) as u64) as usize;
            b = b
                .set_flags(Flags::empty())
                .set_reference_sequence_id(rid)
                .set_alignment_start(Position::try_from(start).unwrap())
                .set_mapping_quality(MappingQuality::new(30).unwrap())
                .set_cigar(Cigar::from(vec![COp::new(Kind::Match, len)]))
                .set_sequence(Sequence::from(REF[start - 1..start - 1 + len].to_vec()))
                .set_quality_scores(QualityScores::from(quals));
        }
        v.push(b.build());
    }
    v.sort_by_key(|r| (r.reference_sequence_id().map(|x| x as i64).unwrap_or(i64::MAX), r.alignment_start().map(usize::from).unwrap_or(0)));
    v
}

fn vcf_header(nref: usize) -> vcf::Header {
    use vcf::header::record::value::{map::Contig, Map};
    let mut b = vcf::Header::builder();
    for i in 0..nref {
        b = b.add_contig(format!("sq{i}"), Map::<Contig>::new());
    }
    b.build()
}

/// `bad`: one record names a contig the header does not have (BCF refuses it, nothing written) or
/// carries an ID with a space (the VCF writer refuses it after CHROM and POS were written)
fn gen_variants(rng: &mut Rng, nref: usize, n: usize, bad: bool) -> Vec<vcf::variant::RecordBuf> {
    use vcf::variant::record_buf::AlternateBases;
    let mut v = vec![];
    let mut start = 1usize;
    let bad_at = if bad { rng.below(n as u64) as usize } else { usize::MAX };
    for i in 0..n {
        start += 1 + rng.below(1000) as usize;
        let len = 1 + rng.below(6) as usize;
        let chrom = if i == bad_at { "nosuchcontig".to_string() } else { format!("sq{}", rng.below(nref as u64)) };
        let id = if i == bad_at { format!("v {i}") } else { format!("v{i}") };
        v.push(
            vcf::variant::RecordBuf::builder()
                .set_reference_sequence_name(chrom)
                .set_variant_start(Position::try_from(start).unwrap())
                .set_ids([id].into_iter().collect())
                .set_reference_bases(String::from_utf8(REF[..len].to_vec()).unwrap())
                .set_alternate_bases(AlternateBases::from(vec![rng.pick(&["A", "C", "GT", "TTA"]).to_string()]))
                .build(),
        );
    }
    v
}

// ------------------------------------------------------------------ sessions: alignment formats

#[derive(Clone, Copy, PartialEq, Debug)]
enum AEnd {
    /// `try_finish()`, then the writer is dropped
    TryFinishDrop,
    /// `try_finish()`, then `into_inner().into_inner()`: no `Drop` work
    TryFinishInto,
    /// `alignment::io::Write::finish` (= `inner.flush()`), then dropped
    TraitFinishDrop,
    /// no finishing call, dropped
    Drop,
}

fn aend_tail(end: AEnd) -> (Vec<&'static str>, bool, bool) {
    // (layer calls after the recorded ones, drop_after_ok, has_finish)
    match end {
        AEnd::TryFinishDrop => (vec!["F"], true, true),
        AEnd::TryFinishInto => (vec!["F"], false, true),
        AEnd::TraitFinishDrop => (vec![], true, false),
        AEnd::Drop => (vec![], true, false),
    }
}

fn write_alignments<W: Write>(w: &mut dyn sam::alignment::io::Write, _phantom: std::marker::PhantomData<W>, tap: &Tap, run: &mut Run, h: &sam::Header, rs: &[sam::alignment::RecordBuf], trait_finish: bool) -> bool {
    call!(run, tap, w.write_alignment_header(h), false);
    for r in rs {
        call!(run, tap, w.write_alignment_record(h, r), false);
    }
    if trait_finish {
        call!(run, tap, w.finish(h), false);
    }
    true
}

fn alignment_calls(w: &mut dyn sam::alignment::io::Write, tap: &Tap, run: &mut Run, h: &sam::Header, rs: &[sam::alignment::RecordBuf], trait_finish: bool) -> bool {
    write_alignments::<Tap>(w, std::marker::PhantomData, tap, run, h, rs, trait_finish)
}

fn se_bam(rng: &mut Rng, end: AEnd, bad: Bad, nul: bool, big: bool) -> (Session, String) {
    let nref = 1 + rng.below(3) as usize;
    let header = Arc::new(sam_header(nref, nul));
    let nrec = if big { 700 } else { 1 + rng.below(8) as usize };
    let recs = Arc::new(gen_alignments(rng, nref, nrec, true, bad));
    let tf = end == AEnd::TraitFinishDrop;
    let (h1, r1) = (header.clone(), recs.clone());
    let real: RunFn = Arc::new(move |tap, run| {
        let mut w = bam::io::Writer::new(tap.clone());
        if !alignment_calls(&mut w, tap, run, &h1, &r1, tf) {
            return;
        }
        match end {
            AEnd::TryFinishDrop => {
                call!(run, tap, w.try_finish(), ());
                run.end(tap);
                drop(w);
            }
            AEnd::TryFinishInto => {
                call!(run, tap, w.try_finish(), ());
                run.end(tap);
                let _ = w.into_inner().into_inner();
            }
            _ => {
                run.end(tap);
                drop(w);
            }
        }
    });
    let (h2, r2) = (header.clone(), recs.clone());
    let record: RunFn = Arc::new(move |tap, run| {
        let mut w = bam::io::Writer::from(tap.clone());
        alignment_calls(&mut w, tap, run, &h2, &r2, tf);
        run.end(tap);
    });
    // the data summary for `c14 wi bam`: header text, references, encoded records
    let text = {
        let mut t = sam::io::Writer::new(Vec::new());
        match t.write_header(&header) {
            Ok(()) => hex(&t.into_inner()),
            Err(e) => format!("x{}", own_code(errclass(&e))),
        }
    };
    let refs: Vec<String> = header.reference_sequences().iter().map(|(n, m)| format!("{}:{}", hex(n), usize::from(m.length()))).collect();
    // the encoder is crate-private: what `write_alignment_record` writes to a Vec is block_size + buffer
    let mut encs: Vec<String> = vec![];
    if !text.starts_with('x') {
        for r in recs.iter() {
            use sam::alignment::io::Write as _;
            let mut t = bam::io::Writer::from(Vec::new());
            match t.write_alignment_record(&header, r) {
                Ok(()) => encs.push(hex(&t.get_ref()[4..])),
                Err(e) => {
                    // the session stops at the first call that fails
                    encs.push(format!("x{}", own_code(errclass(&e))));
                    break;
                }
            }
        }
    }
    let wi = format!("c14 wi bam {} {} {}", text, if refs.is_empty() { "-".into() } else { refs.join(",") }, if encs.is_empty() { "-".into() } else { encs.join(",") });
    let (tail, drop_after_ok, has_finish) = aend_tail(end);
    (
        Session {
            kind: "bam".into(),
            name: format!("bam-{end:?}{}{}", if bad != Bad::None { "-badrec" } else { "" }, if nul { "-nulref" } else { "" }).to_lowercase(),
            layer: Layer::Bgzf,
            real,
            record,
            tail,
            wrap_from: None,
            drop_after_ok,
            has_finish,
            post_unmodelled: false,
            same_run: false,
        },
        wi,
    )
}

fn own_code(class: &str) -> &'static str {
    match class {
        "err:invalid-input" => "i",
        "err:invalid-data" => "d",
        "err:eof" => "e",
        _ => "o",
    }
}

#[derive(Clone, Copy, PartialEq, Debug)]
enum SMode {
    Plain,
    PlainTraitFinish,
    /// `Builder::build_from_writer`: `Box<BufWriter<_>>`; trait finish = flush
    BuilderTraitFinish,
    /// the same, dropped without any finishing call
    BuilderDrop,
    BgzfTryFinish,
    BgzfTraitFinish,
}

fn se_sam(rng: &mut Rng, mode: SMode, bad: Bad, big: bool) -> Session {
    let nref = 1 + rng.below(3) as usize;
    let header = Arc::new(sam_header(nref, false));
    let nrec = if big { 200 + rng.below(20) as usize } else { 1 + rng.below(6) as usize };
    let recs = Arc::new(gen_alignments(rng, nref, nrec, true, bad));
    let tf = matches!(mode, SMode::PlainTraitFinish | SMode::BuilderTraitFinish | SMode::BgzfTraitFinish);
    let (h1, r1) = (header.clone(), recs.clone());
    let real: RunFn = Arc::new(move |tap, run| match mode {
        SMode::Plain | SMode::PlainTraitFinish => {
            let mut w = sam::io::Writer::new(tap.clone());
            alignment_calls(&mut w, tap, run, &h1, &r1, tf);
            run.end(tap);
        }
        SMode::BuilderTraitFinish | SMode::BuilderDrop => {
            let mut w = sam::io::writer::Builder::default().build_from_writer(tap.clone());
            alignment_calls(&mut w, tap, run, &h1, &r1, tf);
            run.end(tap);
            drop(w);
        }
        SMode::BgzfTryFinish | SMode::BgzfTraitFinish => {
            let mut w = sam::io::Writer::new(bgzf::io::Writer::new(tap.clone()));
            if !alignment_calls(&mut w, tap, run, &h1, &r1, tf) {
                return;
            }
            if mode == SMode::BgzfTryFinish {
                call!(run, tap, w.get_mut().try_finish(), ());
            }
            run.end(tap);
            drop(w);
        }
    });
    let (h2, r2) = (header.clone(), recs.clone());
    let record: RunFn = Arc::new(move |tap, run| {
        let mut w = sam::io::Writer::new(tap.clone());
        alignment_calls(&mut w, tap, run, &h2, &r2, tf);
        run.end(tap);
    });
    let (kind, layer, tail, has_finish): (&str, Layer, Vec<&'static str>, bool) = match mode {
        SMode::Plain => ("sam", Layer::Direct, vec![], true),
        SMode::PlainTraitFinish => ("sam", Layer::Direct, vec![], true),
        SMode::BuilderTraitFinish => ("sam-builder", Layer::Buffered(8192), vec![], true),
        SMode::BuilderDrop => ("sam-builder", Layer::Buffered(8192), vec![], false),
        SMode::BgzfTryFinish => ("sam-bgzf", Layer::Bgzf, vec!["F"], true),
        SMode::BgzfTraitFinish => ("sam-bgzf", Layer::Bgzf, vec![], false),
    };
    Session {
        kind: kind.into(),
        name: format!("sam-{mode:?}{}", if bad != Bad::None { "-badrec" } else { "" }).to_lowercase(),
        layer,
        real,
        record,
        tail,
        wrap_from: None,
        drop_after_ok: true,
        has_finish,
        post_unmodelled: false,
        same_run: false,
    }
}

// ------------------------------------------------------------------ sessions: variant formats

fn variant_calls(w: &mut dyn vcf::variant::io::Write, tap: &Tap, run: &mut Run, h: &vcf::Header, rs: &[vcf::variant::RecordBuf]) -> bool {
    call!(run, tap, w.write_variant_header(h), false);
    for r in rs {
        call!(run, tap, w.write_variant_record(h, r), false);
    }
    true
}

fn se_vcf(rng: &mut Rng, bgzipped: bool, bad: bool) -> Session {
    let nref = 1 + rng.below(3) as usize;
    let header = Arc::new(vcf_header(nref));
    let nrec = 1 + rng.below(6) as usize;
    let recs = Arc::new(gen_variants(rng, nref, nrec, bad));
    let (h1, r1) = (header.clone(), recs.clone());
    let real: RunFn = if bgzipped {
        Arc::new(move |tap, run| {
            let mut w = vcf::io::Writer::new(bgzf::io::Writer::new(tap.clone()));
            if !variant_calls(&mut w, tap, run, &h1, &r1) {
                return;
            }
            call!(run, tap, w.get_mut().try_finish(), ());
            run.end(tap);
            drop(w);
        })
    } else {
        Arc::new(move |tap, run| {
            let mut w = vcf::io::Writer::new(tap.clone());
            variant_calls(&mut w, tap, run, &h1, &r1);
            run.end(tap);
        })
    };
    let (h2, r2) = (header.clone(), recs.clone());
    let record: RunFn = Arc::new(move |tap, run| {
        let mut w = vcf::io::Writer::new(tap.clone());
        variant_calls(&mut w, tap, run, &h2, &r2);
        run.end(tap);
    });
    Session {
        kind: if bgzipped { "vcf-bgzf".into() } else { "vcf".into() },
        name: format!("vcf{}{}", if bgzipped { "-bgzf" } else { "" }, if bad { "-badrec" } else { "" }),
        layer: if bgzipped { Layer::Bgzf } else { Layer::Direct },
        real,
        record,
        tail: if bgzipped { vec!["F"] } else { vec![] },
        // write_variant_record used to map every error, the destination's included, to
        // io::Error::new(InvalidInput, e); since fix c1b7d66 only its own serialization errors are mapped
        // and the destination's error is returned as it is
        wrap_from: None,
        drop_after_ok: true,
        has_finish: true,
        post_unmodelled: false,
        same_run: false,
    }
}

fn se_bcf(rng: &mut Rng, bad: bool) -> (Session, String) {
    let nref = 1 + rng.below(3) as usize;
    let header = Arc::new(vcf_header(nref));
    let nrec = 1 + rng.below(6) as usize;
    let recs = Arc::new(gen_variants(rng, nref, nrec, bad));
    let (h1, r1) = (header.clone(), recs.clone());
    let real: RunFn = Arc::new(move |tap, run| {
        let mut w = bcf::io::Writer::new(tap.clone());
        if !variant_calls(&mut w, tap, run, &h1, &r1) {
            return;
        }
        call!(run, tap, w.try_finish(), ());
        run.end(tap);
        drop(w);
    });
    let (h2, r2) = (header.clone(), recs.clone());
    let record: RunFn = Arc::new(move |tap, run| {
        let mut w = bcf::io::Writer::from(tap.clone());
        variant_calls(&mut w, tap, run, &h2, &r2);
        run.end(tap);
    });
    // summary for `c14 wi bcf`: header text as the VCF writer serialises it; for every record what
    // the writer puts into a Vec, split at l_shared (the encoders are crate-private)
    let text = {
        let mut t = vcf::io::Writer::new(Vec::new());
        t.write_header(&header).unwrap();
        t.into_inner()
    };
    let mut encs: Vec<String> = vec![];
    {
        use vcf::variant::io::Write as _;
        let mut t = bcf::io::Writer::from(Vec::new());
        t.write_variant_header(&header).unwrap();
        for r in recs.iter() {
            let at = t.get_ref().len();
            match t.write_variant_record(&header, r) {
                Ok(()) => {
                    let b = &t.get_ref()[at..];
                    let ls = u32::from_le_bytes(b[0..4].try_into().unwrap()) as usize;
                    encs.push(format!("{}:{}", hex(&b[8..8 + ls]), hex(&b[8 + ls..])));
                }
                Err(e) => {
                    // the session stops at the first call that fails
                    encs.push(format!("x{}", own_code(errclass(&e))));
                    break;
                }
            }
        }
    }
    let wi = format!("c14 wi bcf {} {}", hex(&text), if encs.is_empty() { "-".into() } else { encs.join(",") });
    (
        Session {
            kind: "bcf".into(),
            name: format!("bcf{}", if bad { "-badrec" } else { "" }),
            layer: Layer::Bgzf,
            real,
            record,
            tail: vec!["F"],
            wrap_from: None,
            drop_after_ok: true,
            has_finish: true,
            post_unmodelled: false,
            same_run: false,
        },
        wi,
    )
}

// ------------------------------------------------------------------ sessions: text formats

/// a session over a format writer that is generic in its inner writer: `direct` over the tap, or
/// over a `BufWriter` the caller (here: the harness) puts in between
#[derive(Clone, Copy, PartialEq, Debug)]
enum Stack {
    Direct,
    /// `BufWriter::with_capacity(cap, tap)`; ends with `get_mut().flush()` if `flush`
    UserBuf { cap: usize, flush: bool },
}

fn stack_session(kind: &str, name: String, stack: Stack, direct: RunFn, buffered: Option<Arc<dyn Fn(&Tap, &mut Run, usize, bool) + Send + Sync>>) -> Session {
    match stack {
        Stack::Direct => Session {
            kind: kind.into(),
            name,
            layer: Layer::Direct,
            real: direct.clone(),
            record: direct,
            tail: vec![],
            wrap_from: None,
            drop_after_ok: true,
            has_finish: true,
            post_unmodelled: false,
            same_run: false,
        },
        Stack::UserBuf { cap, flush } => {
            let b = buffered.unwrap();
            Session {
                kind: "-".into(),
                name: format!("{name}-bufwriter{}", if flush { "-flush" } else { "-drop" }),
                layer: Layer::Buffered(cap),
                real: Arc::new(move |tap, run| b(tap, run, cap, flush)),
                record: direct,
                tail: if flush { vec!["f"] } else { vec![] },
                wrap_from: None,
                drop_after_ok: true,
                has_finish: flush,
                post_unmodelled: false,
                same_run: false,
            }
        }
    }
}

fn se_fasta(rng: &mut Rng, stack: Stack) -> (Session, String) {
    use fasta::record::{Definition, Sequence};
    let n = 1 + rng.below(5) as usize;
    let lbc = *rng.pick(&[1usize, 7, 60, 80]);
    let recs: Arc<Vec<fasta::Record>> = Arc::new(
        (0..n)
            .map(|i| {
                let any = rng.below(200) as usize;
                let len = *rng.pick(&[0usize, 1, lbc, lbc + 1, 2 * lbc, 3 * lbc - 1, any]);
                let seq: Vec<u8> = (0..len).map(|_| *rng.pick(b"ACGTN")).collect();
                let desc = match rng.below(3) {
                    0 => None,
                    1 => Some(bstr::BString::from("")),
                    _ => Some(bstr::BString::from(format!("desc {i}"))),
                };
                let name = if rng.chance(1, 8) { String::new() } else { format!("sq{i}") };
                fasta::Record::new(Definition::new(name, desc), Sequence::from(seq))
            })
            .collect(),
    );
    fn calls<W: Write>(w: &mut fasta::io::Writer<W>, tap: &Tap, run: &mut Run, rs: &[fasta::Record]) -> bool {
        for r in rs {
            call!(run, tap, w.write_record(r), false);
        }
        true
    }
    let r1 = recs.clone();
    let direct: RunFn = Arc::new(move |tap, run| {
        let mut w = fasta::io::writer::Builder::default().set_line_base_count(NonZero::new(lbc).unwrap()).build_from_writer(tap.clone());
        calls(&mut w, tap, run, &r1);
        run.end(tap);
    });
    let r2 = recs.clone();
    let buffered: Arc<dyn Fn(&Tap, &mut Run, usize, bool) + Send + Sync> = Arc::new(move |tap, run, cap, flush| {
        let mut w = fasta::io::writer::Builder::default().set_line_base_count(NonZero::new(lbc).unwrap()).build_from_writer(io::BufWriter::with_capacity(cap, tap.clone()));
        if !calls(&mut w, tap, run, &r2) {
            return;
        }
        if flush {
            call!(run, tap, w.get_mut().flush(), ());
        }
        run.end(tap);
        drop(w);
    });
    let summary: Vec<String> = recs
        .iter()
        .map(|r| format!("{}:{}:{}", hex(r.name()), r.description().map(|d| hex(d)).unwrap_or("~".into()), hex(r.sequence().as_ref())))
        .collect();
    let wi = format!("c14 wi fasta {lbc} {}", summary.join(";"));
    (stack_session("fasta", "fasta".into(), stack, direct, Some(buffered)), wi)
}

fn se_fastq(rng: &mut Rng, stack: Stack) -> (Session, String) {
    let n = 1 + rng.below(6) as usize;
    let recs: Arc<Vec<fastq::Record>> = Arc::new(
        (0..n)
            .map(|i| {
                let len = rng.below(60) as usize;
                let seq: Vec<u8> = (0..len).map(|_| *rng.pick(b"ACGTN")).collect();
                let q: Vec<u8> = (0..len).map(|_| b'!' + rng.below(40) as u8).collect();
                let name = if rng.chance(1, 8) { String::new() } else { format!("r{i}") };
                fastq::Record::new(fastq::record::Definition::new(name, if rng.chance(1, 2) { "d e" } else { "" }), seq, q)
            })
            .collect(),
    );
    fn calls<W: Write>(w: &mut fastq::io::Writer<W>, tap: &Tap, run: &mut Run, rs: &[fastq::Record]) -> bool {
        for r in rs {
            call!(run, tap, w.write_record(r), false);
        }
        true
    }
    let r1 = recs.clone();
    let direct: RunFn = Arc::new(move |tap, run| {
        let mut w = fastq::io::Writer::new(tap.clone());
        calls(&mut w, tap, run, &r1);
        run.end(tap);
    });
    let r2 = recs.clone();
    let buffered: Arc<dyn Fn(&Tap, &mut Run, usize, bool) + Send + Sync> = Arc::new(move |tap, run, cap, flush| {
        let mut w = fastq::io::Writer::new(io::BufWriter::with_capacity(cap, tap.clone()));
        if !calls(&mut w, tap, run, &r2) {
            return;
        }
        if flush {
            call!(run, tap, w.get_mut().flush(), ());
        }
        run.end(tap);
        drop(w);
    });
    let summary: Vec<String> = recs.iter().map(|r| format!("{}:{}:{}:{}", hex(r.name()), hex(r.description()), hex(r.sequence()), hex(r.quality_scores()))).collect();
    let wi = format!("c14 wi fastq 32 {}", summary.join(";"));
    (stack_session("fastq", "fastq".into(), stack, direct, Some(buffered)), wi)
}

fn gen_features(rng: &mut Rng, n: usize) -> Vec<gff::feature::RecordBuf> {
    use gff::feature::record::Strand;
    use gff::feature::record_buf::{attributes::field::Value, Attributes};
    (0..n)
        .map(|i| {
            let s = 1 + rng.below(10_000) as usize;
            let attrs: Attributes = [(bstr::BString::from("gene_id"), Value::from(format!("g{i}"))), (bstr::BString::from("transcript_id"), Value::from(format!("t;{i}")))].into_iter().collect();
            gff::feature::RecordBuf::builder()
                .set_reference_sequence_name(format!("sq{}", rng.below(3)))
                .set_source("c14")
                .set_type("gene")
                .set_start(Position::try_from(s).unwrap())
                .set_end(Position::try_from(s + rng.below(500) as usize).unwrap())
                .set_strand(if rng.chance(1, 2) { Strand::Forward } else { Strand::Reverse })
                .set_attributes(attrs)
                .build()
        })
        .collect()
}

fn se_gff(rng: &mut Rng) -> Session {
    let n = 1 + rng.below(6) as usize;
    let recs = Arc::new(gen_features(rng, n));
    let direct: RunFn = Arc::new(move |tap, run| {
        use gff::directive_buf::{key, Value as DValue};
        let mut w = gff::io::Writer::new(tap.clone());
        let version = gff::DirectiveBuf::new(key::GFF_VERSION, Some(DValue::GffVersion(Default::default())));
        call!(run, tap, w.write_directive(&version), ());
        for r in recs.iter() {
            call!(run, tap, w.write_record(r), ());
        }
        run.end(tap);
    });
    stack_session("gff", "gff".into(), Stack::Direct, direct, None)
}

fn se_gtf(rng: &mut Rng) -> Session {
    let n = 1 + rng.below(6) as usize;
    let recs = Arc::new(gen_features(rng, n));
    let direct: RunFn = Arc::new(move |tap, run| {
        let mut w = gtf::io::Writer::new(tap.clone());
        for r in recs.iter() {
            call!(run, tap, w.write_record(r), ());
        }
        run.end(tap);
    });
    stack_session("gtf", "gtf".into(), Stack::Direct, direct, None)
}

#[derive(Clone, Copy, PartialEq, Debug)]
enum BedMode {
    Direct,
    /// `Builder::build_from_writer` (BufWriter, 8 KiB), ended with `get_mut().flush()`
    BuilderFlush,
    /// the same, just dropped: the rows reach the destination only inside `Drop`
    BuilderDrop,
}

fn se_bed(rng: &mut Rng, mode: BedMode, big: bool) -> Session {
    let n = if big { 450 + rng.below(200) as usize } else { 1 + rng.below(8) as usize };
    let rows: Arc<Vec<(String, usize, usize)>> = Arc::new(
        (0..n)
            .map(|_| {
                let s = 1 + rng.below(100_000) as usize;
                (format!("sq{}", rng.below(4)), s, s + rng.below(1000) as usize)
            })
            .collect(),
    );
    fn calls<W: Write>(w: &mut bed::io::Writer<3, W>, tap: &Tap, run: &mut Run, rows: &[(String, usize, usize)]) -> bool {
        for (c, s, e) in rows {
            let rec = bed::feature::RecordBuf::<3>::builder()
                .set_reference_sequence_name(c.as_str())
                .set_feature_start(Position::try_from(*s).unwrap())
                .set_feature_end(Position::try_from(*e).unwrap())
                .build();
            call!(run, tap, w.write_feature_record(&rec), false);
        }
        true
    }
    let r1 = rows.clone();
    let direct: RunFn = Arc::new(move |tap, run| {
        let mut w = bed::io::Writer::<3, _>::new(tap.clone());
        calls(&mut w, tap, run, &r1);
        run.end(tap);
    });
    if mode == BedMode::Direct {
        return stack_session("bed", "bed".into(), Stack::Direct, direct, None);
    }
    let r2 = rows.clone();
    let flush = mode == BedMode::BuilderFlush;
    let real: RunFn = Arc::new(move |tap, run| {
        let mut w = bed::io::writer::Builder::<3>::default().build_from_writer(tap.clone());
        if !calls(&mut w, tap, run, &r2) {
            return;
        }
        if flush {
            call!(run, tap, w.get_mut().flush(), ());
        }
        run.end(tap);
        drop(w);
    });
    Session {
        kind: "bed-builder".into(),
        name: format!("bed-{mode:?}{}", if big { "-big" } else { "" }).to_lowercase(),
        layer: Layer::Buffered(8192),
        real,
        record: direct,
        tail: if flush { vec!["f"] } else { vec![] },
        wrap_from: None,
        drop_after_ok: true,
        has_finish: flush,
        post_unmodelled: false,
        same_run: false,
    }
}

// ------------------------------------------------------------------ sessions: index writers

fn gen_binning_index<I>(rng: &mut Rng, header: bool) -> csi::binning_index::Index<I>
where
    I: csi::binning_index::index::reference_sequence::Index + Default,
{
    use super::c17::{ch, pos};
    // small coordinates: the linear index has one 8-byte `write_all` per 16 KiB window
    let nref = 1 + rng.below(2) as usize;
    let mut ix = csi::binning_index::Indexer::<I>::new(14, 5);
    if header {
        let mut names = csi::binning_index::index::header::ReferenceSequenceNames::new();
        for i in 0..nref {
            names.insert(format!("sq{i}").into_bytes().into());
        }
        ix = ix.set_header(csi::binning_index::index::header::Builder::vcf().set_reference_sequence_names(names).build());
    }
    let mut off = 1000u64;
    for rid in 0..nref {
        let mut s = 1usize;
        for _ in 0..rng.below(7) {
            s += rng.below(60_000) as usize;
            let e = s + rng.below(40_000) as usize;
            let next = off + 1 + rng.below(70_000);
            ix.add_record(Some((rid, pos(s), pos(e), rng.chance(5, 6))), ch(off << 16, next << 16)).unwrap();
            off = next;
        }
    }
    for _ in 0..rng.below(3) {
        ix.add_record(None, ch(0, 0)).unwrap();
    }
    ix.build(nref)
}

fn se_bai(rng: &mut Rng) -> Session {
    let idx: Arc<bam::bai::Index> = Arc::new(gen_binning_index(rng, false));
    let direct: RunFn = Arc::new(move |tap, run| {
        let mut w = bam::bai::io::Writer::new(tap.clone());
        call!(run, tap, w.write_index(&idx), ());
        run.end(tap);
    });
    stack_session("bai", "bai".into(), Stack::Direct, direct, None)
}

fn se_fai(rng: &mut Rng) -> Session {
    use fasta::fai;
    let recs: Vec<fai::Record> = (0..1 + rng.below(6))
        .map(|i| {
            let lb = 1 + rng.below(200);
            fai::Record::new(format!("sq{i}"), rng.below(1 << 40), rng.below(1 << 40), NonZero::new(lb).unwrap(), NonZero::new(lb + 1).unwrap())
        })
        .collect();
    let idx = Arc::new(fai::Index::from(recs));
    let direct: RunFn = Arc::new(move |tap, run| {
        let mut w = fai::io::Writer::new(tap.clone());
        call!(run, tap, w.write_index(&idx), ());
        run.end(tap);
    });
    stack_session("fai", "fai".into(), Stack::Direct, direct, None)
}

fn se_gzi(rng: &mut Rng) -> (Session, String) {
    let (mut c, mut u) = (0u64, 0u64);
    let v: Vec<(u64, u64)> = (0..rng.below(8))
        .map(|_| {
            c += 28 + rng.below(65000);
            u += rng.below(65537);
            (c, u)
        })
        .collect();
    let wi = format!("c14 wi gzi {}", if v.is_empty() { "-".to_string() } else { v.iter().map(|(a, b)| format!("{a}:{b}")).collect::<Vec<_>>().join(",") });
    let idx = Arc::new(bgzf::gzi::Index::from(v));
    let direct: RunFn = Arc::new(move |tap, run| {
        let mut w = bgzf::gzi::io::Writer::new(tap.clone());
        call!(run, tap, w.write_index(&idx), ());
        run.end(tap);
    });
    (stack_session("gzi", "gzi".into(), Stack::Direct, direct, None), wi)
}

/// CSI: as tabix (see `se_tabix`): the BGZF writer is inside and the index encoder is private
fn se_csi(rng: &mut Rng) -> Session {
    use std::io::Read;
    let with_header = rng.chance(1, 2);
    let idx: Arc<csi::Index> = Arc::new(gen_binning_index(rng, with_header));
    let i1 = idx.clone();
    let real: RunFn = Arc::new(move |tap, run| {
        let mut w = csi::io::Writer::new(tap.clone());
        call!(run, tap, w.write_index(&i1), ());
        call!(run, tap, w.get_mut().try_finish(), ());
        run.end(tap);
        drop(w);
    });
    let record: RunFn = Arc::new(move |tap, run| {
        let mut w = csi::io::Writer::new(Vec::new());
        w.write_index(&idx).unwrap();
        w.get_mut().try_finish().unwrap();
        let file = w.get_ref().get_ref().clone();
        let mut payload = vec![];
        bgzf::io::Reader::new(&file[..]).read_to_end(&mut payload).unwrap();
        let mut t = tap.clone();
        call!(run, tap, t.write_all(&payload), ());
        run.end(tap);
    });
    Session { kind: "csi".into(), name: "csi".into(), layer: Layer::Bgzf, real, record, tail: vec!["F"], wrap_from: None, drop_after_ok: true, has_finish: true, post_unmodelled: false, same_run: false }
}

fn se_crai(rng: &mut Rng) -> Session {
    use cram::crai;
    let recs: Arc<Vec<crai::Record>> = Arc::new(
        (0..1 + rng.below(12))
            .map(|_| {
                let (rid, st, span) = if rng.chance(1, 5) { (None, None, 0) } else { (Some(rng.below(100) as usize), Position::new(1 + rng.below(1 << 30) as usize), rng.below(1 << 20) as usize) };
                crai::Record::new(rid, st, span, rng.below(1 << 40), rng.below(1 << 20), rng.below(1 << 30))
            })
            .collect(),
    );
    // the gzip layer (flate2) is external: its calls on the destination ARE the recorded program
    let direct: RunFn = Arc::new(move |tap, run| {
        let mut w = crai::io::Writer::new(tap.clone());
        call!(run, tap, w.write_index(&recs), ());
        call!(run, tap, w.finish().map(|_| ()), ());
        run.end(tap);
    });
    let mut s = stack_session("crai", "crai".into(), Stack::Direct, direct, None);
    s.post_unmodelled = true;
    s
}

/// tabix: the index encoder is private and the BGZF writer is inside `Writer::new`, so the program
/// cannot be recorded at the format/BGZF boundary. Over BGZF only the concatenation of the
/// `write_all`s matters (no flush in between), so the program is ONE `write_all` of the payload
/// read back from the plain run. (Checks error propagation, bytes and call counts; not the emit
/// discipline of the encoder, which the BGZF layer makes unobservable anyway.)
fn se_tabix(rng: &mut Rng) -> Session {
    use std::io::Read;
    let idx: Arc<tabix::Index> = Arc::new(gen_binning_index(rng, true));
    let i1 = idx.clone();
    let real: RunFn = Arc::new(move |tap, run| {
        let mut w = tabix::io::Writer::new(tap.clone());
        call!(run, tap, w.write_index(&i1), ());
        call!(run, tap, w.try_finish(), ());
        run.end(tap);
        drop(w);
    });
    let record: RunFn = Arc::new(move |tap, run| {
        let mut w = tabix::io::Writer::new(Vec::new());
        w.write_index(&idx).unwrap();
        w.try_finish().unwrap();
        let file = w.get_ref().get_ref().clone();
        let mut payload = vec![];
        bgzf::io::Reader::new(&file[..]).read_to_end(&mut payload).unwrap();
        let mut t = tap.clone();
        call!(run, tap, t.write_all(&payload), ());
        run.end(tap);
    });
    Session { kind: "tabix".into(), name: "tabix".into(), layer: Layer::Bgzf, real, record, tail: vec!["F"], wrap_from: None, drop_after_ok: true, has_finish: true, post_unmodelled: false, same_run: false }
}

// ------------------------------------------------------------------ CRAM

fn cram_repo(nref: usize) -> fasta::Repository {
    use fasta::record::{Definition, Sequence};
    let recs: Vec<fasta::Record> = (0..nref).map(|i| fasta::Record::new(Definition::new(format!("sq{i}"), None), Sequence::from(REF.to_vec()))).collect();
    fasta::Repository::new(recs)
}

struct CramCase {
    session: Session,
    cap: usize,
    nrec: usize,
    fin: bool,
}

fn se_cram(rng: &mut Rng, fin: bool) -> CramCase {
    let header = Arc::new(sam_header(1, false));
    let nrec = 1 + rng.below(9) as usize;
    let recs = Arc::new(gen_alignments(rng, 1, nrec, false, Bad::None));
    let (rps, spc) = (1 + rng.below(3) as usize, 1 + rng.below(2) as usize);
    let real: RunFn = Arc::new(move |tap, run| {
        use sam::alignment::io::Write as _;
        let b = cram::io::writer::Builder::default().set_reference_sequence_repository(cram_repo(1));
        let mut w = b.verif_build_from_writer_with_layout(tap.clone(), rps, spc);
        call!(run, tap, w.write_header(&header), ());
        for r in recs.iter() {
            call!(run, tap, w.write_alignment_record(&header, r), ());
        }
        if fin {
            call!(run, tap, w.try_finish(&header), ());
        }
        run.end(tap);
        drop(w);
    });
    CramCase {
        session: Session {
            kind: "cram".into(),
            name: if fin { "cram".into() } else { "cram-nofinish".into() },
            layer: Layer::Direct,
            real: real.clone(),
            record: real,
            tail: vec![],
            wrap_from: None,
            drop_after_ok: true,
            has_finish: fin,
            post_unmodelled: false,
            same_run: true,
        },
        cap: rps * spc,
        nrec,
        fin,
    }
}

/// `c14 wi cram`: the healthy run's containers, in order of appearance, must sit in the calls the
/// model says (record #cap, #2cap, …, the rest in try_finish before the EOF container)
fn cram_wi(ctx: &mut Ctx, c: &CramCase, case: &str) {
    let Ok(o) = exec(&c.session.real, &Cfg::plain()) else { return };
    let Ok(calls) = program_of(&o.log, &o.run, false) else { return };
    if calls.is_empty() {
        return;
    }
    let hdr = calls[0].iter().map(|e| e[1..].to_string()).collect::<Vec<_>>().join(",");
    let mut conts: Vec<String> = vec![];
    for (i, cl) in calls.iter().enumerate().skip(1) {
        let mut items: Vec<String> = cl.iter().map(|e| e[1..].to_string()).collect();
        if c.fin && i + 1 == calls.len() {
            items.pop(); // the EOF container is the model's constant
        }
        if !items.is_empty() {
            conts.push(items.join(","));
        }
    }
    ctx.corr(
        format!("c14 wi cram {} {} {} {} {}", c.cap, c.nrec, c.fin as u8, if hdr.is_empty() { "-".into() } else { hdr }, if conts.is_empty() { "-".into() } else { conts.join(";") }),
        fmt_calls(&calls, None),
    );
    ctx.bump("wi_cram");
    // staged records are lost without try_finish (no Drop): count what the plain run left behind
    if !c.fin && c.nrec % c.cap != 0 {
        ctx.bump("cram_nofinish_records_left_staged");
    }
    ctx.eval(Some(fnv(format!("{case}/wi").as_bytes())));
}

// ------------------------------------------------------------------ raw layers: std BufWriter and the destination itself

#[derive(Clone, Debug)]
enum RawOp {
    All(Vec<u8>),
    Flush,
}

/// random `write_all` / `flush` lists straight on `BufWriter::with_capacity(cap, tap)` (cap 0 … 64)
/// or on the tap itself: validates the two transcribed layers call by call
fn se_raw(rng: &mut Rng, buffered: bool, corpus: Option<(usize, Vec<RawOp>)>) -> Session {
    let cap = *rng.pick(&[0usize, 1, 2, 5, 8, 16, 64]);
    let nops = 1 + rng.below(10) as usize;
    let mut ops: Vec<RawOp> = (0..nops)
        .map(|_| {
            if rng.chance(1, 5) {
                RawOp::Flush
            } else {
                // lengths around the capacity and the spare capacity
                let len = match rng.below(6) {
                    0 => 0,
                    1 => cap,
                    2 => cap.saturating_sub(1),
                    3 => cap + 1,
                    4 => 2 * cap + 3,
                    _ => rng.below(12) as usize,
                };
                RawOp::All(rng.bytes(len))
            }
        })
        .collect();
    let mut cap = cap;
    if let Some((c, o)) = corpus {
        cap = c;
        ops = o;
    }
    let ops = Arc::new(ops);
    let end_flush = rng.chance(1, 2);
    fn drive<W: Write>(w: &mut W, tap: &Tap, run: &mut Run, ops: &[RawOp]) -> bool {
        for op in ops {
            match op {
                RawOp::All(b) => call!(run, tap, w.write_all(b), false),
                RawOp::Flush => call!(run, tap, w.flush(), false),
            }
        }
        true
    }
    let o1 = ops.clone();
    let direct: RunFn = Arc::new(move |tap, run| {
        let mut t = tap.clone();
        drive(&mut t, tap, run, &o1);
        run.end(tap);
    });
    if !buffered {
        let mut s = stack_session("-", "raw-direct".into(), Stack::Direct, direct, None);
        s.has_finish = true;
        return s;
    }
    let o2 = ops.clone();
    let real: RunFn = Arc::new(move |tap, run| {
        let mut w = io::BufWriter::with_capacity(cap, tap.clone());
        if !drive(&mut w, tap, run, &o2) {
            return;
        }
        if end_flush {
            call!(run, tap, w.flush(), ());
        }
        run.end(tap);
        drop(w);
    });
    // the recording run sees `flush` as a destination flush: the same item
    Session {
        kind: "-".into(),
        name: format!("raw-bufwriter-cap{}", match cap { 0 => "0", 1 => "1", 2..=8 => "2-8", _ => ">8" }),
        layer: Layer::Buffered(cap),
        real,
        record: direct,
        tail: if end_flush { vec!["f"] } else { vec![] },
        wrap_from: None,
        drop_after_ok: true,
        has_finish: end_flush,
        post_unmodelled: false,
        same_run: false,
    }
}

// ------------------------------------------------------------------ entry points

const SESSIONS: [&str; 41] = [
    "raw-direct", "raw-bufwriter", "raw-bufwriter2", "raw-bufwriter3",
    "fasta", "fasta-buf-flush", "fasta-buf-drop", "fastq", "fastq-buf-flush", "fastq-buf-drop",
    "sam", "sam-traitfinish", "sam-badrec", "sam-builder-traitfinish", "sam-builder-drop", "sam-builder-big", "sam-bgzf-tryfinish", "sam-bgzf-traitfinish",
    "bam-tryfinish-drop", "bam-tryfinish-into", "bam-traitfinish", "bam-drop", "bam-badrec", "bam-nulref",
    "bcf", "bcf-badrec", "vcf", "vcf-badrec", "vcf-bgzf",
    "gff", "gtf", "bed", "bed-builder-flush", "bed-builder-drop", "bed-builder-big",
    "fai", "gzi", "bai", "csi", "tabix", "crai",
];

/// (session, optional `c14 wi` request whose answer is the recorded program)
fn make_session(name: &str, sub: u64) -> Option<(Session, Option<String>)> {
    let mut rng = Rng::new(sub ^ fnv(name.as_bytes()));
    let rng = &mut rng;
    let ub = |rng: &mut Rng, flush: bool| Stack::UserBuf { cap: *rng.pick(&[0usize, 1, 9, 33, 100]), flush };
    Some(match name {
        "raw-direct" => (se_raw(rng, false, None), None),
        "raw-bufwriter" | "raw-bufwriter2" | "raw-bufwriter3" => (se_raw(rng, true, None), None),
        "fasta" => {
            let (s, wi) = se_fasta(rng, Stack::Direct);
            (s, Some(wi))
        }
        "fasta-buf-flush" | "fasta-buf-drop" => {
            let st = ub(rng, name == "fasta-buf-flush");
            (se_fasta(rng, st).0, None)
        }
        "fastq" => {
            let (s, wi) = se_fastq(rng, Stack::Direct);
            (s, Some(wi))
        }
        "fastq-buf-flush" | "fastq-buf-drop" => {
            let st = ub(rng, name == "fastq-buf-flush");
            (se_fastq(rng, st).0, None)
        }
        "sam" => (se_sam(rng, SMode::Plain, Bad::None, false), None),
        "sam-traitfinish" => (se_sam(rng, SMode::PlainTraitFinish, Bad::None, false), None),
        "sam-badrec" => (se_sam(rng, SMode::Plain, Bad::QualRange, false), None),
        "sam-builder-traitfinish" => (se_sam(rng, SMode::BuilderTraitFinish, Bad::None, false), None),
        "sam-builder-drop" => (se_sam(rng, SMode::BuilderDrop, Bad::None, false), None),
        "sam-builder-big" => {
            let m = if rng.chance(1, 2) { SMode::BuilderTraitFinish } else { SMode::BuilderDrop };
            (se_sam(rng, m, Bad::None, true), None)
        }
        "sam-bgzf-tryfinish" => (se_sam(rng, SMode::BgzfTryFinish, Bad::None, false), None),
        "sam-bgzf-traitfinish" => (se_sam(rng, SMode::BgzfTraitFinish, Bad::None, false), None),
        "bam-tryfinish-drop" | "bam-tryfinish-into" | "bam-traitfinish" | "bam-drop" | "bam-badrec" | "bam-nulref" | "bam-big" => {
            let (end, bad, nul) = match name {
                "bam-tryfinish-into" => (AEnd::TryFinishInto, Bad::None, false),
                "bam-traitfinish" => (AEnd::TraitFinishDrop, Bad::None, false),
                "bam-drop" => (AEnd::Drop, Bad::None, false),
                "bam-badrec" => (AEnd::TryFinishDrop, Bad::QualLen, false),
                "bam-nulref" => (AEnd::TryFinishDrop, Bad::None, true),
                _ => (AEnd::TryFinishDrop, Bad::None, false),
            };
            let (s, wi) = se_bam(rng, end, bad, nul, name == "bam-big");
            (s, Some(wi))
        }
        "bcf" | "bcf-badrec" => {
            let (s, wi) = se_bcf(rng, name == "bcf-badrec");
            (s, Some(wi))
        }
        "vcf" => (se_vcf(rng, false, false), None),
        "vcf-badrec" => (se_vcf(rng, false, true), None),
        "vcf-bgzf" => (se_vcf(rng, true, false), None),
        "gff" => (se_gff(rng), None),
        "gtf" => (se_gtf(rng), None),
        "bed" => (se_bed(rng, BedMode::Direct, false), None),
        "bed-builder-flush" => (se_bed(rng, BedMode::BuilderFlush, false), None),
        "bed-builder-drop" => (se_bed(rng, BedMode::BuilderDrop, false), None),
        "bed-builder-big" => {
            let m = if rng.chance(1, 2) { BedMode::BuilderFlush } else { BedMode::BuilderDrop };
            (se_bed(rng, m, true), None)
        }
        "fai" => (se_fai(rng), None),
        "gzi" => {
            let (s, wi) = se_gzi(rng);
            (s, Some(wi))
        }
        "bai" => (se_bai(rng), None),
        "csi" => (se_csi(rng), None),
        "tabix" => (se_tabix(rng), None),
        "crai" => (se_crai(rng), None),
        _ => return None,
    })
}

fn session_case(ctx: &mut Ctx, name: &str, sub: u64) {
    let case = format!("wp {name} {sub}");
    if name == "cram" || name == "cram-nofinish" {
        let mut rng = Rng::new(sub ^ fnv(name.as_bytes()));
        let c = se_cram(&mut rng, name == "cram");
        cram_wi(ctx, &c, &case);
        check_session(ctx, &c.session, sub, &case);
        return;
    }
    let Some((s, wi)) = make_session(name, sub) else { return };
    if let Some(req) = wi {
        // the model predicts the program from the data; the answer is what the recording run saw
        if let Ok(rec) = exec(&s.record, &Cfg::plain()) {
            if let Ok(mut calls) = program_of(&rec.log, &rec.run, false) {
                // the data summary covers header and records; a trailing trait `finish` (= flush) is a layer call
                if calls.last().map(|c| c.len() == 1 && c[0] == "f").unwrap_or(false) {
                    calls.pop();
                }
                ctx.corr(req, fmt_calls(&calls, None));
                ctx.bump(&format!("wi_{}", s.kind));
            }
        }
    }
    check_session(ctx, &s, sub, &case);
}

/// boundary cases, run first on every seed
fn corpus(ctx: &mut Ctx) {
    let a = |b: &[u8]| RawOp::All(b.to_vec());
    let cases: Vec<(usize, Vec<RawOp>)> = vec![
        (4, vec![]),
        (4, vec![RawOp::Flush]),
        (4, vec![a(b"")]),
        (0, vec![a(b""), a(b"x"), RawOp::Flush]),
        // fills the buffer exactly (len == spare: buffered without a flush), then one more byte
        (4, vec![a(b"abc"), a(b"d"), a(b"e")]),
        // len == capacity on an empty buffer: written through
        (4, vec![a(b"abcd"), a(b"ef")]),
        // len > capacity with bytes buffered: flush_buf, then written through
        (4, vec![a(b"a"), a(b"bcdefgh"), RawOp::Flush]),
        // len > spare but < capacity: flush_buf, then buffered
        (4, vec![a(b"abc"), a(b"de"), RawOp::Flush, RawOp::Flush]),
        (1, vec![a(b"a"), a(b"b"), a(b"cd")]),
    ];
    for (i, (cap, ops)) in cases.into_iter().enumerate() {
        let mut rng = Rng::new(i as u64);
        let s = se_raw(&mut rng, true, Some((cap, ops.clone())));
        check_session(ctx, &s, i as u64, &format!("wpcorpus {i}"));
        let mut rng = Rng::new(i as u64);
        let mut s = se_raw(&mut rng, false, Some((cap, ops)));
        s.name = "raw-direct".into();
        check_session(ctx, &s, i as u64, &format!("wpcorpus {i}"));
        ctx.bump("more_corpus_cases");
    }
    // a malformed stream of requests: the model must refuse, not guess
    for (req, ans) in [
        ("c14 wp nosuchkind direct 0 - 1 - 0 0 1 e41 -", "bad-op"),
        ("c14 wp bam direct 0 - 1 - 0 0 1 e41 -", "layer-mismatch"),
        ("c14 wp - direct 0 - 1 - 0 0 1 e4 -", "bad-op"),
        ("c14 wp - bgzf 6 - 1 3 1 0 1 e41 -", "bad-op"),
        ("c14 wi gzi 1:2:3", "bad-op"),
    ] {
        ctx.corr(req.into(), ans.into());
    }
}

pub fn run(ctx: &mut Ctx) {
    corpus(ctx);
    let rounds = ctx.n(2, 12);
    for name in SESSIONS.iter().copied().chain(["cram", "cram-nofinish"]) {
        let big = name.ends_with("-big");
        for it in 0..if big { ctx.n(1, 3) } else { rounds } {
            let sub = ctx.seed.wrapping_mul(5_000_011).wrapping_add(it);
            session_case(ctx, name, sub);
        }
    }
    if ctx.tier_thorough {
        for it in 0..2 {
            session_case(ctx, "bam-big", ctx.seed.wrapping_mul(5_000_011).wrapping_add(it));
        }
    }
    ctx.sample(|| "c14 wp fasta direct 0 i,a1 3 4 1 7 1 e3e,e7371;e41 -  (two calls; destination interrupts, accepts 1, then 3 bytes per call, fails ONCE at its 5th call with UnexpectedEof)".into());
}

pub fn replay(ctx: &mut Ctx, case: &[String]) -> bool {
    match case.first().map(|s| s.as_str()) {
        Some("wp") => {
            session_case(ctx, &case[1], case[2].parse().unwrap_or(0));
            true
        }
        Some("wpcorpus") => {
            corpus(ctx);
            true
        }
        _ => false,
    }
}
