// ---------------------------------------------------------------- BAM header, BCF header, BCF records
// (included into c15_bin.rs)

fn d_refs(rs: &sam::header::ReferenceSequences) -> String {
    join_or_dash(rs.iter().map(|(n, m)| format!("{}:{}", d_name(n.as_ref()), usize::from(m.length()))).collect(), ",")
}
fn d_lines(ls: &[Vec<u8>]) -> String {
    join_or_dash(ls.iter().map(|l| d_name(l)).collect(), ";")
}

/// `read_line` of the header readers (private there): `read_until(b'\n')`, strip `\n` then `\r`
fn read_lines<R: BufRead>(r: &mut R) -> io::Result<Vec<Vec<u8>>> {
    match read_lines_until_error(r) {
        (l, None) => Ok(l),
        (_, Some(e)) => Err(e),
    }
}

/// the lines delivered, and the error that ended the source if one did
fn read_lines_until_error<R: BufRead>(r: &mut R) -> (Vec<Vec<u8>>, Option<io::Error>) {
    let mut out = vec![];
    loop {
        let mut dst = vec![];
        match r.read_until(b'\n', &mut dst) {
            Err(e) => return (out, Some(e)),
            Ok(0) => return (out, None),
            Ok(_) => {}
        }
        if dst.ends_with(b"\n") {
            dst.pop();
            if dst.ends_with(b"\r") {
                dst.pop();
            }
        }
        out.push(dst);
    }
}

/// the SAM header parser's verdict on these lines: `!` or the dictionary of the parsed header
fn sam_parser_table(lines: &[Vec<u8>]) -> String {
    let mut p = sam::header::Parser::default();
    for l in lines {
        if p.parse_partial(l).is_err() {
            return "!".into();
        }
    }
    d_refs(p.finish().reference_sequences())
}

fn bamhdr_answer<S: Src>(src: S) -> String {
    let mut r = bam::io::Reader::from(src);
    match r.read_header() {
        Ok(h) => format!("ok {} rest={}", d_refs(h.reference_sequences()), r.get_ref().left()),
        Err(e) => io_class(&e),
    }
}

/// the public pieces in the order of `read_header_inner`; also returns the lines for the table
fn bamhdr_parts<S: Src>(src: S) -> (String, Option<Vec<Vec<u8>>>) {
    let mut r = bam::io::Reader::from(src);
    let mut lines_out = None;
    let ans = (|| -> io::Result<String> {
        let mut hr = r.header_reader();
        let magic = hr.read_magic_number()?;
        if magic != *b"BAM\x01" {
            return Err(io::Error::new(io::ErrorKind::InvalidData, "magic"));
        }
        let lines = {
            let mut tr = hr.raw_sam_header_reader()?;
            let lines = read_lines(&mut tr)?;
            tr.discard_to_end()?;
            lines
        };
        lines_out = Some(lines.clone());
        let refs = hr.read_reference_sequences()?;
        Ok(format!("ok lines={} refs={}", d_lines(&lines), d_refs(&refs)))
    })();
    match ans {
        Ok(s) => (format!("{s} rest={}", r.get_ref().left()), lines_out),
        Err(e) => (io_class(&e), lines_out),
    }
}

fn bamhdr_case(ctx: &mut Ctx, b: &[u8]) {
    let v = b.to_vec();
    let req = format!("c15 bamhdrparts {}", hex(b));
    let mut lines = None;
    if let Some(a) = emit(ctx, req.clone(), || {
        let (a, l) = bamhdr_parts(&v[..]);
        lines = l;
        a
    }) {
        chunk_oracle(ctx, "bamhdrparts", &req, &a, |s| bamhdr_parts(s).0, b);
    }
    // the parser's verdict on the lines the REAL text reader delivered (none delivered: the
    // reader failed before the text, the table is not consulted)
    let table = guarded(|| lines.map(|l| sam_parser_table(&l)).unwrap_or_else(|| "-".into())).unwrap_or_else(|_| "!".into());
    ctx.bump(&format!("bin_parser:sam:{}", if table == "!" { "reject" } else if table == "-" { "no-refs" } else { "refs" }));
    let v = b.to_vec();
    let req = format!("c15 bamhdr {} {}", hex(b), table);
    if let Some(a) = emit(ctx, req.clone(), move || bamhdr_answer(&v[..])) {
        chunk_oracle(ctx, "bamhdr", &req, &a, bamhdr_answer, b);
    }
}

const SAM_LINES_OK: [&str; 7] = ["@HD\tVN:1.6\tSO:coordinate", "@SQ\tSN:sq0\tLN:8", "@SQ\tSN:sq1\tLN:13", "@RG\tID:rg0", "@PG\tID:pg0\tPN:nvh", "@CO\tcomment", "@CO\t"];
const SAM_LINES_BAD: [&str; 7] = ["@XX\tfoo", "garbage", "", "@SQ\tSN:sq0", "@SQ\tSN:sq0\tLN:0", "@HD\tVN:x", "@SQ\tSN:sq0\tLN:8"];

/// header text: mostly valid lines, the terminators and the NUL padding varied
fn gen_text(rng: &mut Rng, ok: &[&str], bad: &[&str]) -> Vec<u8> {
    let mut t = vec![];
    let n = rng.below(5);
    for i in 0..n {
        let l = if rng.chance(1, 8) { *rng.pick(bad) } else { ok[(i as usize + rng.below(2) as usize) % ok.len()] };
        t.extend_from_slice(l.as_bytes());
        if rng.chance(1, 12) {
            t.push(0); // NUL inside a line
            t.extend_from_slice(b"x");
        }
        match rng.below(8) {
            0 => t.extend_from_slice(b"\r\n"),
            1 if i + 1 == n => {} // last line unterminated
            2 => t.extend_from_slice(b"\r\r\n"),
            _ => t.push(b'\n'),
        }
    }
    match rng.below(6) {
        0 => t.extend_from_slice(&[0, 0, 0]),
        1 => t.extend_from_slice(b"\0@CO\tafter the padding\n"),
        2 => t.push(0),
        3 => t.extend_from_slice(b"\n\0"),
        _ => {}
    }
    t
}

fn gen_bam_header(rng: &mut Rng) -> Lay {
    let mut lay = Lay::default();
    lay.raw(b"BAM\x01");
    let text = gen_text(rng, &SAM_LINES_OK, &SAM_LINES_BAD);
    let has_sq = text.windows(3).filter(|w| w == b"@SQ").count();
    lay.u32(text.len() as u32, 'u');
    lay.raw(&text);
    // the binary dictionary: agrees with the text most of the time
    let refs: Vec<(Vec<u8>, u32)> = match rng.below(6) {
        0 => vec![],
        1 => vec![(b"sq0\0".to_vec(), 8)],
        2 => vec![(b"sq0\0".to_vec(), 8), (b"sq1\0".to_vec(), 13)],
        3 => vec![(b"sq0\0".to_vec(), 9)],
        4 => vec![(b"sq0\0".to_vec(), 8), (b"sq0\0".to_vec(), 13), (b"\0".to_vec(), 1)],
        _ => (0..has_sq.min(2)).map(|i| (format!("sq{i}\0").into_bytes(), [8u32, 13][i])).collect(),
    };
    lay.u32(refs.len() as u32, 'u');
    for (n, l) in &refs {
        let mut n = n.clone();
        match rng.below(16) {
            0 => {
                n.pop();
            } // no NUL
            1 => n.insert(1, 0), // interior NUL
            2 => n.push(0),      // two NULs
            _ => {}
        }
        lay.u32(n.len() as u32, 'u');
        lay.raw(&n);
        lay.u32(if rng.chance(1, 16) { 0 } else { *l }, 'u');
    }
    if rng.chance(1, 3) {
        lay.raw(&[0x20, 0, 0, 0, 1]);
    }
    lay
}

// ---------------------------------------------------------------- BCF header

fn vcf_parser_table(lines: &[Vec<u8>]) -> &'static str {
    let mut p = vcf::header::Parser::default();
    let mut sm = vcf::header::StringMaps::default();
    for l in lines {
        match p.parse_partial(l) {
            Err(_) => return "L",
            Ok(e) => {
                if sm.insert_entry(&e).is_err() {
                    return "L";
                }
            }
        }
    }
    if p.finish().is_err() { "F" } else { "K" }
}

fn bcfhdr_answer<S: Src>(src: S) -> String {
    let mut r = bcf::io::Reader::from(src);
    match r.read_header() {
        Ok(_) => format!("ok hdr rest={}", r.get_ref().left()),
        Err(e) => io_class(&e),
    }
}

fn bcfhdr_parts<S: Src>(src: S) -> (String, Option<Vec<Vec<u8>>>) {
    let mut r = bcf::io::Reader::from(src);
    let mut lines_out = None;
    let ans = (|| -> io::Result<String> {
        let mut hr = r.header_reader();
        let magic = hr.read_magic_number()?;
        if magic != *b"BCF" {
            return Err(io::Error::new(io::ErrorKind::InvalidData, "magic"));
        }
        let (maj, min) = hr.read_format_version()?;
        let mut tr = hr.raw_vcf_header_reader()?;
        let lines = read_lines(&mut tr)?;
        lines_out = Some(lines.clone());
        tr.discard_to_end()?;
        Ok(format!("ok ver={} lines={}", hex(&[maj, min]), d_lines(&lines)))
    })();
    match ans {
        Ok(s) => (format!("{s} rest={}", r.get_ref().left()), lines_out),
        Err(e) => (io_class(&e), lines_out),
    }
}

fn bcfhdr_case(ctx: &mut Ctx, b: &[u8]) {
    let v = b.to_vec();
    let req = format!("c15 bcfhdrparts {}", hex(b));
    let mut lines = None;
    if let Some(a) = emit(ctx, req.clone(), || {
        let (a, l) = bcfhdr_parts(&v[..]);
        lines = l;
        a
    }) {
        chunk_oracle(ctx, "bcfhdrparts", &req, &a, |s| bcfhdr_parts(s).0, b);
    }
    let table = guarded(|| lines.map(|l| vcf_parser_table(&l)).unwrap_or("K")).unwrap_or("L");
    ctx.bump(&format!("bin_parser:vcf:{table}"));
    let v = b.to_vec();
    let req = format!("c15 bcfhdr {} {}", hex(b), table);
    if let Some(a) = emit(ctx, req.clone(), move || bcfhdr_answer(&v[..])) {
        chunk_oracle(ctx, "bcfhdr", &req, &a, bcfhdr_answer, b);
    }
}

const VCF_LINES_OK: [&str; 5] = ["##fileformat=VCFv4.3", "##contig=<ID=sq0,length=8>", "##INFO=<ID=DP,Number=1,Type=Integer,Description=\"d\">", "##FILTER=<ID=q10,Description=\"q\">", "#CHROM\tPOS\tID\tREF\tALT\tQUAL\tFILTER\tINFO"];
const VCF_LINES_BAD: [&str; 4] = ["##INFO=<ID=", "garbage", "", "##contig=<ID=sq0,length=8>"];

fn gen_bcf_header(rng: &mut Rng) -> Lay {
    let mut lay = Lay::default();
    lay.raw(b"BCF");
    lay.raw(&[2, *rng.pick(&[2u8, 1, 0, 255])]);
    let mut text = vec![];
    let full = rng.chance(3, 4);
    if full {
        for (i, l) in VCF_LINES_OK.iter().enumerate() {
            if rng.chance(1, 10) {
                continue;
            }
            let l = if rng.chance(1, 12) { *rng.pick(&VCF_LINES_BAD) } else { *l };
            text.extend_from_slice(l.as_bytes());
            match rng.below(8) {
                0 => text.extend_from_slice(b"\r\n"),
                1 if i + 1 == VCF_LINES_OK.len() => {}
                _ => text.push(b'\n'),
            }
        }
        match rng.below(4) {
            0 => {}
            1 => text.extend_from_slice(&[0, 0]),
            2 => text.extend_from_slice(b"\0junk\n"),
            _ => text.push(0),
        }
    } else {
        text = gen_text(rng, &VCF_LINES_OK, &VCF_LINES_BAD);
    }
    let lt = match rng.below(8) {
        0 => text.len() as u32 + 1 + rng.below(3) as u32, // the stream ends first (if nothing follows)
        1 => (text.len() as u32).saturating_sub(1 + rng.below(3) as u32),
        _ => text.len() as u32,
    };
    lay.u32(lt, 'u');
    lay.raw(&text);
    if rng.chance(1, 2) {
        lay.raw(&[0x1c, 0, 0, 0]);
    }
    lay
}

// ---------------------------------------------------------------- BCF records

fn bcfrec_answer<S: Src>(src: S) -> String {
    let mut r = bcf::io::Reader::from(src);
    let mut rec = bcf::Record::default();
    match r.read_record(&mut rec) {
        Err(e) => io_class(&e),
        Ok(0) => format!("eof rest={}", r.get_ref().left()),
        Ok(_) => {
            let smp = match rec.samples() {
                Ok(s) => hex(s.as_ref()),
                Err(e) => format!("<{}>", io_class(&e)),
            };
            format!(
                "ok ids={} ref={} alt={} flt={} smp={} rest={}",
                hex(AsRef::<[u8]>::as_ref(&rec.ids())),
                hex(AsRef::<[u8]>::as_ref(&rec.reference_bases())),
                hex(AsRef::<[u8]>::as_ref(&rec.alternate_bases())),
                hex(AsRef::<[u8]>::as_ref(&rec.filters())),
                smp,
                r.get_ref().left()
            )
        }
    }
}

fn bcfrec_case(ctx: &mut Ctx, b: &[u8]) {
    let v = b.to_vec();
    let req = format!("c15 bcfrec {}", hex(b));
    if let Some(a) = emit(ctx, req.clone(), move || bcfrec_answer(&v[..])) {
        chunk_oracle(ctx, "bcfrec", &req, &a, bcfrec_answer, b);
    }
}

/// the records of the seed BCF payload as layouts: l_shared, l_indiv, site, samples
fn bcf_record_layouts() -> Vec<Lay> {
    let (_, payload) = seeds::bcf();
    let l_text = u32::from_le_bytes(payload[5..9].try_into().unwrap()) as usize;
    let mut p = 9 + l_text;
    let mut out = vec![];
    while p + 8 <= payload.len() {
        let ls = u32::from_le_bytes(payload[p..p + 4].try_into().unwrap()) as usize;
        let li = u32::from_le_bytes(payload[p + 4..p + 8].try_into().unwrap()) as usize;
        let mut lay = Lay::default();
        lay.u32(ls as u32, 'u');
        lay.u32(li as u32, 'u');
        lay.raw(&payload[p + 8..p + 8 + ls]);
        lay.raw(&payload[p + 8 + ls..p + 8 + ls + li]);
        // the next record's first bytes follow
        let next = &payload[p + 8 + ls + li..];
        lay.raw(&next[..next.len().min(6)]);
        out.push(lay);
        p += 8 + ls + li;
    }
    out
}

fn headers_corpus(ctx: &mut Ctx) {
    let bam = |text: &[u8], lt: u32, tail: &[u8]| [b"BAM\x01".to_vec(), le32(lt), text.to_vec(), tail.to_vec()].concat();
    let sq = [le32(1), le32(4), b"sq0\0".to_vec(), le32(8)].concat();
    let t = b"@HD\tVN:1.6\n@SQ\tSN:sq0\tLN:8\n";
    let cases: Vec<Vec<u8>> = vec![
        vec![],
        b"BAM".to_vec(),
        b"BAM\x01".to_vec(),
        b"BAM\x02\0\0\0\0\0\0\0\0".to_vec(),
        b"BAI\x01\0\0\0\0\0\0\0\0".to_vec(),
        bam(b"", 0, &le32(0)),
        bam(b"", 0, &sq),
        bam(t, t.len() as u32, &sq),
        bam(t, t.len() as u32, &le32(0)),
        bam(t, t.len() as u32, &[le32(1), le32(4), b"sq0\0".to_vec(), le32(9)].concat()),
        bam(t, t.len() as u32, &[le32(1), le32(4), b"sqX\0".to_vec(), le32(8)].concat()),
        bam(t, t.len() as u32, &[le32(2), le32(4), b"sq0\0".to_vec(), le32(8), le32(4), b"sq1\0".to_vec(), le32(13)].concat()),
        bam(t, t.len() as u32 - 1, &sq),
        bam(t, t.len() as u32 + 1, &sq),
        bam(t, 0, &sq),
        bam(t, 0xffff_ffff, &sq),
        bam(t, 0x7fff_ffff, &[]),
        bam(t, t.len() as u32 + 5, &[vec![0u8; 5], sq.clone()].concat()),
        bam(t, t.len() as u32 + 5, &[b"\0\0@CO".to_vec(), sq.clone()].concat()),
        bam(b"@HD\tVN:1.6\r\n@SQ\tSN:sq0\tLN:8", 27, &sq),
        bam(b"@HD\tVN:1.6\r\n@SQ\tSN:sq0\tLN:8\r", 28, &sq),
        bam(b"\n", 1, &sq),
        bam(b"\0", 1, &sq),
        bam(b"\r\n", 2, &sq),
        bam(b"@CO\t\0x\n", 7, &sq),
        bam(b"@CO\tx\n\0@XX\n", 11, &sq),
        bam(b"@CO\tx\n\n@CO\ty\n", 13, &sq),
        bam(b"@XX\n", 4, &sq),
        bam(b"", 0, &le32(0xffff_ffff)),
        bam(b"", 0, &le32(0x8000_0000)),
        bam(b"", 0, &[le32(1), le32(0), le32(8)].concat()),
        bam(b"", 0, &[le32(1), le32(1), b"\0".to_vec(), le32(8)].concat()),
        bam(b"", 0, &[le32(1), le32(3), b"sq0".to_vec(), le32(8)].concat()),
        bam(b"", 0, &[le32(1), le32(4), b"s\0q\0".to_vec(), le32(8)].concat()),
        bam(b"", 0, &[le32(1), le32(5), b"sq0\0\0".to_vec(), le32(8)].concat()),
        bam(b"", 0, &[le32(1), le32(4), b"sq0\0".to_vec(), le32(0)].concat()),
        bam(b"", 0, &[le32(1), le32(4), b"sq0\0".to_vec(), le32(0xffff_ffff)].concat()),
        bam(b"", 0, &[le32(1), le32(0xffff_ffff), b"sq0\0".to_vec(), le32(8)].concat()),
        bam(b"", 0, &[le32(1), le32(0x7fff_ffff), b"sq0\0".to_vec(), le32(8)].concat()),
        bam(b"", 0, &[le32(1), le32(4), b"sq0\0".to_vec()].concat()),
        bam(b"", 0, &[le32(2), le32(4), b"sq0\0".to_vec(), le32(8), le32(4), b"sq0\0".to_vec(), le32(9)].concat()),
        bam(b"", 0, &[le32(2), le32(4), b"sq0\0".to_vec(), le32(8)].concat()),
    ];
    for c in &cases {
        bamhdr_case(ctx, c);
    }
    // a text longer than the 8 KiB buffer of the `BufReader`, lines crossing the buffer edge
    let mut long = b"@HD\tVN:1.6\n".to_vec();
    while long.len() < 8192 - 20 {
        long.extend_from_slice(b"@CO\t0123456789012345678901234567890123456789\n");
    }
    for edge in [0usize, 1, 19, 20, 21] {
        let mut t2 = long.clone();
        t2.extend_from_slice(&vec![b'x'; edge]);
        t2.truncate(t2.len());
        t2.extend_from_slice(b"\n\0\0@CO\tz\n");
        bamhdr_case(ctx, &bam(&t2, t2.len() as u32, &sq));
    }
    {
        // the buffer edge falls right after a `\n` and the next byte is NUL / is not
        let mut t2 = b"@CO\t".to_vec();
        t2.extend_from_slice(&vec![b'y'; 8192 - 5]);
        t2.push(b'\n');
        assert_eq!(t2.len(), 8192);
        for tail in [&b"\0\0"[..], b"@CO\tq\n", b""] {
            let t3 = [t2.clone(), tail.to_vec()].concat();
            bamhdr_case(ctx, &bam(&t3, t3.len() as u32, &sq));
        }
    }
    {
        // the buffer edge falls INSIDE a line and the next byte is NUL: `is_eol` is false there, the
        // NUL belongs to the line
        let mut t2 = b"@CO\t".to_vec();
        t2.extend_from_slice(&vec![b'y'; 8192 - 4]);
        t2.extend_from_slice(b"\0z\n@CO\tq\n");
        bamhdr_case(ctx, &bam(&t2, t2.len() as u32, &sq));
        let mut v2 = b"##fileformat=VCFv4.3\n##k=".to_vec();
        let pad = 8192 - v2.len();
        v2.extend_from_slice(&vec![b'y'; pad]);
        v2.extend_from_slice(b"\0z\n#CHROM\tPOS\tID\tREF\tALT\tQUAL\tFILTER\tINFO\n\0");
        bcfhdr_case(ctx, &[b"BCF\x02\x02".to_vec(), le32(v2.len() as u32), v2.clone()].concat());
        // the same text in a raw CRAM file header block
        let mut content = Lay::default();
        content.u32(t2.len() as u32, 'i');
        content.raw(&t2);
        let mut b = Lay::default();
        b.byte(0);
        b.byte(0);
        b.itf8(0);
        b.itf8(content.b.len() as i32);
        b.itf8(content.b.len() as i32);
        b.append(&content);
        b.crc(0);
        cramfh_case(ctx, &container_lay(None, (0, 0, 0), 0, 0, 0, 1, &[0], &b).b);
    }
    let bcfh = |ver: &[u8], text: &[u8], lt: u32, tail: &[u8]| [b"BCF".to_vec(), ver.to_vec(), le32(lt), text.to_vec(), tail.to_vec()].concat();
    let vt = b"##fileformat=VCFv4.3\n##contig=<ID=sq0,length=8>\n#CHROM\tPOS\tID\tREF\tALT\tQUAL\tFILTER\tINFO\n\0";
    let bcases: Vec<Vec<u8>> = vec![
        vec![],
        b"BC".to_vec(),
        b"BCF".to_vec(),
        b"BCF\x02".to_vec(),
        b"BCF\x02\x02".to_vec(),
        b"BAM\x01\x02\0\0\0\0".to_vec(),
        bcfh(&[2, 2], b"", 0, &[]),
        bcfh(&[2, 2], vt, vt.len() as u32, &[]),
        bcfh(&[2, 2], vt, vt.len() as u32, &[1, 2, 3]),
        bcfh(&[9, 9], vt, vt.len() as u32, &[]),
        bcfh(&[2, 2], vt, vt.len() as u32 - 1, &[]),
        bcfh(&[2, 2], vt, vt.len() as u32 + 1, &[]),
        bcfh(&[2, 2], vt, vt.len() as u32 + 1, &[0]),
        bcfh(&[2, 2], vt, 0xffff_ffff, &[]),
        bcfh(&[2, 2], vt, 0x8000_0000, &[0; 8]),
        bcfh(&[2, 2], &vt[..vt.len() - 1], vt.len() as u32 - 1, &[]),
        bcfh(&[2, 2], &vt[..vt.len() - 2], vt.len() as u32 - 2, &[]),
        bcfh(&[2, 2], b"##fileformat=VCFv4.3\n", 21, &[]),
        bcfh(&[2, 2], b"garbage\n", 8, &[]),
        bcfh(&[2, 2], b"garbage\n", 9, &[]),
        bcfh(&[2, 2], b"\0\0\0", 3, &[]),
        bcfh(&[2, 2], b"\n", 1, &[]),
    ];
    for c in &bcases {
        bcfhdr_case(ctx, c);
    }
    // records: end of stream, zero l_shared, partial length fields, counts beyond the stream
    let site = [vec![0u8; 18], vec![1, 0], vec![0u8; 4], vec![0x07, 0x17, b'A', 0x00]].concat();
    let rec = |ls: u32, li: u32, tail: &[u8]| [le32(ls), le32(li), tail.to_vec()].concat();
    let rcases: Vec<Vec<u8>> = vec![
        vec![],
        vec![0x1c],
        vec![0x1c, 0],
        vec![0x1c, 0, 0],
        le32(28),
        [le32(28), vec![0, 0]].concat(),
        rec(0, 0, &[]),
        rec(0, 5, &[1, 2, 3]),
        rec(28, 0, &site),
        rec(28, 0, &[site.clone(), vec![0xaa]].concat()),
        rec(28, 2, &[site.clone(), vec![0xaa, 0xbb, 0xcc]].concat()),
        rec(28, 2, &[site.clone(), vec![0xaa]].concat()),
        rec(27, 0, &site),
        rec(29, 0, &site),
        rec(29, 0, &[site.clone(), vec![0]].concat()),
        rec(24, 0, &site),
        rec(23, 0, &site),
        rec(1, 0, &site),
        rec(0xffff_ffff, 0, &site),
        rec(0x8000_0000, 0, &site),
        rec(28, 0xffff_ffff, &site),
        rec(28, 0x7fff_ffff, &site),
        rec(0xffff_ffff, 0xffff_ffff, &site),
    ];
    for c in &rcases {
        bcfrec_case(ctx, c);
    }
}

fn headers_suite(ctx: &mut Ctx, sub: u64) {
    let mut rng = Rng::new(ctx.seed ^ 0xbead_0000 ^ sub.wrapping_mul(0x9e37));
    let nbase = ctx.n(8, 80);
    let nrand = ctx.n(20, 150);
    for _ in 0..nbase {
        let lay = gen_bam_header(&mut rng);
        for (fam, m) in mutants(&mut rng, &lay, nrand, 1) {
            ctx.bump(&format!("bin_family:{fam}"));
            bamhdr_case(ctx, &m);
        }
        let lay = gen_bcf_header(&mut rng);
        for (fam, m) in mutants(&mut rng, &lay, nrand, 2) {
            ctx.bump(&format!("bin_family:{fam}"));
            bcfhdr_case(ctx, &m);
        }
    }
    // the real seed headers (BAM and BCF payloads as the writers made them)
    let (_, payload) = seeds::bam();
    let l_text = u32::from_le_bytes(payload[4..8].try_into().unwrap()) as usize;
    let mut p = 8 + l_text;
    let n_ref = u32::from_le_bytes(payload[p..p + 4].try_into().unwrap());
    let mut lay = Lay::default();
    lay.raw(&payload[..4]);
    lay.u32(l_text as u32, 'u');
    lay.raw(&payload[8..8 + l_text]);
    lay.u32(n_ref, 'u');
    p += 4;
    for _ in 0..n_ref {
        let l = u32::from_le_bytes(payload[p..p + 4].try_into().unwrap()) as usize;
        lay.u32(l as u32, 'u');
        lay.raw(&payload[p + 4..p + 4 + l]);
        lay.u32(u32::from_le_bytes(payload[p + 4 + l..p + 8 + l].try_into().unwrap()), 'u');
        p += 8 + l;
    }
    lay.raw(&payload[p..(p + 8).min(payload.len())]);
    for (fam, m) in mutants(&mut rng, &lay, nrand, ctx.n(7, 1) as usize) {
        ctx.bump(&format!("bin_family:{fam}"));
        bamhdr_case(ctx, &m);
    }
    let (_, payload) = seeds::bcf();
    let l_text = u32::from_le_bytes(payload[5..9].try_into().unwrap()) as usize;
    let mut lay = Lay::default();
    lay.raw(&payload[..3]);
    lay.raw(&payload[3..5]);
    lay.u32(l_text as u32, 'u');
    lay.raw(&payload[9..9 + l_text]);
    lay.raw(&payload[9 + l_text..(9 + l_text + 8).min(payload.len())]);
    for (fam, m) in mutants(&mut rng, &lay, nrand, ctx.n(11, 1) as usize) {
        ctx.bump(&format!("bin_family:{fam}"));
        bcfhdr_case(ctx, &m);
    }
    for lay in bcf_record_layouts() {
        for (fam, m) in mutants(&mut rng, &lay, nrand * 4, 1) {
            ctx.bump(&format!("bin_family:{fam}"));
            bcfrec_case(ctx, &m);
        }
    }
}
