// ---------------------------------------------------------------- CRAM framing
// (included into c15_bin.rs)

fn cramdef_answer<S: Src>(src: S) -> String {
    let mut r = cram::io::Reader::new(src);
    match r.read_file_definition() {
        Ok(d) => format!("ok {}.{} {} rest={}", d.version().major(), d.version().minor(), hex(d.file_id()), r.get_ref().left()),
        Err(e) => io_class(&e),
    }
}

fn cramdef_case(ctx: &mut Ctx, b: &[u8]) {
    let v = b.to_vec();
    let req = format!("c15 cramdef {}", hex(b));
    if let Some(a) = emit(ctx, req.clone(), move || cramdef_answer(&v[..])) {
        chunk_oracle(ctx, "cramdef", &req, &a, cramdef_answer, b);
    }
}

fn err_word(e: &io::Error) -> Option<&'static str> {
    match e.kind() {
        io::ErrorKind::UnexpectedEof => Some("eof"),
        io::ErrorKind::InvalidData => Some("data"),
        io::ErrorKind::InvalidInput => Some("input"),
        _ => None,
    }
}

/// flate2 on a gzip file header block, under the read pattern of `read_file_header`:
/// `<window>=<first4|!class>/<text>/<stop>`; `None` when an error class is outside the model's
fn gz_entry(window: &[u8]) -> Option<String> {
    let mut dec = flate2::read::GzDecoder::new(window);
    let mut first = [0u8; 4];
    let (f4, text, stop) = match dec.read_exact(&mut first) {
        Err(e) => (format!("!{}", err_word(&e)?), vec![], None),
        Ok(()) => {
            let lt = i32::from_le_bytes(first);
            let mut text = vec![];
            let mut stop = None;
            if lt >= 0 {
                let mut br = io::BufReader::new(dec.take(lt as u64));
                loop {
                    match br.fill_buf() {
                        Ok(b) if b.is_empty() => break,
                        Ok(b) => {
                            text.extend_from_slice(b);
                            let n = b.len();
                            br.consume(n);
                        }
                        Err(e) if e.kind() == io::ErrorKind::Interrupted => continue,
                        Err(e) => {
                            stop = Some(err_word(&e)?);
                            break;
                        }
                    }
                }
            }
            (hex(&first), text, stop)
        }
    };
    Some(format!("{}={}/{}/{}", hex(window), f4, hex(&text), stop.unwrap_or("-")))
}

/// the harness's own walk to the gzip window of a file header container, if it has one
/// (`Some("-")`: no gzip block is reached; `None`: flate2 answered with a class outside the model)
fn gz_table(b: &[u8]) -> Option<String> {
    let walk = || -> Option<&[u8]> {
        if b.len() < 4 {
            return None;
        }
        let len = i32::from_le_bytes(b[..4].try_into().unwrap());
        let mut p = 4;
        for _ in 0..4 {
            cramwalk::read_itf8(b, &mut p)?;
        }
        cramwalk::read_ltf8(b, &mut p)?;
        cramwalk::read_ltf8(b, &mut p)?;
        cramwalk::read_itf8(b, &mut p)?;
        let n = cramwalk::read_itf8(b, &mut p)?;
        for _ in 0..n.max(0) {
            cramwalk::read_itf8(b, &mut p)?;
        }
        p += 4;
        if len < 0 || p > b.len() {
            return None;
        }
        let body = &b[p..(p + len as usize).min(b.len())];
        let mut q = 0;
        let method = *body.first()?;
        q += 2;
        cramwalk::read_itf8(body, &mut q)?;
        let csize = cramwalk::read_itf8(body, &mut q)?;
        cramwalk::read_itf8(body, &mut q)?;
        if method != 1 || csize < 0 || q > body.len() {
            return None;
        }
        Some(&body[q..(q + csize as usize).min(body.len())])
    };
    match walk() {
        None => Some("-".into()),
        Some(w) => gz_entry(w),
    }
}

fn cramfh_answer<S: Src>(src: S) -> String {
    let mut r = cram::io::Reader::new(src);
    match r.read_file_header() {
        Ok(h) => format!("ok {} rest={}", d_refs(h.reference_sequences()), r.get_ref().left()),
        Err(e) => io_class(&e),
    }
}

fn cramfh_parts<S: Src>(src: S) -> (String, Option<Vec<Vec<u8>>>) {
    let mut r = cram::io::Reader::new(src);
    let mut lines_out = None;
    let ans = (|| -> io::Result<String> {
        let mut hr = r.header_reader();
        let mut cr = hr.container_reader()?;
        let lines = {
            let mut tr = cr.raw_sam_header_reader()?;
            // `read_sam_header` wraps the text reader in a `BufReader`
            let (lines, err) = read_lines_until_error(&mut io::BufReader::new(&mut tr));
            lines_out = Some(lines.clone());
            if let Some(e) = err {
                return Err(e);
            }
            tr.discard_to_end()?;
            lines
        };
        cr.discard_to_end()?;
        Ok(format!("ok lines={}", d_lines(&lines)))
    })();
    match ans {
        Ok(s) => (format!("{s} rest={}", r.get_ref().left()), lines_out),
        Err(e) => (io_class(&e), lines_out),
    }
}

fn cramfh_case(ctx: &mut Ctx, b: &[u8]) {
    let Some(g) = guarded(|| gz_table(b)).ok().flatten() else {
        ctx.bump("bin_skipped:cramfh:gzip-error-class");
        return;
    };
    ctx.bump(if g == "-" { "bin_gz_table:none" } else if g.ends_with("/-") && !g.contains("=!") { "bin_gz_table:clean" } else { "bin_gz_table:failing" });
    // what flate2 delivers of a FAILING gzip stream depends on how its input arrives (an error
    // discards the output of the call that hit it): the chunked-delivery oracle is for the rest
    let clean = g == "-" || (g.ends_with("/-") && !g.contains("=!"));
    let v = b.to_vec();
    let req = format!("c15 cramfhparts {} {}", hex(b), g);
    let mut lines = None;
    if let Some(a) = emit(ctx, req.clone(), || {
        let (a, l) = cramfh_parts(&v[..]);
        lines = l;
        a
    }) {
        if clean {
            chunk_oracle(ctx, "cramfhparts", &req, &a, |s| cramfh_parts(s).0, b);
        }
    }
    let table = guarded(|| lines.map(|l| sam_parser_table(&l)).unwrap_or_else(|| "-".into())).unwrap_or_else(|_| "!".into());
    let v = b.to_vec();
    let req = format!("c15 cramfh {} {} {}", hex(b), table, g);
    if let Some(a) = emit(ctx, req.clone(), move || cramfh_answer(&v[..])) {
        if clean {
            chunk_oracle(ctx, "cramfh", &req, &a, cramfh_answer, b);
        }
    }
}

// ---------------------------------------------------------------- data containers

/// `Block::decode` for a method other than `None`, through the codec hooks
fn codec(method: u8, src: &[u8], n: usize) -> io::Result<Vec<u8>> {
    match method {
        1 => {
            let mut d = vec![0; n];
            cv::gzip_decode(src, &mut d)?;
            Ok(d)
        }
        2 => {
            let mut d = vec![0; n];
            cv::bzip2_decode(src, &mut d)?;
            Ok(d)
        }
        3 => {
            let mut d = vec![0; n];
            cv::lzma_decode(src, &mut d)?;
            Ok(d)
        }
        4 => cv::rans_4x8_decode(src),
        5 => cv::rans_nx16_decode(src, n),
        6 => cv::aac_decode(src, n),
        7 => cv::fqzcomp_decode(src),
        _ => cv::name_tokenizer_decode(src),
    }
}

/// one block at `p` by the harness's own parse (no validation): method, size, data
fn block_at<'a>(b: &'a [u8], p: &mut usize) -> Option<(u8, usize, &'a [u8])> {
    let method = *b.get(*p)?;
    b.get(*p + 1)?;
    *p += 2;
    cramwalk::read_itf8(b, p)?;
    let csize = cramwalk::read_itf8(b, p)?;
    let usz = cramwalk::read_itf8(b, p)?;
    if csize < 0 || usz < 0 || *p + csize as usize > b.len() {
        return None;
    }
    let data = &b[*p..*p + csize as usize];
    *p += csize as usize + 4;
    Some((method, usz as usize, data))
}

const MAX_DECODED: usize = 1 << 22;

/// The rANS / arithmetic / fqzcomp / name-tokenizer streams of the seed files. These codecs read
/// the size of their output from the stream itself and allocate it (up to 4 GiB, zero-filled), so
/// a block with one of these methods is only decoded in process when its bytes are one of the
/// streams the real writer made; everything else about such a block (sizes, content type, id,
/// CRC-32, position) is still mutated. Damaged codec streams are the codec oracle's subject.
fn valid_streams() -> &'static std::collections::HashSet<(u8, Vec<u8>)> {
    static V: std::sync::OnceLock<std::collections::HashSet<(u8, Vec<u8>)>> = std::sync::OnceLock::new();
    V.get_or_init(|| {
        let mut set = std::collections::HashSet::new();
        for kind in ["raw", "gz", "v31"] {
            let file = seeds::cram(kind);
            let lay = cramwalk::walk(&file).expect("seed CRAM walks");
            for c in &lay.containers {
                for b in &c.blocks {
                    if (4..=8).contains(&b.method) {
                        set.insert((b.method, file[b.data_start..b.data_start + b.data_len].to_vec()));
                    }
                }
            }
        }
        set
    })
}

/// the codec table of every block the slices of this container can reach; `None`: skip the case
/// (a declared size too large to decode in process, or an error class outside the model's)
fn codec_table(ctx: &mut Ctx, body: &[u8], landmarks: &[usize]) -> Option<String> {
    let mut seen: Vec<(u8, usize, Vec<u8>)> = vec![];
    let mut entries = vec![];
    for (i, &start) in landmarks.iter().enumerate() {
        let end = landmarks.get(i + 1).copied().unwrap_or(body.len());
        if start > end || end > body.len() {
            continue;
        }
        let s = &body[start..end];
        let mut p = 0;
        let mut k = 0;
        while p < s.len() && k < 64 {
            let Some((method, usz, data)) = block_at(s, &mut p) else { break };
            k += 1;
            if !(1..=8).contains(&method) || usz == 0 {
                continue;
            }
            if usz > MAX_DECODED {
                ctx.bump("bin_skipped:cramcont:declared-size");
                return None;
            }
            if method >= 4 && !valid_streams().contains(&(method, data.to_vec())) {
                ctx.bump("bin_skipped:cramcont:foreign-codec-stream");
                return None;
            }
            let key = (method, usz, data.to_vec());
            if seen.contains(&key) {
                continue;
            }
            let d = data.to_vec();
            let out = match guarded(move || codec(method, &d, usz)) {
                Ok(Ok(o)) => hex(&o),
                Ok(Err(e)) => match err_word(&e) {
                    Some(w) => format!("!{w}"),
                    None => {
                        ctx.bump("bin_skipped:cramcont:codec-error-class");
                        return None;
                    }
                },
                Err(p) => {
                    // a codec that panics is the property's failure (formerly F37-*)
                    ctx.fail(&format!("panic:codec:{method}"), format!("PANIC {p} — codec {method} on {} (declared size {usz})", hex(data)), format!("codec {method} {usz} {}", hex(data)));
                    return None;
                }
            };
            ctx.bump(&format!("bin_codec:{method}:{}", if out.starts_with('!') { &out[..] } else { "ok" }));
            entries.push(format!("{method}:{usz}:{}={out}", hex(data)));
            seen.push(key);
        }
    }
    Some(if entries.is_empty() { "-".into() } else { entries.join(",") })
}

fn d_ctx(dbg: &str) -> String {
    if dbg == "None" {
        "none".into()
    } else if dbg == "Many" {
        "many".into()
    } else {
        // `Some(Context { reference_sequence_id: 0, alignment_start: Position(1), alignment_end: Position(8) })`
        let nums: Vec<String> = dbg.split(|c: char| !c.is_ascii_digit()).filter(|s| !s.is_empty()).map(|s| s.to_string()).collect();
        nums.join(":")
    }
}

/// `read_container`, the header accessors, every slice, `decode_blocks` of each
fn cramcont_answer<S: Src>(src: S) -> String {
    let mut r = cram::io::Reader::new(src);
    let mut c = cram::io::reader::Container::default();
    match r.read_container(&mut c) {
        Err(e) => io_class(&e),
        Ok(0) => format!("eof rest={}", r.get_ref().left()),
        Ok(len) => {
            let h = c.header();
            let items: Vec<String> = c
                .slices()
                .map(|s| match s {
                    Err(e) => io_class(&e),
                    Ok(slice) => match slice.decode_blocks() {
                        Err(e) => format!("ok/dec={}", io_class(&e)),
                        Ok((core, ext)) => format!("ok/core={}/ext={}", hex(&core), join_or_dash(ext.iter().map(|(id, d)| format!("{}={}", id, hex(d))).collect(), "+")),
                    },
                })
                .collect();
            format!(
                "ok ctx={} rc={} rcn={} bc={} blk={} lm={} len={} rest={} slices={}",
                d_ctx(&format!("{:?}", h.reference_sequence_context())),
                h.record_count(),
                h.record_counter(),
                h.base_count(),
                h.block_count(),
                join_or_dash(h.landmarks().iter().map(|l| l.to_string()).collect(), ","),
                len,
                r.get_ref().left(),
                join_or_dash(items, ";")
            )
        }
    }
}

fn cramcont_case(ctx: &mut Ctx, b: &[u8]) {
    // the body and the landmarks as the REAL reader sees them, for the codec table
    let probe = guarded(|| {
        let mut r = cram::io::Reader::new(b);
        let mut c = cram::io::reader::Container::default();
        match r.read_container(&mut c) {
            Ok(len) if len > 0 => {
                let rest = r.get_ref().len();
                Some((b.len() - rest - len, len, c.header().landmarks().to_vec()))
            }
            _ => None,
        }
    });
    let table = match probe {
        Ok(Some((start, len, lm))) => match codec_table(ctx, &b[start..start + len], &lm) {
            Some(t) => t,
            None => return,
        },
        _ => "-".into(), // no body is reached (or the reader panicked: reported by `emit` below)
    };
    let v = b.to_vec();
    let req = format!("c15 cramcont {} {}", hex(b), table);
    if let Some(a) = emit(ctx, req.clone(), move || cramcont_answer(&v[..])) {
        if a.contains("ok/core") {
            ctx.bump("bin_cramcont:slice-decoded");
        }
        if a.contains("ok/dec") {
            ctx.bump("bin_cramcont:slice-blocks-error");
        }
        chunk_oracle(ctx, "cramcont", &req, &a, cramcont_answer, b);
    }
}

// ---------------------------------------------------------------- builders

#[derive(Clone)]
struct Blk {
    method: u8,
    ctype: u8,
    cid: i32,
    data: Vec<u8>,
    /// declared sizes, when they are to differ from the data
    csize: Option<i32>,
    usz: Option<i32>,
}

fn blk(method: u8, ctype: u8, cid: i32, data: &[u8]) -> Blk {
    Blk { method, ctype, cid, data: data.to_vec(), csize: None, usz: None }
}

fn blk_lay(b: &Blk) -> Lay {
    let mut l = Lay::default();
    l.byte(b.method);
    l.byte(b.ctype);
    l.itf8(b.cid);
    l.itf8(b.csize.unwrap_or(b.data.len() as i32));
    l.itf8(b.usz.unwrap_or(b.data.len() as i32));
    l.raw(&b.data);
    l.crc(0);
    l
}

/// the fields `read_header_inner` of a slice header reads
fn slice_header_lay(ctx3: (i32, i32, i32), n_rec: i32, counter: i64, n_blocks: i32, ids: &[i32], embedded: i32, md5: &[u8], tags: &[u8]) -> Lay {
    let mut l = Lay::default();
    l.itf8(ctx3.0);
    l.itf8(ctx3.1);
    l.itf8(ctx3.2);
    l.itf8(n_rec);
    l.ltf8(counter);
    l.itf8(n_blocks);
    l.itf8(ids.len() as i32);
    for i in ids {
        l.itf8(*i);
    }
    l.itf8(embedded);
    l.raw(md5);
    if !tags.is_empty() {
        l.raw(tags);
    }
    l
}

/// a slice header block whose content fields stay visible to the mutation engine (raw method)
fn slice_header_block(content: &Lay, method: u8, ctype: u8) -> Lay {
    let mut l = Lay::default();
    l.byte(method);
    l.byte(ctype);
    l.itf8(0);
    l.itf8(content.b.len() as i32);
    l.itf8(content.b.len() as i32);
    l.append(content);
    l.crc(0);
    l
}

fn container_lay(len: Option<i32>, ctx3: (i32, i32, i32), n_rec: i32, counter: i64, bases: i64, n_blocks: i32, landmarks: &[i32], body: &Lay) -> Lay {
    let mut l = Lay::default();
    l.u32(len.unwrap_or(body.b.len() as i32) as u32, 'i');
    l.itf8(ctx3.0);
    l.itf8(ctx3.1);
    l.itf8(ctx3.2);
    l.itf8(n_rec);
    l.ltf8(counter);
    l.ltf8(bases);
    l.itf8(n_blocks);
    l.itf8(landmarks.len() as i32);
    for x in landmarks {
        l.itf8(*x);
    }
    l.crc(0);
    l.append(body);
    l
}

const EOF_CONTAINER: [u8; 38] = [
    0x0f, 0x00, 0x00, 0x00, 0xff, 0xff, 0xff, 0xff, 0x0f, 0xe0, 0x45, 0x4f, 0x46, 0x00, 0x00, 0x00, 0x00, 0x01, 0x00, 0x05, 0xbd, 0xd9, 0x4f, 0x00, 0x01, 0x00, 0x06, 0x06, 0x01, 0x00, 0x01, 0x00, 0x01, 0x00, 0xee, 0x63, 0x01, 0x4b,
];

fn gz(data: &[u8]) -> Vec<u8> {
    seeds::gzip(data)
}

/// a synthetic container: 0–3 slices, each a header block + a core block + external blocks
fn gen_container(rng: &mut Rng) -> Lay {
    let nslices = rng.below(4) as usize;
    let mut body = Lay::default();
    let mut landmarks = vec![];
    if rng.chance(2, 3) {
        // something in front of the first landmark (the compression header's place)
        body.append(&blk_lay(&blk(0, 1, 0, b"\x00\x00\x00")));
    }
    for _ in 0..nslices {
        landmarks.push(body.b.len() as i32);
        let next = rng.below(3) as i32;
        let ids: Vec<i32> = (0..next).map(|i| 1 + i).collect();
        let ctx3 = match rng.below(12) {
            0 | 1 => (-1, 0, 0),
            2 | 3 => (-2, 0, 0),
            4 | 5 => (0, 1, 8),
            6 | 7 => (1, 5, 1),
            8 => (3, i32::MAX, i32::MAX),
            9 => (0, rng.below(3) as i32, rng.below(3) as i32),
            _ => (0, 1 + rng.below(100) as i32, 1 + rng.below(100) as i32),
        };
        let md5: Vec<u8> = if rng.chance(1, 2) { vec![0; 16] } else { rng.bytes(16) };
        let tags: Vec<u8> = if rng.chance(1, 4) { b"BDBd".to_vec() } else { vec![] };
        let n_blocks = match rng.below(20) {
            0 => 0,
            1 => next + 2,
            _ => next + 1,
        };
        let content = slice_header_lay(ctx3, rng.below(5) as i32, rng.below(1000) as i64, n_blocks, &ids, if rng.chance(1, 3) { 1 } else { -1 }, &md5, &tags);
        match rng.below(20) {
            0 | 1 | 2 => body.append(&blk_lay(&blk(1, 2, 0, &gz(&content.b)).with_usz(content.b.len() as i32))),
            3 => body.append(&slice_header_block(&content, 0, *rng.pick(&[4u8, 5, 0]))),
            _ => body.append(&slice_header_block(&content, 0, 2)),
        }
        // core data
        let n = rng.below(6) as usize;
        let core = rng.bytes(n);
        match rng.below(16) {
            0 | 1 => body.append(&blk_lay(&blk(1, 5, 0, &gz(&core)).with_usz(core.len() as i32))),
            2 => body.append(&blk_lay(&blk(0, 4, 0, &core))), // wrong content type
            3 => body.append(&blk_lay(&blk(*rng.pick(&[1u8, 4, 8]), 5, 0, &core).with_usz(0))), // raw size 0: method ignored
            _ => body.append(&blk_lay(&blk(0, 5, 0, &core))),
        }
        for i in 0..next {
            let n = rng.below(5) as usize;
            let d = rng.bytes(n);
            match rng.below(12) {
                0 | 1 => body.append(&blk_lay(&blk(1, 4, 1 + i, &gz(&d)).with_usz(d.len() as i32))),
                2 => body.append(&blk_lay(&blk(1, 4, 1 + i, &gz(&d)).with_usz(d.len() as i32 + 1))), // declared size ≠ inflated size
                _ => body.append(&blk_lay(&blk(0, 4, *rng.pick(&[1 + i, -1, 0x7fff_ffff]), &d))),
            }
        }
    }
    match rng.below(30) {
        0 => landmarks.reverse(),
        1 => landmarks.push(body.b.len() as i32 + 1),
        2 => landmarks.push(body.b.len() as i32),
        3 if !landmarks.is_empty() => landmarks[0] += 1,
        _ => {}
    }
    let ctx3 = match rng.below(10) {
        0 | 1 | 2 => (-1, 0, 0),
        3 | 4 => (-2, 5, 5),
        5 | 6 | 7 => (0, 1, 100),
        8 => (2, 0, 5),
        _ => (1, 10, 0),
    };
    let mut l = container_lay(None, ctx3, rng.below(10) as i32, rng.below(1 << 40) as i64, rng.below(1 << 33) as i64, rng.below(6) as i32, &landmarks, &body);
    if rng.chance(1, 3) {
        l.raw(&EOF_CONTAINER[..rng.below(39) as usize]);
    }
    l
}

impl Blk {
    fn with_usz(mut self, u: i32) -> Self {
        self.usz = Some(u);
        self
    }
    fn with_csize(mut self, c: i32) -> Self {
        self.csize = Some(c);
        self
    }
}

/// a file header container: its header, then one block holding `l_text` + text (+ padding)
fn gen_header_container(rng: &mut Rng) -> Lay {
    let text = gen_text(rng, &SAM_LINES_OK, &SAM_LINES_BAD);
    let lt = match rng.below(8) {
        0 => text.len() as i32 + 3,
        1 => (text.len() as i32 - 2).max(0),
        2 => -1,
        _ => text.len() as i32,
    };
    let mut content = Lay::default();
    content.u32(lt as u32, 'i');
    content.raw(&text);
    if rng.chance(1, 2) {
        content.raw(&vec![0u8; rng.below(20) as usize + 1]);
    }
    let mut body = Lay::default();
    match rng.below(8) {
        0 | 1 => {
            // gzip block
            let z = gz(&content.b);
            body.append(&blk_lay(&blk(1, 0, 0, &z).with_usz(content.b.len() as i32)));
        }
        2 => {
            // gzip block whose window is cut short / whose stream is damaged
            let mut z = gz(&content.b);
            if rng.chance(1, 2) {
                let k = z.len() - 1 - rng.below(8.min(z.len() as u64 - 1)) as usize;
                z.truncate(k);
            } else {
                let p = 10 + rng.below((z.len() - 10) as u64) as usize;
                z[p] ^= 1 << rng.below(8);
            }
            body.append(&blk_lay(&blk(1, 0, 0, &z).with_usz(content.b.len() as i32)));
        }
        3 => {
            let m = *rng.pick(&[2u8, 3, 4, 8, 9]);
            body.append(&blk_lay(&blk(m, 0, 0, &content.b)));
        }
        4 => {
            // raw block with the content fields visible; declared raw size off by a little
            let mut l = Lay::default();
            l.byte(0);
            l.byte(*rng.pick(&[0u8, 0, 1, 4]));
            l.itf8(0);
            l.itf8(content.b.len() as i32);
            l.itf8(content.b.len() as i32 + *rng.pick(&[0i32, -1, -5, 3]));
            l.append(&content);
            l.crc(0);
            body.append(&l);
        }
        _ => {
            let mut l = Lay::default();
            l.byte(0);
            l.byte(0);
            l.itf8(0);
            l.itf8(content.b.len() as i32);
            l.itf8(content.b.len() as i32);
            l.append(&content);
            l.crc(0);
            body.append(&l);
        }
    }
    if rng.chance(1, 2) {
        body.raw(&vec![0u8; rng.below(30) as usize]); // the rest of the container (padding block's place)
    }
    let len = match rng.below(8) {
        0 => Some(body.b.len() as i32 + 4),
        1 => Some((body.b.len() as i32 - 3).max(0)),
        _ => None,
    };
    let mut l = container_lay(len, (0, 0, 0), 0, 0, 0, 1, &[0], &body);
    if rng.chance(1, 2) {
        l.raw(&[0x55, 0x66]);
    }
    l
}

/// the containers of a seed CRAM as layouts (fields from the harness's own walker)
fn seed_containers(kind: &str) -> Vec<Lay> {
    let file = seeds::cram(kind);
    let lay = cramwalk::walk(&file).expect("seed CRAM walks");
    let mut out = vec![];
    for c in &lay.containers {
        let end = c.body_start + c.body_len;
        let mut l = Lay { b: file[c.start..end].to_vec(), f: vec![], crcs: vec![] };
        for f in &lay.fields {
            if f.off >= c.start && f.off + f.len <= end {
                let k = match f.kind {
                    'i' => 'i',
                    't' => 't',
                    'l' => 'l',
                    _ => 'b',
                };
                l.f.push((f.off - c.start, f.len, k));
            }
        }
        l.crcs.push((0, c.crc_off - c.start));
        for b in &c.blocks {
            l.crcs.push((b.start - c.start, b.crc_off - c.start));
        }
        out.push(l);
    }
    out
}

fn cram_corpus(ctx: &mut Ctx) {
    let def = [b"CRAM".to_vec(), vec![3, 0], vec![7u8; 20]].concat();
    for k in 0..=def.len() {
        cramdef_case(ctx, &def[..k]);
    }
    cramdef_case(ctx, &[def.clone(), vec![1, 2]].concat());
    for (p, v) in [(0usize, b'B'), (3, 0), (4, 0), (4, 2), (4, 4), (4, 255), (5, 1), (5, 255)] {
        let mut d = def.clone();
        d[p] = v;
        cramdef_case(ctx, &d);
    }
    // containers: the EOF container and its near misses, empty bodies, landmarks out of range
    cramcont_case(ctx, &EOF_CONTAINER);
    cramcont_case(ctx, &[EOF_CONTAINER.to_vec(), vec![1, 2, 3]].concat());
    for k in 0..EOF_CONTAINER.len() {
        cramcont_case(ctx, &EOF_CONTAINER[..k]);
    }
    let empty = Lay::default();
    let core = blk_lay(&blk(0, 5, 0, b"\xaa"));
    let sh = |n_blocks: i32, ids: &[i32]| slice_header_block(&slice_header_lay((-1, 0, 0), 0, 0, n_blocks, ids, -1, &[0; 16], b""), 0, 2);
    let one_slice = |n_blocks: i32, ids: &[i32], extra: &[Lay]| {
        let mut b = sh(n_blocks, ids);
        b.append(&core);
        for e in extra {
            b.append(e);
        }
        b
    };
    let conts: Vec<Lay> = vec![
        container_lay(None, (-1, 0, 0), 0, 0, 0, 0, &[], &empty), // body length 0: reported as end of stream
        container_lay(Some(5), (-1, 0, 0), 0, 0, 0, 0, &[], &empty),
        container_lay(Some(-1), (-1, 0, 0), 0, 0, 0, 0, &[], &empty),
        container_lay(Some(i32::MAX), (-1, 0, 0), 0, 0, 0, 0, &[], &one_slice(1, &[], &[])),
        container_lay(None, (-1, 0, 0), 0, 0, 0, 2, &[0], &one_slice(1, &[], &[])),
        container_lay(None, (-1, 0, 0), 0, 0, 0, 2, &[], &one_slice(1, &[], &[])),
        container_lay(None, (-1, 0, 0), 0, 0, 0, 2, &[0, 0], &one_slice(1, &[], &[])),
        container_lay(None, (-1, 0, 0), 0, 0, 0, 2, &[1], &one_slice(1, &[], &[])),
        container_lay(None, (-1, 0, 0), 0, 0, 0, 2, &[60], &one_slice(1, &[], &[])),
        container_lay(None, (-1, 0, 0), 0, 0, 0, 2, &[51, 0], &one_slice(1, &[], &[])),
        container_lay(None, (-1, 0, 0), 0, 0, 0, 2, &[0, 52], &one_slice(1, &[], &[])),
        container_lay(None, (-1, 0, 0), 0, 0, 0, 2, &[0, 51], &one_slice(1, &[], &[])),
        container_lay(None, (-1, 0, 0), 0, 0, 0, 2, &[i32::MAX], &one_slice(1, &[], &[])),
        container_lay(None, (-1, 0, 0), 0, 0, 0, 2, &[0], &one_slice(0, &[], &[])), // block count 0: checked_sub
        container_lay(None, (-1, 0, 0), 0, 0, 0, 2, &[0], &one_slice(2, &[1], &[])), // an external block is missing
        container_lay(None, (-1, 0, 0), 0, 0, 0, 2, &[0], &one_slice(2, &[1], &[blk_lay(&blk(0, 4, 1, b"xy"))])),
        container_lay(None, (-1, 0, 0), 0, 0, 0, 2, &[0], &one_slice(2, &[1], &[blk_lay(&blk(0, 5, 1, b"xy"))])),
        container_lay(None, (-1, 0, 0), 0, 0, 0, 2, &[0], &one_slice(i32::MAX, &[], &[])),
        container_lay(None, (0, 1, 8), 1, 2, 3, 2, &[0], &one_slice(1, &[], &[])),
        container_lay(None, (0, 0, 8), 1, 2, 3, 2, &[0], &one_slice(1, &[], &[])),
        container_lay(None, (0, 1, 0), 1, 2, 3, 2, &[0], &one_slice(1, &[], &[])),
        container_lay(None, (-3, 1, 8), 1, 2, 3, 2, &[0], &one_slice(1, &[], &[])),
        container_lay(None, (i32::MAX, i32::MAX, i32::MAX), 1, 2, 3, 2, &[0], &one_slice(1, &[], &[])),
        container_lay(None, (-2, 1, 8), -1, 2, 3, 2, &[0], &one_slice(1, &[], &[])),
        container_lay(None, (-2, 1, 8), 1, -2, 3, 2, &[0], &one_slice(1, &[], &[])),
        container_lay(None, (-2, 1, 8), 1, 2, -3, 2, &[0], &one_slice(1, &[], &[])),
        container_lay(None, (-2, 1, 8), 1, 2, 3, -2, &[0], &one_slice(1, &[], &[])),
        container_lay(None, (-2, 1, 8), 1, i64::MAX, i64::MAX, i32::MAX, &[0], &one_slice(1, &[], &[])),
    ];
    for c in &conts {
        cramcont_case(ctx, &c.b);
    }
    // blocks: sizes against the bytes that are there, every method byte, every content type
    let blocks: Vec<Blk> = vec![
        blk(0, 2, 0, b""),
        blk(0, 2, 0, b"abc").with_csize(4),
        blk(0, 2, 0, b"abc").with_csize(2),
        blk(0, 2, 0, b"abc").with_csize(-1),
        blk(0, 2, 0, b"abc").with_csize(i32::MAX),
        blk(0, 2, 0, b"abc").with_usz(-1),
        blk(0, 2, 0, b"abc").with_usz(0),
        blk(0, 2, 0, b"abc").with_usz(i32::MAX),
        blk(1, 2, 0, b"abc"),
        blk(1, 2, 0, b"abc").with_usz(0),
        blk(9, 2, 0, b"abc"),
        blk(255, 2, 0, b"abc"),
        blk(0, 6, 0, b"abc"),
        blk(0, 255, 0, b"abc"),
        blk(0, 2, -1, b"abc"),
        blk(0, 2, i32::MIN, b"abc"),
    ];
    for b in &blocks {
        let mut body = blk_lay(b);
        body.append(&core);
        let c = container_lay(None, (-1, 0, 0), 0, 0, 0, 2, &[0], &body);
        cramcont_case(ctx, &c.b);
    }
    for m in 0..=9u8 {
        for usz in [0i32, 3, 40] {
            let content = slice_header_lay((-1, 0, 0), 0, 0, 1, &[], -1, &[0; 16], b"");
            let data = if m == 1 { gz(&content.b) } else { content.b.clone() };
            let mut body = blk_lay(&blk(m, 2, 0, &data).with_usz(if usz == 40 { content.b.len() as i32 } else { usz }));
            body.append(&core);
            cramcont_case(ctx, &container_lay(None, (-1, 0, 0), 0, 0, 0, 2, &[0], &body).b);
        }
    }
}

fn cram_suite(ctx: &mut Ctx, sub: u64) {
    let mut rng = Rng::new(ctx.seed ^ 0xc4a3_0000 ^ sub.wrapping_mul(0x9e37));
    let nbase = ctx.n(6, 60);
    let nrand = ctx.n(30, 200);
    for _ in 0..nbase {
        let lay = gen_container(&mut rng);
        ctx.bump(&format!("bin_base_len:cramcont:{}", (lay.b.len() / 64) * 64));
        for (fam, m) in mutants(&mut rng, &lay, nrand, ctx.n(3, 1) as usize) {
            ctx.bump(&format!("bin_family:{fam}"));
            cramcont_case(ctx, &m);
        }
        let lay = gen_header_container(&mut rng);
        for (fam, m) in mutants(&mut rng, &lay, nrand, ctx.n(3, 1) as usize) {
            ctx.bump(&format!("bin_family:{fam}"));
            cramfh_case(ctx, &m);
        }
    }
    // the containers the real writer made (raw, gzip and 3.1 codec sets): the first is the file
    // header container, the others are data containers
    for kind in ["raw", "gz", "v31"] {
        let conts = seed_containers(kind);
        for (i, lay) in conts.iter().enumerate() {
            let stride = ctx.n(if lay.b.len() > 600 { 37 } else { 9 }, 1) as usize;
            let muts = mutants(&mut rng, lay, nrand, stride);
            let keep = ctx.n(400, 1_000_000) as usize;
            let step = (muts.len() / keep).max(1);
            for (j, (fam, m)) in muts.iter().enumerate() {
                if j % step != 0 && *fam != "base" {
                    continue;
                }
                ctx.bump(&format!("bin_family:{fam}"));
                if i == 0 {
                    cramfh_case(ctx, m);
                } else {
                    cramcont_case(ctx, m);
                }
            }
        }
    }
    let def = [b"CRAM".to_vec(), vec![3, 1], rng.bytes(20), vec![9]].concat();
    let mut l = Lay::default();
    l.raw(&def[..4]);
    l.byte(def[4]);
    l.byte(def[5]);
    l.raw(&def[6..]);
    for (_, m) in mutants(&mut rng, &l, nrand, 1) {
        cramdef_case(ctx, &m);
    }
}
