//! C17, index-file half — the BAI / CSI / tabix / gzi / fai / crai writers and readers against
//! the byte-level Lean models (`lean/Noodles/Index/*.lean`), and the round-trip oracle.
//!
//! Correspondence ops (suite `c17`, handled by `Noodles/Index/Driver.lean`):
//!   `<fmt>-bytes <description>` : what the REAL writer emits for the described index (for
//!        tabix / CSI the uncompressed payload, read back through `bgzf::io::Reader`; for crai
//!        the text inside the gzip member, read back through flate2) — or `err:invalid-input`
//!   `<fmt>-parse <hex>`         : what the REAL reader returns for these bytes — the
//!        description of the index, or the error class; also for malformed / truncated input.
//! Oracle: write + read gives an equal index (BAI, tabix, gzi, fai, crai) or, for CSI, an index
//! that differs only in the per-bin loffsets and has the same `min_offset` / `query` answers.
//!
//! Malformed binary inputs are chosen so that no reader is ever asked to pre-allocate for a
//! garbage count (`IndexMap::with_capacity(n_bin)` aborts the process on a huge `n_bin`; that
//! is C15's subject, not this property's): faults are applied to bases whose every 32-bit word
//! is small, and only faults that keep the 4-byte alignment of what follows.
use super::c17::{ch, fmt_chunks, gen_sorted_records, maxpos, nbins, pos, vp};
use crate::common::*;
use indexmap::{IndexMap, IndexSet};
use noodles_bgzf as bgzf;
use noodles_csi::{
    self as csi,
    binning_index::{
        self,
        index::{
            header::{format::CoordinateSystem, Format, ReferenceSequenceNames},
            reference_sequence::{
                bin::Chunk,
                index::{BinnedIndex, LinearIndex},
                Bin, Metadata,
            },
            Header, ReferenceSequence,
        },
        BinningIndex, Indexer, ReferenceSequence as _,
    },
};
use std::io::{self, Read, Write};

type Lin = binning_index::Index<LinearIndex>;
type Csi = binning_index::Index<BinnedIndex>;

const META_LINEAR: usize = 37450;

// ------------------------------------------------------------------ descriptions

fn join_or_dash(v: Vec<String>, sep: &str) -> String {
    if v.is_empty() { "-".into() } else { v.join(sep) }
}
fn d_bins(b: &IndexMap<usize, Bin>) -> String {
    join_or_dash(b.iter().map(|(id, bin)| format!("{}={}", id, fmt_chunks(bin.chunks()))).collect(), "+")
}
fn d_md(m: Option<&Metadata>) -> String {
    match m {
        None => "-".into(),
        Some(m) => format!(
            "{}:{}:{}:{}",
            u64::from(m.start_position()),
            u64::from(m.end_position()),
            m.mapped_record_count(),
            m.unmapped_record_count()
        ),
    }
}
fn d_reflin(r: &ReferenceSequence<LinearIndex>) -> String {
    let lin = join_or_dash(r.index().iter().map(|v| u64::from(*v).to_string()).collect(), ",");
    format!("{}|{}|{}", d_bins(r.bins()), d_md(r.metadata()), lin)
}
fn d_refcsi(r: &ReferenceSequence<BinnedIndex>) -> String {
    let ix = join_or_dash(r.index().iter().map(|(k, v)| format!("{}:{}", k, u64::from(*v))).collect(), ",");
    format!("{}|{}|{}", d_bins(r.bins()), d_md(r.metadata()), ix)
}
fn d_opt(n: Option<u64>) -> String {
    n.map(|n| n.to_string()).unwrap_or_else(|| "-".into())
}
fn d_name(n: &[u8]) -> String {
    if n.is_empty() { "_".into() } else { hex(n) }
}
fn d_header(h: Option<&Header>) -> String {
    let Some(h) = h else { return "-".into() };
    let f = match h.format() {
        Format::Generic(CoordinateSystem::Gff) => "g0",
        Format::Generic(CoordinateSystem::Bed) => "g1",
        Format::Sam => "s",
        Format::Vcf => "v",
    };
    let names = join_or_dash(h.reference_sequence_names().iter().map(|n| d_name(n.as_ref())).collect(), ".");
    format!(
        "{},{},{},{},{},{},{}",
        f,
        h.reference_sequence_name_index(),
        h.start_position_index(),
        d_opt(h.end_position_index().map(|n| n as u64)),
        h.line_comment_prefix(),
        h.line_skip_count(),
        names
    )
}
fn d_bai(ix: &Lin) -> String {
    let refs = join_or_dash(ix.reference_sequences().iter().map(d_reflin).collect(), ";");
    format!("{}/{}", refs, d_opt(ix.unplaced_unmapped_record_count()))
}
fn d_tbi(ix: &Lin) -> String {
    format!("{}/{}", d_header(ix.header()), d_bai(ix))
}
fn d_csi(ix: &Csi) -> String {
    let refs = join_or_dash(ix.reference_sequences().iter().map(d_refcsi).collect(), ";");
    format!("{},{}/{}/{}/{}", ix.min_shift(), ix.depth(), d_header(ix.header()), refs, d_opt(ix.unplaced_unmapped_record_count()))
}

// ------------------------------------------------------------------ the real writers / readers

fn bgzf_payload(file: &[u8]) -> io::Result<Vec<u8>> {
    let mut r = bgzf::io::Reader::new(file);
    let mut v = vec![];
    r.read_to_end(&mut v)?;
    Ok(v)
}
fn bgzf_wrap(payload: &[u8]) -> Vec<u8> {
    let mut w = bgzf::io::Writer::new(Vec::new());
    w.write_all(payload).unwrap();
    w.finish().unwrap()
}
fn bai_write(ix: &Lin) -> io::Result<Vec<u8>> {
    let mut w = noodles_bam::bai::io::Writer::new(Vec::new());
    w.write_index(ix)?;
    Ok(w.into_inner())
}
fn bai_read(b: &[u8]) -> io::Result<(Lin, usize)> {
    let mut r = noodles_bam::bai::io::Reader::new(b);
    let ix = r.read_index()?;
    Ok((ix, r.get_ref().len()))
}
fn tbi_write(ix: &Lin) -> io::Result<Vec<u8>> {
    let mut w = noodles_tabix::io::Writer::new(Vec::new());
    w.write_index(ix)?;
    w.try_finish()?;
    let file = w.into_inner().into_inner();
    bgzf_payload(&file)
}
fn tbi_read(payload: &[u8]) -> io::Result<Lin> {
    let file = bgzf_wrap(payload);
    noodles_tabix::io::Reader::new(&file[..]).read_index()
}
fn csi_write(ix: &Csi) -> io::Result<Vec<u8>> {
    let mut w = csi::io::Writer::new(Vec::new());
    w.write_index(ix)?;
    let file = w.into_inner().finish()?;
    bgzf_payload(&file)
}
fn csi_read(payload: &[u8]) -> io::Result<Csi> {
    let file = bgzf_wrap(payload);
    csi::io::Reader::new(&file[..]).read_index()
}

fn ans_bytes(r: &Result<io::Result<Vec<u8>>, String>) -> String {
    match r {
        Ok(Ok(b)) => hex(b),
        Ok(Err(e)) => errclass(e).into(),
        Err(_) => "panic".into(),
    }
}
fn ans_read<T>(r: Result<io::Result<T>, String>, f: impl Fn(&T) -> String) -> String {
    match r {
        Ok(Ok(v)) => format!("ok {}", f(&v)),
        Ok(Err(e)) => errclass(&e).into(),
        Err(_) => "panic".into(),
    }
}

// ------------------------------------------------------------------ generators

fn gen_u64(rng: &mut Rng, big: bool) -> u64 {
    if !big {
        return rng.below(1 << 16);
    }
    match rng.below(7) {
        0 => 0,
        1 => rng.below(256),
        2 => rng.below(1 << 40),
        3 => rng.next(),
        4 => u64::MAX,
        5 => (1 << 63) + rng.below(3),
        _ => rng.below(1 << 20),
    }
}
fn gen_chunks(rng: &mut Rng, big: bool) -> Vec<Chunk> {
    (0..rng.below(4)).map(|_| ch(gen_u64(rng, big), gen_u64(rng, big))).collect()
}
fn gen_md(rng: &mut Rng, big: bool) -> Option<Metadata> {
    if rng.chance(1, 2) {
        Some(Metadata::new(vp(gen_u64(rng, big)), vp(gen_u64(rng, big)), gen_u64(rng, big), gen_u64(rng, big)))
    } else {
        None
    }
}

/// bin ids with ancestor chains (so the CSI loffset rewrite has something to walk), some
/// scattered ones, and — `big` — ids beyond the geometry up to `u32::MAX`.
fn gen_ids(rng: &mut Rng, depth: u8, big: bool, meta_id: usize) -> Vec<usize> {
    let mut ids: IndexSet<usize> = IndexSet::new();
    let first_leaf = (8usize.pow(depth as u32) - 1) / 7;
    for _ in 0..rng.below(3) {
        let mut id = first_leaf + rng.below(8u64.pow(depth as u32)) as usize;
        loop {
            if rng.chance(2, 3) {
                ids.insert(id);
            }
            if id == 0 {
                break;
            }
            id = (id - 1) / 8;
        }
    }
    for _ in 0..rng.below(3) {
        ids.insert(rng.below(nbins(depth) as u64) as usize);
    }
    if big && rng.chance(1, 3) {
        let any = rng.below(1 << 32) as usize;
        ids.insert(*rng.pick(&[u32::MAX as usize, meta_id + 1, nbins(depth), 1 << 31, any]));
    }
    ids.shift_remove(&meta_id);
    let mut v: Vec<usize> = ids.into_iter().collect();
    // IndexMap order is insertion order, whatever that was: shuffle
    for i in (1..v.len()).rev() {
        v.swap(i, rng.below(i as u64 + 1) as usize);
    }
    if !big {
        v.truncate(3);
    }
    v
}

fn gen_reflin(rng: &mut Rng, big: bool) -> ReferenceSequence<LinearIndex> {
    let bins: IndexMap<usize, Bin> = gen_ids(rng, 5, big, META_LINEAR).into_iter().map(|id| (id, Bin::new(gen_chunks(rng, big)))).collect();
    let lin: LinearIndex = (0..rng.below(if big { 8 } else { 3 })).map(|_| vp(gen_u64(rng, big))).collect();
    ReferenceSequence::new(bins, lin, gen_md(rng, big))
}

#[derive(Clone, Copy, PartialEq)]
enum HdrKind {
    /// representable and already in normal form
    Valid,
    /// `end = Some(start)`: representable only as `None`
    EndIsStart,
    /// the writer must refuse it
    Unwritable,
}

fn gen_name(rng: &mut Rng, small: bool) -> Vec<u8> {
    if small {
        return vec![1 + rng.below(2) as u8; 1];
    }
    match rng.below(5) {
        0 => vec![],
        1 => format!("chr{}", rng.below(30)).into_bytes(),
        2 => vec![b'a' + rng.below(26) as u8; 1 + rng.below(40) as usize],
        _ => (0..1 + rng.below(12)).map(|_| 1 + rng.below(255) as u8).collect(), // any non-NUL bytes
    }
}

fn gen_header(rng: &mut Rng, small: bool) -> (Header, HdrKind) {
    let mut kind = HdrKind::Valid;
    let format = *rng.pick(&[Format::Generic(CoordinateSystem::Gff), Format::Generic(CoordinateSystem::Bed), Format::Sam, Format::Vcf]);
    let col = |rng: &mut Rng| -> usize {
        match rng.below(8) {
            0 => (1usize << 31) - 2, // largest representable
            _ => rng.below(6) as usize,
        }
    };
    let mut seq = col(rng);
    let beg = col(rng);
    let specialized = matches!(format, Format::Sam | Format::Vcf);
    let mut end = if specialized {
        None
    } else {
        match rng.below(4) {
            0 => None,
            _ => {
                let e = col(rng);
                if e != beg {
                    Some(e)
                } else if e == 0 {
                    Some(1)
                } else {
                    Some(e - 1)
                }
            }
        }
    };
    let mut skip = if rng.chance(1, 6) { (1u32 << 31) - 1 } else { rng.below(1000) as u32 };
    let mut names = ReferenceSequenceNames::new();
    for _ in 0..rng.below(5) {
        names.insert(gen_name(rng, small).into());
    }
    if !small {
        match rng.below(16) {
            0 => {
                end = Some(beg);
                if !specialized {
                    kind = HdrKind::EndIsStart;
                } else {
                    kind = HdrKind::Unwritable; // "invalid end position index for format"
                }
            }
            1 => {
                skip = (1u32 << 31) + rng.below(5) as u32;
                kind = HdrKind::Unwritable;
            }
            2 => {
                seq = (1usize << 31) - 1 + rng.below(3) as usize;
                kind = HdrKind::Unwritable;
            }
            3 => {
                names.insert(vec![b'a', 0, b'b'].into());
                kind = HdrKind::Unwritable;
            }
            _ => {}
        }
    }
    let h = Header::builder()
        .set_format(format)
        .set_reference_sequence_name_index(seq)
        .set_start_position_index(beg)
        .set_end_position_index(end)
        .set_line_comment_prefix(rng.below(256) as u8)
        .set_line_skip_count(skip)
        .set_reference_sequence_names(names)
        .build();
    (h, kind)
}

fn gen_unplaced(rng: &mut Rng, big: bool) -> Option<u64> {
    if rng.chance(1, 2) { Some(gen_u64(rng, big)) } else { None }
}

/// arbitrary structurally valid linear index; `valid` = every bin id fits `u32`
fn gen_lin(rng: &mut Rng, big: bool, header: Option<Header>) -> (Lin, bool) {
    let nref = rng.below(if big { 4 } else { 3 });
    let mut rss: Vec<ReferenceSequence<LinearIndex>> = (0..nref).map(|_| gen_reflin(rng, big)).collect();
    let mut valid = true;
    if big && nref > 0 && rng.chance(1, 25) {
        // a bin id that does not fit the id field: the writer must refuse
        let r = &rss[0];
        let mut bins = r.bins().clone();
        bins.insert((1usize << 32) + rng.below(4) as usize, Bin::new(vec![]));
        rss[0] = ReferenceSequence::new(bins, r.index().clone(), r.metadata().cloned());
        valid = false;
    }
    let mut b = binning_index::Index::builder().set_reference_sequences(rss);
    if let Some(n) = gen_unplaced(rng, big) {
        b = b.set_unplaced_unmapped_record_count(n);
    }
    if let Some(h) = header {
        b = b.set_header(h);
    }
    (b.build(), valid)
}

fn build_with_indexer<I>(rng: &mut Rng, ms: u8, d: u8, header: Option<Header>, span_limit: Option<usize>) -> binning_index::Index<I>
where
    I: csi::binning_index::index::reference_sequence::Index + Default,
{
    let nref = 1 + rng.below(3) as usize;
    let (mut recs, _) = gen_sorted_records(rng, ms, d, nref);
    if let Some(limit) = span_limit {
        // keep the linear index short: fold the positions into the first `limit` bases
        for r in recs.iter_mut() {
            let len = (r.e - r.s).min(limit / 2);
            r.s = 1 + (r.s - 1) % limit;
            r.e = (r.s + len).min(maxpos(ms, d));
        }
        recs.sort_by_key(|r| (r.rid, r.s));
        // file order = coordinate order: hand the chunks out again in that order
        let mut cs: Vec<Chunk> = recs.iter().map(|r| r.c).collect();
        cs.sort_by_key(|c| u64::from(c.start()));
        for (r, c) in recs.iter_mut().zip(cs) {
            r.c = c;
        }
    }
    let mut ix = Indexer::<I>::new(ms, d);
    if let Some(h) = header {
        ix = ix.set_header(h);
    }
    for r in recs.iter().take(10) {
        ix.add_record(Some((r.rid, pos(r.s), pos(r.e), r.mapped)), r.c).unwrap();
    }
    for _ in 0..rng.below(3) {
        ix.add_record(None, ch(0, 0)).unwrap();
    }
    ix.build(nref)
}

/// arbitrary CSI index. `aligned`: the `index` map has exactly the bins' ids (what the indexer
/// and the reader establish); otherwise entries are dropped from / added to it at random.
fn gen_csi(rng: &mut Rng, big: bool, aligned: bool, header: Option<Header>) -> Csi {
    let (ms, d) = if big { *rng.pick(&[(14u8, 5u8), (14, 6), (12, 5), (16, 4), (10, 6), (4, 2), (1, 1), (3, 3), (0, 0), (255, 9), (14, 9)]) } else { *rng.pick(&[(14u8, 5u8), (4, 2), (1, 1)]) };
    let meta_id = Bin::metadata_id(d);
    let nref = rng.below(if big { 4 } else { 3 });
    let rss: Vec<ReferenceSequence<BinnedIndex>> = (0..nref)
        .map(|_| {
            let ids = gen_ids(rng, d, big, meta_id);
            let bins: IndexMap<usize, Bin> = ids.iter().map(|&id| (id, Bin::new(gen_chunks(rng, big)))).collect();
            let mut order = ids.clone();
            if rng.chance(1, 2) {
                order.reverse();
            }
            let mut index: BinnedIndex = order.iter().map(|&id| (id, vp(gen_u64(rng, big)))).collect();
            if !aligned {
                if !index.is_empty() && rng.chance(1, 2) {
                    let k = *index.keys().next().unwrap();
                    index.shift_remove(&k);
                }
                if rng.chance(1, 2) {
                    index.insert(rng.below(nbins(d) as u64) as usize, vp(gen_u64(rng, big)));
                }
            }
            ReferenceSequence::new(bins, index, gen_md(rng, big))
        })
        .collect();
    let mut b = binning_index::Index::builder().set_min_shift(ms).set_depth(d).set_reference_sequences(rss);
    if let Some(n) = gen_unplaced(rng, big) {
        b = b.set_unplaced_unmapped_record_count(n);
    }
    if let Some(h) = header {
        b = b.set_header(h);
    }
    b.build()
}

// ------------------------------------------------------------------ field layout of a written file

#[derive(Clone, Copy, PartialEq, Debug)]
enum K {
    Magic,
    /// a count the reader takes as `u32` (BAI `n_ref`, `n_bin`, `n_intv`)
    CountU,
    /// a count the reader takes as `i32` and checks to be non-negative
    CountI,
    Id,
    MetaId,
    MetaNChunk,
    V64,
    /// CSI min_shift / depth
    Geo,
    LAux,
    /// header field 0..=5: format, col_seq, col_beg, col_end, meta, skip
    Hdr(u8),
    LNm,
    Names,
}
#[derive(Clone, Copy, Debug)]
struct Field {
    off: usize,
    len: usize,
    k: K,
    /// for counts, lengths and the pseudo-bin's id: the value the index implies
    expect: Option<u64>,
}
struct Layout {
    f: Vec<Field>,
    at: usize,
}
impl Layout {
    fn new() -> Self {
        Layout { f: vec![], at: 0 }
    }
    fn put(&mut self, len: usize, k: K) {
        self.f.push(Field { off: self.at, len, k, expect: None });
        self.at += len;
    }
    fn put_v(&mut self, k: K, v: usize) {
        self.f.push(Field { off: self.at, len: 4, k, expect: Some(v as u64) });
        self.at += 4;
    }
    fn header(&mut self, h: &Header) {
        for i in 0..6 {
            self.put(4, K::Hdr(i));
        }
        let l: usize = h.reference_sequence_names().iter().map(|n| n.len() + 1).sum();
        self.put_v(K::LNm, l);
        self.put(l, K::Names);
    }
    fn bins(&mut self, bins: &IndexMap<usize, Bin>, md: bool, count: K, csi: bool, meta_id: usize) {
        self.put_v(count, bins.len() + md as usize);
        for (_, b) in bins {
            self.put(4, K::Id);
            if csi {
                self.put(8, K::V64);
            }
            self.put_v(K::CountI, b.chunks().len()); // n_chunk: every reader goes through the CSI `read_chunks`
            for _ in b.chunks() {
                self.put(8, K::V64);
                self.put(8, K::V64);
            }
        }
        if md {
            self.put_v(K::MetaId, meta_id);
            if csi {
                self.put(8, K::V64);
            }
            self.put_v(K::MetaNChunk, 2);
            for _ in 0..4 {
                self.put(8, K::V64);
            }
        }
    }
}
fn layout_lin(ix: &Lin, tabix: bool) -> Layout {
    let mut l = Layout::new();
    let cnt = if tabix { K::CountI } else { K::CountU };
    l.put(4, K::Magic);
    l.put_v(cnt, ix.reference_sequences().len());
    if tabix {
        if let Some(h) = ix.header() {
            l.header(h);
        }
    }
    for r in ix.reference_sequences() {
        l.bins(r.bins(), r.metadata().is_some(), cnt, false, META_LINEAR);
        l.put_v(cnt, r.index().len());
        for _ in r.index() {
            l.put(8, K::V64);
        }
    }
    if ix.unplaced_unmapped_record_count().is_some() {
        l.put(8, K::V64);
    }
    l
}
fn layout_csi(ix: &Csi) -> Layout {
    let mut l = Layout::new();
    l.put(4, K::Magic);
    l.put(4, K::Geo);
    l.put(4, K::Geo);
    let l_aux = ix.header().map(|h| 28 + h.reference_sequence_names().iter().map(|n| n.len() + 1).sum::<usize>()).unwrap_or(0);
    l.put_v(K::LAux, l_aux);
    if let Some(h) = ix.header() {
        l.header(h);
    }
    l.put_v(K::CountI, ix.reference_sequences().len());
    for r in ix.reference_sequences() {
        l.bins(r.bins(), r.metadata().is_some(), K::CountI, true, Bin::metadata_id(ix.depth()));
    }
    if ix.unplaced_unmapped_record_count().is_some() {
        l.put(8, K::V64);
    }
    l
}

/// The structural fields of what a writer emitted say what the index has: total length, every
/// count, `l_aux` / `l_nm`, the pseudo-bin's id and its `n_chunk = 2`. (Checked before the bytes
/// are handed to a reader: a file with wrong counts makes the readers pre-allocate for garbage.)
fn written_sane(bytes: &[u8], lay: &Layout) -> Result<(), String> {
    if lay.at != bytes.len() {
        return Err(format!("{} bytes written, the index needs {}", bytes.len(), lay.at));
    }
    for f in &lay.f {
        if let Some(v) = f.expect {
            let got = word(bytes, f.off) as u64;
            if got != v {
                return Err(format!("field {:?} at offset {} holds {got}, the index has {v}", f.k, f.off));
            }
        }
    }
    Ok(())
}

fn word(b: &[u8], off: usize) -> u32 {
    u32::from_le_bytes(b[off..off + 4].try_into().unwrap())
}
fn with_word(b: &[u8], off: usize, v: u32) -> Vec<u8> {
    let mut o = b.to_vec();
    o[off..off + 4].copy_from_slice(&v.to_le_bytes());
    o
}

/// Malformed variants of `bytes` (a file whose 32-bit words are all small), each with a tag for
/// the histogram. `nref` = number of reference sequences in it (header faults need 0).
fn faults(rng: &mut Rng, bytes: &[u8], lay: &Layout, nref: usize, meta_id: u32) -> Vec<(&'static str, Vec<u8>)> {
    let mut out: Vec<(&'static str, Vec<u8>)> = vec![];
    let n = bytes.len();
    // truncations: at / just after / just before the end of fields, and the tail
    let mut cuts: Vec<usize> = vec![0, 1, 3, 4, 5, 7, 8, n.saturating_sub(1), n.saturating_sub(7), n.saturating_sub(8), n.saturating_sub(9)];
    for _ in 0..8 {
        let f = rng.pick(&lay.f);
        cuts.push(f.off + rng.below(f.len as u64 + 1) as usize);
    }
    cuts.sort();
    cuts.dedup();
    for c in cuts {
        if c < n {
            out.push(("truncated", bytes[..c].to_vec()));
        }
    }
    // magic
    let mut m = bytes.to_vec();
    let i = rng.below(4) as usize;
    m[i] = m[i].wrapping_sub(1 + rng.below(3) as u8);
    out.push(("magic", m));
    // counts: ±1, 0, negative for the signed ones
    let counts: Vec<Field> = lay.f.iter().copied().filter(|f| matches!(f.k, K::CountU | K::CountI)).collect();
    for _ in 0..4 {
        let f = rng.pick(&counts);
        let v = word(bytes, f.off);
        out.push(("count+1", with_word(bytes, f.off, v + 1)));
        if v > 0 {
            out.push(("count-1", with_word(bytes, f.off, v - 1)));
            out.push(("count=0", with_word(bytes, f.off, 0)));
        }
        if f.k == K::CountI {
            out.push(("count<0", with_word(bytes, f.off, *rng.pick(&[0xFFFF_FFFF, 0x8000_0000, 0xFFFF_FFFE]))));
        }
    }
    // ids: duplicate of the previous bin's id; a regular bin renamed to the metadata id
    let ids: Vec<Field> = lay.f.iter().copied().filter(|f| f.k == K::Id).collect();
    for w in ids.windows(2) {
        out.push(("dup-id", with_word(bytes, w[1].off, word(bytes, w[0].off))));
    }
    if !ids.is_empty() {
        let f = rng.pick(&ids);
        out.push(("id=meta", with_word(bytes, f.off, meta_id)));
    }
    for f in lay.f.iter().filter(|f| f.k == K::MetaId) {
        out.push(("meta-id-1", with_word(bytes, f.off, meta_id - 1)));
    }
    for f in lay.f.iter().filter(|f| f.k == K::MetaNChunk) {
        out.push(("meta-nchunk", with_word(bytes, f.off, *rng.pick(&[0, 1, 3]))));
    }
    // any byte made smaller, outside the fields whose value moves what follows off the grid
    let mutable: Vec<Field> = lay.f.iter().copied().filter(|f| !matches!(f.k, K::LNm | K::Names | K::LAux)).collect();
    for _ in 0..6 {
        let f = rng.pick(&mutable);
        let p = f.off + rng.below(f.len as u64) as usize;
        if bytes[p] > 0 {
            let mut m = bytes.to_vec();
            m[p] = rng.below(bytes[p] as u64) as u8;
            out.push(("byte-decreased", m));
        }
    }
    // header fields — only when nothing that allocates follows the header
    if nref == 0 {
        for f in lay.f.iter() {
            let vals: &[u32] = match f.k {
                K::Hdr(0) => &[3, 0x0002_0000, 0x0001_0001, 0x0001_0000, 0, 1, 2, 0xFFFF_0002, 0x0001_0002],
                K::Hdr(1) | K::Hdr(2) => &[0, 0xFFFF_FFFF, 1, 0x7FFF_FFFF],
                K::Hdr(3) => &[0, 1, 2, 3, 0xFFFF_FFFF],
                K::Hdr(4) => &[255, 256, 0xFFFF_FFFF],
                K::Hdr(5) => &[0x8000_0000, 0x7FFF_FFFF],
                K::LNm | K::LAux => &[0xFFFF_FFFF],
                K::Geo => &[255, 256, 0xFFFF_FFFF],
                _ => &[],
            };
            for &v in vals {
                out.push(("header-field", with_word(bytes, f.off, v)));
            }
            if f.k == K::LNm || f.k == K::LAux {
                let v = word(bytes, f.off);
                if v > 0 {
                    out.push(("header-len-1", with_word(bytes, f.off, v - 1)));
                }
                out.push(("header-len+1", with_word(bytes, f.off, v + 1)));
            }
            if f.k == K::Names && f.len > 0 {
                // last name loses its NUL; a name repeated
                let mut m = bytes.to_vec();
                m[f.off + f.len - 1] = 1;
                out.push(("name-unterminated", m));
                if f.len >= 4 && bytes[f.off + 1] == 0 && bytes[f.off + 3] == 0 {
                    let mut m = bytes.to_vec();
                    m[f.off + 2] = m[f.off];
                    out.push(("name-duplicate", m));
                }
            }
        }
    }
    out
}

fn all_words_small(bytes: &[u8], lay: &Layout) -> bool {
    // every aligned word of every numeric field is < 2^17 (the metadata id is 37450 / small)
    lay.f.iter().all(|f| match f.k {
        K::Names | K::Magic => true,
        K::Hdr(0) => true, // format: 0, 1, 2 or 65536 — never used as a count before an error
        _ => (0..f.len / 4).all(|i| word(bytes, f.off + 4 * i) < (1 << 17)),
    })
}

// ------------------------------------------------------------------ suites

pub fn run(ctx: &mut Ctx) {
    corpus(ctx);
    let n = ctx.n(110, 6000);
    for it in 0..n {
        let sub = Rng::new(ctx.seed.wrapping_mul(7_000_003).wrapping_add(it)).0;
        one_gzi(ctx, sub);
        one_bai(ctx, sub);
        one_tbi(ctx, sub);
        one_csi(ctx, sub);
    }
    fai_from_fasta(ctx);
    let n = ctx.n(250, 10_000);
    for it in 0..n {
        let sub = Rng::new(ctx.seed.wrapping_mul(9_000_011).wrapping_add(it)).0;
        one_fai(ctx, sub);
        one_crai(ctx, sub);
    }
}

pub fn replay(ctx: &mut Ctx, case: &[String]) -> bool {
    if case.first().map(|s| s.as_str()) != Some("ixfile") || case.len() < 3 {
        return false;
    }
    let sub: u64 = case[2].parse().unwrap_or(0);
    match case[1].as_str() {
        "gzi" => one_gzi(ctx, sub),
        "bai" => one_bai(ctx, sub),
        "tbi" => one_tbi(ctx, sub),
        "csi" => one_csi(ctx, sub),
        "fai" => one_fai(ctx, sub),
        "crai" => one_crai(ctx, sub),
        "fai-fasta" => fai_from_fasta(ctx),
        "corpus" => corpus(ctx),
        _ => return false,
    }
    true
}

/// 0: arbitrary with extreme values, 1: built by the indexer, 2: small (the base for faults)
fn shape_of(rng: &mut Rng) -> u64 {
    rng.below(3)
}

fn one_gzi(ctx: &mut Ctx, sub: u64) {
    let mut rng = Rng::new(sub ^ 0x67);
    let case = format!("ixfile gzi {sub}");
    let n = rng.below(7);
    let realistic = rng.chance(1, 2);
    let (mut c, mut u) = (0u64, 0u64);
    let v: Vec<(u64, u64)> = (0..n)
        .map(|_| {
            if realistic {
                c += 28 + rng.below(65000);
                u += rng.below(65537);
                (c, u)
            } else {
                (gen_u64(&mut rng, true), gen_u64(&mut rng, true))
            }
        })
        .collect();
    let idx = bgzf::gzi::Index::from(v.clone());
    let desc = join_or_dash(v.iter().map(|p| format!("{}:{}", p.0, p.1)).collect(), ",");
    let w = guarded(|| -> io::Result<Vec<u8>> {
        let mut w = bgzf::gzi::io::Writer::new(Vec::new());
        w.write_index(&idx)?;
        Ok(w.into_inner())
    });
    ctx.corr(format!("c17 gzi-bytes {desc}"), ans_bytes(&w));
    ctx.eval(if n >= 2 { Some(fnv(case.as_bytes())) } else { None });
    ctx.bump("file_gzi");
    let Ok(Ok(bytes)) = w else {
        ctx.fail("gzi-file-roundtrip", format!("writer failed on {desc}"), case);
        return;
    };
    let read = |b: &[u8]| guarded(|| bgzf::gzi::io::Reader::new(b).read_index());
    let d = |ix: &bgzf::gzi::Index| join_or_dash(ix.as_ref().iter().map(|p| format!("{}:{}", p.0, p.1)).collect(), ",");
    let back = read(&bytes);
    match &back {
        Ok(Ok(b)) if *b == idx => {}
        other => ctx.fail("gzi-file-roundtrip", format!("index {desc} read back as {:?}", other.as_ref().map(|r| r.as_ref().map(d).map_err(|e| e.to_string()))), case.clone()),
    }
    ctx.corr(format!("c17 gzi-parse {}", hex(&bytes)), ans_read(back, d));
    // malformed: anything goes (the reader never pre-allocates from the count)
    let mut variants: Vec<Vec<u8>> = vec![];
    for _ in 0..4 {
        variants.push(bytes[..rng.below(bytes.len() as u64) as usize].to_vec());
    }
    let mut t = bytes.clone();
    let extra = 1 + rng.below(17) as usize;
    t.extend_from_slice(&rng.bytes(extra));
    variants.push(t);
    for _ in 0..3 {
        let mut m = bytes.clone();
        let p = rng.below(m.len() as u64) as usize;
        m[p] = rng.next() as u8;
        variants.push(m);
    }
    for (k, delta) in [(0usize, 1u64), (0, u64::MAX)] {
        let mut m = bytes.clone();
        let v = u64::from_le_bytes(m[k..k + 8].try_into().unwrap()).wrapping_add(delta);
        m[k..k + 8].copy_from_slice(&v.to_le_bytes());
        variants.push(m);
    }
    for m in variants {
        ctx.corr(format!("c17 gzi-parse {}", hex(&m)), ans_read(read(&m), d));
        ctx.bump("file_gzi_malformed");
    }
}

fn linear_faults(ctx: &mut Ctx, rng: &mut Rng, fmt: &str, ix: &Lin, bytes: &[u8], tabix: bool) {
    let lay = layout_lin(ix, tabix);
    if lay.at != bytes.len() {
        ctx.bump(&format!("file_{fmt}_layout_mismatch"));
        return;
    }
    if !all_words_small(bytes, &lay) {
        return;
    }
    for (tag, m) in faults(rng, bytes, &lay, ix.reference_sequences().len(), META_LINEAR as u32) {
        let ans = if tabix {
            ans_read(guarded(|| tbi_read(&m)), |ix| d_tbi(ix))
        } else {
            ans_read(guarded(|| bai_read(&m)), |(ix, rest)| format!("{} rest={}", d_bai(ix), rest))
        };
        ctx.bump(&format!("file_{fmt}_fault_{tag}_{}", ans.split(' ').next().unwrap()));
        ctx.corr(format!("c17 {fmt}-parse {}", hex(&m)), ans);
    }
}

fn one_bai(ctx: &mut Ctx, sub: u64) {
    let mut rng = Rng::new(sub ^ 0xba1);
    let case = format!("ixfile bai {sub}");
    let shape = shape_of(&mut rng);
    let (idx, valid): (Lin, bool) = match shape {
        1 => (build_with_indexer::<LinearIndex>(&mut rng, 14, 5, None, Some(1 << 18)), true),
        s => gen_lin(&mut rng, s == 0, None),
    };
    let desc = d_bai(&idx);
    let w = guarded(|| bai_write(&idx));
    ctx.corr(format!("c17 bai-bytes {desc}"), ans_bytes(&w));
    let nbin: usize = idx.reference_sequences().iter().map(|r| r.bins().len()).sum();
    ctx.eval(if nbin >= 2 { Some(fnv(case.as_bytes())) } else { None });
    ctx.bump(&format!("file_bai_shape{shape}"));
    let bytes = match w {
        Ok(Ok(b)) => b,
        other => {
            if valid {
                ctx.fail("bai-file-roundtrip", format!("writer refused a representable index {desc}: {:?}", other.map(|r| r.map(|_| ()).map_err(|e| e.to_string()))), case);
            } else {
                ctx.bump("file_bai_unwritable");
            }
            return;
        }
    };
    if !valid {
        ctx.fail("bai-file-roundtrip", format!("writer accepted an index with a bin id beyond u32: {desc}"), case.clone());
        return;
    }
    if let Err(what) = written_sane(&bytes, &layout_lin(&idx, false)) {
        ctx.fail("bai-file-roundtrip", format!("index {desc}: {what}"), case);
        return;
    }
    let back = guarded(|| bai_read(&bytes));
    match &back {
        Ok(Ok((b, rest))) if *b == idx && *rest == 0 => {}
        Ok(Ok((b, rest))) => ctx.fail("bai-file-roundtrip", format!("index {desc} read back as {} (rest {rest})", d_bai(b)), case.clone()),
        Ok(Err(e)) => ctx.fail("bai-file-roundtrip", format!("index {desc}: reader failed: {e}"), case.clone()),
        Err(p) => ctx.fail("bai-file-roundtrip", format!("index {desc}: reader panicked: {p}"), case.clone()),
    }
    ctx.corr(format!("c17 bai-parse {}", hex(&bytes)), ans_read(back, |(ix, rest)| format!("{} rest={}", d_bai(ix), rest)));
    // self-delimiting when the count is there: trailing bytes stay unread
    if idx.unplaced_unmapped_record_count().is_some() {
        let mut t = bytes.clone();
        let extra = 1 + rng.below(12) as usize;
        t.extend_from_slice(&rng.bytes(extra));
        let r = guarded(|| bai_read(&t));
        match &r {
            Ok(Ok((b, rest))) if *b == idx && *rest == extra => {}
            _ => ctx.fail("bai-file-roundtrip", format!("index {desc} followed by {extra} bytes: not read back equal with the bytes left"), case.clone()),
        }
        ctx.corr(format!("c17 bai-parse {}", hex(&t)), ans_read(r, |(ix, rest)| format!("{} rest={}", d_bai(ix), rest)));
    }
    if shape == 2 {
        linear_faults(ctx, &mut rng, "bai", &idx, &bytes, false);
    }
}

fn one_tbi(ctx: &mut Ctx, sub: u64) {
    let mut rng = Rng::new(sub ^ 0x7b1);
    let case = format!("ixfile tbi {sub}");
    let shape = shape_of(&mut rng);
    let (header, kind) = gen_header(&mut rng, shape == 2);
    let no_header = shape == 0 && rng.chance(1, 30);
    let h = if no_header { None } else { Some(header) };
    let (idx, ids_ok): (Lin, bool) = match shape {
        1 => (build_with_indexer::<LinearIndex>(&mut rng, 14, 5, h, Some(1 << 18)), true),
        s => gen_lin(&mut rng, s == 0, h),
    };
    let writable = ids_ok && !no_header && kind != HdrKind::Unwritable;
    let desc = d_tbi(&idx);
    let w = guarded(|| tbi_write(&idx));
    ctx.corr(format!("c17 tbi-bytes {desc}"), ans_bytes(&w));
    let nbin: usize = idx.reference_sequences().iter().map(|r| r.bins().len()).sum();
    ctx.eval(if nbin >= 2 { Some(fnv(case.as_bytes())) } else { None });
    ctx.bump(&format!("file_tbi_shape{shape}"));
    let bytes = match w {
        Ok(Ok(b)) => b,
        other => {
            if writable {
                ctx.fail("tabix-file-roundtrip", format!("writer refused a representable index {desc}: {:?}", other.map(|r| r.map(|_| ()).map_err(|e| e.to_string()))), case);
            } else {
                ctx.bump("file_tbi_unwritable");
            }
            return;
        }
    };
    if !writable {
        ctx.fail("tabix-file-roundtrip", format!("writer accepted an unrepresentable index: {desc}"), case.clone());
        return;
    }
    if let Err(what) = written_sane(&bytes, &layout_lin(&idx, true)) {
        ctx.fail("tabix-file-roundtrip", format!("index {desc}: {what}"), case);
        return;
    }
    let back = guarded(|| tbi_read(&bytes));
    match &back {
        Ok(Ok(b)) if *b == idx => {}
        // `end = Some(start)` cannot be said in the file: it comes back as `None`, nothing else moves
        Ok(Ok(b)) if kind == HdrKind::EndIsStart && d_tbi(b) == desc.replacen(&d_header(idx.header()), &d_header(Some(&normalised(idx.header().unwrap()))), 1) => ctx.bump("file_tbi_end_is_start"),
        Ok(Ok(b)) => ctx.fail("tabix-file-roundtrip", format!("index {desc} read back as {}", d_tbi(b)), case.clone()),
        Ok(Err(e)) => ctx.fail("tabix-file-roundtrip", format!("index {desc}: reader failed: {e}"), case.clone()),
        Err(p) => ctx.fail("tabix-file-roundtrip", format!("index {desc}: reader panicked: {p}"), case.clone()),
    }
    ctx.corr(format!("c17 tbi-parse {}", hex(&bytes)), ans_read(back, |ix| d_tbi(ix)));
    if shape == 2 {
        linear_faults(ctx, &mut rng, "tbi", &idx, &bytes, true);
    }
}

fn normalised(h: &Header) -> Header {
    Header::builder()
        .set_format(h.format())
        .set_reference_sequence_name_index(h.reference_sequence_name_index())
        .set_start_position_index(h.start_position_index())
        .set_end_position_index(None)
        .set_line_comment_prefix(h.line_comment_prefix())
        .set_line_skip_count(h.line_skip_count())
        .set_reference_sequence_names(h.reference_sequence_names().clone())
        .build()
}

/// 1-based end of the interval of bin `id`, by level arithmetic (independent of `bin_end`)
fn bin_interval_end(id: usize, ms: u8, d: u8) -> Option<u128> {
    let mut first = 0usize;
    for level in 0..=d as u32 {
        let count = 8usize.pow(level);
        if id < first + count {
            let k = (id - first) as u128;
            let sh = ms as u32 + 3 * (d as u32 - level);
            return Some(if sh >= 96 { u128::MAX } else { (k + 1) << sh });
        }
        first += count;
    }
    None
}

fn one_csi(ctx: &mut Ctx, sub: u64) {
    let mut rng = Rng::new(sub ^ 0xc51);
    let case = format!("ixfile csi {sub}");
    let shape = shape_of(&mut rng);
    let (header, kind) = gen_header(&mut rng, shape == 2);
    let h = if rng.chance(1, 2) { Some(header) } else { None };
    let writable = h.is_none() || kind != HdrKind::Unwritable;
    let end_is_start = h.is_some() && kind == HdrKind::EndIsStart;
    let aligned = shape != 0 || rng.chance(2, 3);
    let idx: Csi = match shape {
        1 => {
            let (ms, d) = *rng.pick(&[(14u8, 5u8), (14, 6), (12, 5), (16, 4), (10, 6), (4, 2), (1, 1), (3, 3)]);
            build_with_indexer::<BinnedIndex>(&mut rng, ms, d, h, None)
        }
        s => gen_csi(&mut rng, s == 0, aligned, h),
    };
    let (ms, d) = (idx.min_shift(), idx.depth());
    let ids_ok = idx.reference_sequences().iter().all(|r| r.bins().keys().all(|&k| k <= u32::MAX as usize));
    let desc = d_csi(&idx);
    let w = guarded(|| csi_write(&idx));
    ctx.corr(format!("c17 csi-bytes {desc}"), ans_bytes(&w));
    let nbin: usize = idx.reference_sequences().iter().map(|r| r.bins().len()).sum();
    ctx.eval(if nbin >= 2 { Some(fnv(case.as_bytes())) } else { None });
    ctx.bump(&format!("file_csi_shape{shape}"));
    let bytes = match w {
        Ok(Ok(b)) => b,
        other => {
            if writable && ids_ok {
                ctx.fail("csi-file-roundtrip", format!("writer refused a representable index {desc}: {:?}", other.map(|r| r.map(|_| ()).map_err(|e| e.to_string()))), case);
            } else {
                ctx.bump("file_csi_unwritable");
            }
            return;
        }
    };
    if !(writable && ids_ok) {
        ctx.fail("csi-file-roundtrip", format!("writer accepted an unrepresentable index: {desc}"), case.clone());
        return;
    }
    if let Err(what) = written_sane(&bytes, &layout_csi(&idx)) {
        ctx.fail("csi-file-roundtrip", format!("index {desc}: {what}"), case);
        return;
    }
    let back = guarded(|| csi_read(&bytes));
    ctx.corr(format!("c17 csi-parse {}", hex(&bytes)), ans_read(guarded(|| csi_read(&bytes)), |ix| d_csi(ix)));
    // a geometry outside what the formulas are defined for (min_shift 0, min_shift + 3·depth
    // beyond the word size, depth beyond the documented maximum 10) is not a structurally valid
    // index: the reader must answer it with an error (never a panic), and nothing is compared
    let valid_geometry = ms > 0 && u32::from(ms) + 3 * u32::from(d) < 64 && d <= 10;
    match back {
        Ok(Err(_)) if !valid_geometry => ctx.bump("file_csi_invalid_geometry_rejected"),
        Ok(Ok(_)) if !valid_geometry => ctx.fail("csi-file-roundtrip", format!("index {desc}: the reader accepted the geometry ({ms},{d}) that no query is defined for"), case.clone()),
        Ok(Ok(b)) => csi_oracle(ctx, &mut rng, &idx, &b, aligned, end_is_start, &desc, &case),
        Ok(Err(e)) => ctx.fail("csi-file-roundtrip", format!("index {desc}: reader failed: {e}"), case.clone()),
        Err(p) => ctx.fail("csi-file-roundtrip", format!("index {desc}: reader panicked: {p}"), case.clone()),
    }
    if shape == 2 {
        let lay = layout_csi(&idx);
        if lay.at != bytes.len() {
            ctx.bump("file_csi_layout_mismatch");
        } else if all_words_small(&bytes, &lay) {
            for (tag, m) in faults(&mut rng, &bytes, &lay, idx.reference_sequences().len(), Bin::metadata_id(d) as u32) {
                let ans = ans_read(guarded(|| csi_read(&m)), |ix| d_csi(ix));
                ctx.bump(&format!("file_csi_fault_{tag}_{}", ans.split(' ').next().unwrap()));
                ctx.corr(format!("c17 csi-parse {}", hex(&m)), ans);
            }
        }
    }
    let _ = ms;
}

/// what the property asks of a CSI write + read: nothing but the loffsets moves, and no
/// `min_offset` / `query` answer changes
#[allow(clippy::too_many_arguments)]
fn csi_oracle(ctx: &mut Ctx, rng: &mut Rng, a: &Csi, b: &Csi, aligned: bool, end_is_start: bool, desc: &str, case: &str) {
    let (ms, d) = (a.min_shift(), a.depth());
    let fail = |ctx: &mut Ctx, what: String| ctx.fail("csi-file-roundtrip", format!("index {desc}: {what}"), case.into());
    if (b.min_shift(), b.depth()) != (ms, d) {
        return fail(ctx, format!("geometry read back as ({},{})", b.min_shift(), b.depth()));
    }
    let ha = if end_is_start { a.header().map(normalised) } else { a.header().cloned() };
    if ha.as_ref() != b.header() {
        return fail(ctx, format!("header read back as {}", d_header(b.header())));
    }
    if a.unplaced_unmapped_record_count() != b.unplaced_unmapped_record_count() {
        return fail(ctx, "unplaced count changed".into());
    }
    if a.reference_sequences().len() != b.reference_sequences().len() {
        return fail(ctx, "reference sequence count changed".into());
    }
    let mp = maxpos(ms.min(40), d.min(6)).min(1 << 45).max(1);
    for (rid, (ra, rb)) in a.reference_sequences().iter().zip(b.reference_sequences()).enumerate() {
        if ra.bins() != rb.bins() || ra.bins().keys().ne(rb.bins().keys()) {
            return fail(ctx, format!("bins of reference {rid} changed: {}", d_bins(rb.bins())));
        }
        if ra.metadata() != rb.metadata() {
            return fail(ctx, format!("metadata of reference {rid} changed: {}", d_md(rb.metadata())));
        }
        if rb.index().keys().ne(ra.bins().keys()) {
            return fail(ctx, format!("loffset map of reference {rid} does not list the bins: {}", d_refcsi(rb)));
        }
        if !aligned {
            continue;
        }
        // min_offset at every boundary of a present bin's interval, and at random positions
        let mut starts: Vec<usize> = vec![1, mp];
        for &id in ra.bins().keys() {
            if let Some(e) = bin_interval_end(id, ms, d) {
                for s in [e.saturating_sub(1), e, e.saturating_add(1)] {
                    if s >= 1 && s <= mp as u128 {
                        starts.push(s as usize);
                    }
                }
            }
        }
        for _ in 0..4 {
            starts.push(rng.range(1, mp as u64) as usize);
        }
        for s in starts {
            let (x, y) = (u64::from(ra.min_offset(ms, d, pos(s))), u64::from(rb.min_offset(ms, d, pos(s))));
            ctx.oracle_evals += 1;
            if x != y {
                return fail(ctx, format!("min_offset(reference {rid}, start {s}) was {x}, is {y} after write+read"));
            }
        }
        // query answers (only where `query` is defined: ids inside the geometry, depth within its assert)
        if d <= 6 && ms >= 1 && ms <= 20 && ra.bins().keys().all(|&k| k < Bin::max_id(d)) {
            let mpq = maxpos(ms, d);
            for _ in 0..4 {
                let (s, e) = (rng.range(1, mpq as u64) as usize, rng.range(1, mpq as u64) as usize);
                let iv = noodles_core::region::Interval::from(pos(s.min(e))..=pos(s.max(e)));
                let qa = guarded(|| a.query(rid, iv).map(|c| fmt_chunks(&c)).map_err(|e| errclass(&e)));
                let qb = guarded(|| b.query(rid, iv).map(|c| fmt_chunks(&c)).map_err(|e| errclass(&e)));
                ctx.oracle_evals += 1;
                if qa != qb {
                    return fail(ctx, format!("query(reference {rid}, {}-{}) was {qa:?}, is {qb:?} after write+read", s.min(e), s.max(e)));
                }
            }
        }
    }
}

// ------------------------------------------------------------------ text formats

/// pieces of fai names: any bytes but TAB and LF — spaces, CR, NUL, multi-byte UTF-8, and bytes
/// that are not UTF-8 at all (a lone continuation byte, a truncated sequence, 0xFF)
const FAI_NAME_PIECES: &[&[u8]] = &[
    b"sq", b"chr", b"1", b"0", b"X", b"_", b"|", b":", b" ", b"\r", b"+", b"-", "é".as_bytes(), "ß".as_bytes(), "日本".as_bytes(), "🧬".as_bytes(), b"\0", b"\x7f", b"a b",
    b"\xff", b"\x80", b"\xc3", b"\xe6\x97", b"\xf0\x9f\xa7",
];

fn text_faults(rng: &mut Rng, text: &[u8], ascii_only: bool) -> Vec<Vec<u8>> {
    let mut out = vec![];
    let alphabet: &[u8] = b"0123456789+-\t\n\r x\0";
    let pickb = |rng: &mut Rng| -> u8 {
        if !ascii_only && rng.chance(1, 4) { 0x80 + rng.below(128) as u8 } else { *rng.pick(alphabet) }
    };
    if text.is_empty() {
        return vec![vec![pickb(rng)], b"\n".to_vec(), b"\r\n".to_vec()];
    }
    for _ in 0..3 {
        let mut m = text.to_vec();
        let p = rng.below(m.len() as u64) as usize;
        m[p] = pickb(rng);
        out.push(m);
    }
    for _ in 0..2 {
        let mut m = text.to_vec();
        let p = rng.below(m.len() as u64 + 1) as usize;
        m.insert(p, pickb(rng));
        out.push(m);
    }
    for _ in 0..2 {
        let mut m = text.to_vec();
        m.remove(rng.below(m.len() as u64) as usize);
        out.push(m);
    }
    out.push(text[..rng.below(text.len() as u64) as usize].to_vec());
    // CRLF line ends; no final newline
    let crlf: Vec<u8> = text.iter().flat_map(|&b| if b == b'\n' { vec![b'\r', b'\n'] } else { vec![b] }).collect();
    out.push(crlf);
    out.push(text[..text.len() - 1].to_vec());
    out
}

fn d_fai(ix: &noodles_fasta::fai::Index) -> String {
    join_or_dash(
        ix.as_ref().iter().map(|r| format!("{},{},{},{},{}", d_name(r.name().as_ref()), r.length(), r.position(), r.line_base_count(), r.line_width())).collect(),
        ";",
    )
}
fn fai_write(ix: &noodles_fasta::fai::Index) -> io::Result<Vec<u8>> {
    let mut w = noodles_fasta::fai::io::Writer::new(Vec::new());
    w.write_index(ix)?;
    Ok(w.into_inner())
}
fn fai_read(b: &[u8]) -> io::Result<noodles_fasta::fai::Index> {
    noodles_fasta::fai::io::Reader::new(b).read_index()
}

fn one_fai(ctx: &mut Ctx, sub: u64) {
    use noodles_fasta::fai;
    use std::num::NonZero;
    let mut rng = Rng::new(sub ^ 0xfa1);
    let case = format!("ixfile fai {sub}");
    let k = rng.below(5);
    let big = rng.chance(1, 3);
    let recs: Vec<fai::Record> = (0..k)
        .map(|_| {
            // any text without TAB / LF (incl. spaces, CR, NUL, multi-byte UTF-8)
            let name: Vec<u8> = (0..rng.below(5)).flat_map(|_| rng.pick(FAI_NAME_PIECES).to_vec()).collect();
            let nz = |rng: &mut Rng| NonZero::new(gen_u64(rng, big).max(1)).unwrap();
            fai::Record::new(name, gen_u64(&mut rng, big), gen_u64(&mut rng, big), nz(&mut rng), nz(&mut rng))
        })
        .collect();
    let idx = fai::Index::from(recs);
    let desc = d_fai(&idx);
    let w = guarded(|| fai_write(&idx));
    ctx.corr(format!("c17 fai-bytes {desc}"), ans_bytes(&w));
    ctx.eval(if k >= 2 { Some(fnv(desc.as_bytes())) } else { None });
    ctx.bump("file_fai");
    let Ok(Ok(bytes)) = w else {
        ctx.fail("fai-file-roundtrip", format!("writer failed on {desc}"), case);
        return;
    };
    let back = guarded(|| fai_read(&bytes));
    // names that are not UTF-8 have a class of their own (known finding F34: the readers push
    // the whole line through `str`)
    let utf8 = idx.as_ref().iter().all(|r| std::str::from_utf8(r.name().as_ref()).is_ok());
    let class = if utf8 { "fai-file-roundtrip" } else { "fai-non-utf8-name" };
    ctx.bump(if utf8 { "file_fai_names_utf8" } else { "file_fai_names_not_utf8" });
    match &back {
        Ok(Ok(b)) if *b == idx => {}
        Ok(Ok(b)) => ctx.fail(class, format!("index {desc} read back as {}", d_fai(b)), case.clone()),
        Ok(Err(e)) => ctx.fail(class, format!("index {desc}: reader failed: {e}"), case.clone()),
        Err(p) => ctx.fail(class, format!("index {desc}: reader panicked: {p}"), case.clone()),
    }
    ctx.corr(format!("c17 fai-parse {}", hex(&bytes)), ans_read(back, d_fai));
    for m in text_faults(&mut rng, &bytes, false) {
        let ans = ans_read(guarded(|| fai_read(&m)), d_fai);
        ctx.bump(&format!("file_fai_fault_{}", ans.split(' ').next().unwrap()));
        ctx.corr(format!("c17 fai-parse {}", hex(&m)), ans);
    }
}

/// Names that are not UTF-8. The FASTA indexer reads definition lines as bytes, so such names
/// are reachable from an indexer; `fai::Record::name` is a `BStr`. Class of its own (known finding F34): the
/// readers push every line through `str` and cannot read them back.
fn fai_from_fasta(ctx: &mut Ctx) {
    use noodles_fasta as fasta;
    let fastas: &[&[u8]] = &[
        b">sq0\nACGT\n>sq\xff1 desc\nACGTAC\nAC\n",
        b">\xe9\xe8\nAC\n",
        b">ok\nACGT\n>caf\xc3\xa9\nACGT\n>\x80\nA\n",
    ];
    for (i, src) in fastas.iter().enumerate() {
        let case = format!("ixfile fai-fasta {i}");
        let built = guarded(|| -> io::Result<fasta::fai::Index> {
            let mut ixr = fasta::io::Indexer::new(&src[..]);
            let mut recs = vec![];
            while let Some(r) = ixr.index_record().map_err(|e| io::Error::new(io::ErrorKind::InvalidData, e.to_string()))? {
                recs.push(r);
            }
            Ok(fasta::fai::Index::from(recs))
        });
        let Ok(Ok(idx)) = built else {
            ctx.bump("file_fai_fasta_not_indexable");
            continue;
        };
        let desc = d_fai(&idx);
        ctx.eval(Some(fnv(desc.as_bytes())));
        ctx.bump("file_fai_fasta");
        let w = guarded(|| fai_write(&idx));
        ctx.corr(format!("c17 fai-bytes {desc}"), ans_bytes(&w));
        let Ok(Ok(bytes)) = w else { continue };
        let back = guarded(|| fai_read(&bytes));
        match &back {
            Ok(Ok(b)) if *b == idx => {}
            other => ctx.fail(
                if idx.as_ref().iter().all(|r| std::str::from_utf8(r.name().as_ref()).is_ok()) { "fai-file-roundtrip" } else { "fai-non-utf8-name" },
                format!("index {desc} built by the FASTA indexer is written but read back as {:?}", other.as_ref().map(|r| r.as_ref().map(d_fai).map_err(|e| e.to_string()))),
                case.clone(),
            ),
        }
        ctx.corr(format!("c17 fai-parse {}", hex(&bytes)), ans_read(back, d_fai));
    }
}

fn d_crai(ix: &[noodles_cram::crai::Record]) -> String {
    join_or_dash(
        ix.iter()
            .map(|r| {
                format!(
                    "{},{},{},{},{},{}",
                    d_opt(r.reference_sequence_id().map(|n| n as u64)),
                    r.alignment_start().map(usize::from).unwrap_or(0),
                    r.alignment_span(),
                    r.offset(),
                    r.landmark(),
                    r.slice_length()
                )
            })
            .collect(),
        ";",
    )
}
fn crai_write(ix: &[noodles_cram::crai::Record]) -> io::Result<Vec<u8>> {
    let mut w = noodles_cram::crai::io::Writer::new(Vec::new());
    w.write_index(ix)?;
    let gz = w.finish()?;
    let mut text = vec![];
    flate2::read::MultiGzDecoder::new(&gz[..]).read_to_end(&mut text)?;
    Ok(text)
}
fn crai_read(text: &[u8]) -> io::Result<Vec<noodles_cram::crai::Record>> {
    let mut e = flate2::write::GzEncoder::new(Vec::new(), flate2::Compression::default());
    e.write_all(text)?;
    let gz = e.finish()?;
    noodles_cram::crai::io::Reader::new(&gz[..]).read_index()
}

fn one_crai(ctx: &mut Ctx, sub: u64) {
    use noodles_cram::crai;
    use noodles_core::Position;
    let mut rng = Rng::new(sub ^ 0xc4a1);
    let case = format!("ixfile crai {sub}");
    let k = rng.below(5);
    let big = rng.chance(1, 3);
    let recs: Vec<crai::Record> = (0..k)
        .map(|_| {
            let rid = match rng.below(5) {
                0 => None,
                1 => Some((1usize << 31) - 1),
                2 => Some(0),
                _ => Some(rng.below(100) as usize),
            };
            let start = if rng.chance(1, 4) { None } else { Position::new(gen_u64(&mut rng, big) as usize) };
            crai::Record::new(rid, start, gen_u64(&mut rng, big) as usize, gen_u64(&mut rng, big), gen_u64(&mut rng, big), gen_u64(&mut rng, big))
        })
        .collect();
    let desc = d_crai(&recs);
    let w = guarded(|| crai_write(&recs));
    ctx.corr(format!("c17 crai-bytes {desc}"), ans_bytes(&w));
    ctx.eval(if k >= 2 { Some(fnv(desc.as_bytes())) } else { None });
    ctx.bump("file_crai");
    let Ok(Ok(text)) = w else {
        ctx.fail("crai-file-roundtrip", format!("writer failed on {desc}"), case);
        return;
    };
    let back = guarded(|| crai_read(&text));
    match &back {
        Ok(Ok(b)) if *b == recs => {}
        Ok(Ok(b)) => ctx.fail("crai-file-roundtrip", format!("index {desc} read back as {}", d_crai(b)), case.clone()),
        Ok(Err(e)) => ctx.fail("crai-file-roundtrip", format!("index {desc}: reader failed: {e}"), case.clone()),
        Err(p) => ctx.fail("crai-file-roundtrip", format!("index {desc}: reader panicked: {p}"), case.clone()),
    }
    ctx.corr(format!("c17 crai-parse {}", hex(&text)), ans_read(back, |v| d_crai(v)));
    for m in text_faults(&mut rng, &text, false) {
        let ans = ans_read(guarded(|| crai_read(&m)), |v| d_crai(v));
        ctx.bump(&format!("file_crai_fault_{}", ans.split(' ').next().unwrap()));
        ctx.corr(format!("c17 crai-parse {}", hex(&m)), ans);
    }
}

// ------------------------------------------------------------------ hand-written boundary cases, run first

fn corpus(ctx: &mut Ctx) {
    // text: what `str::parse` accepts and the line discipline
    let fai_cases: &[&[u8]] = &[
        b"",
        b"sq0\t10946\t4\t80\t81\n",
        b"sq0\t10946\t4\t80\t81",
        b"sq0\t10946\t4\t80\t81\r\n",
        b"sq0\t10946\t4\t80\t81\r",
        b"sq0\t+10946\t004\t+80\t81\n",
        b"sq0\t-1\t4\t80\t81\n",
        b"sq0\t1\t4\t0\t81\n",
        b"sq0\t1\t4\t80\t0\n",
        b"sq0\t18446744073709551615\t18446744073709551615\t18446744073709551615\t18446744073709551615\n",
        b"sq0\t18446744073709551616\t4\t80\t81\n",
        b"\t1\t2\t3\t4\n",
        b"\n",
        b"\r\n",
        b"sq0\t1\t2\t3\t4\n\n",
        b"sq0\t1\t2\t3\n",
        b"sq0\t1\t2\t3\t4\t5\n",
        b"sq0\t\t2\t3\t4\n",
        b"sq0\t+\t2\t3\t4\n",
        b"sq0\t1 \t2\t3\t4\n",
        b"a b\rc\t1\t2\t3\t4\nsq1\t5\t6\t7\t8\n",
        "caf\u{e9}\t1\t2\t3\t4\n".as_bytes(),
    ];
    for c in fai_cases {
        ctx.corr(format!("c17 fai-parse {}", hex(c)), ans_read(guarded(|| fai_read(c)), d_fai));
        ctx.bump("file_corpus");
    }
    let crai_cases: &[&[u8]] = &[
        b"",
        b"0\t10946\t6765\t17711\t233\t317811\n",
        b"-1\t0\t0\t1869\t13\t0\n",
        b"-1\t0\t0\t1869\t13\t0",
        b"-1\t0\t0\t1869\t13\t0\r\n",
        b"-1\t0\t0\t1869\t13\t0\r",
        b"-0\t1\t2\t3\t4\t5\n",
        b"-01\t1\t2\t3\t4\t5\n",
        b"-2\t1\t2\t3\t4\t5\n",
        b"+7\t+1\t+2\t+3\t+4\t+5\n",
        b"2147483647\t1\t2\t3\t4\t5\n",
        b"2147483648\t1\t2\t3\t4\t5\n",
        b"-2147483648\t1\t2\t3\t4\t5\n",
        b"-2147483649\t1\t2\t3\t4\t5\n",
        b"0\t18446744073709551615\t18446744073709551615\t18446744073709551615\t18446744073709551615\t18446744073709551615\n",
        b"0\t18446744073709551616\t2\t3\t4\t5\n",
        b"0\t-1\t2\t3\t4\t5\n",
        b"0\n",
        b"0\t1\n",
        b"0\t1\t2\t3\t4\n",
        b"0\t1\t2\t3\t4\t5\t6\n",
        b"x\n",
        b"0\tx\n",
        b"\n",
        b"0\t1\t2\t3\t4\t5\n\n",
        b"0\t1\t2\t3\t4\t\n",
        b"\xff\n",
        b"0\t1\t2\t3\t4\t5\n0\t1\t\xc3\n",
    ];
    for c in crai_cases {
        ctx.corr(format!("c17 crai-parse {}", hex(c)), ans_read(guarded(|| crai_read(c)), |v| d_crai(v)));
        ctx.bump("file_corpus");
    }
    // binary: hand-assembled files
    fn le32(v: u32) -> Vec<u8> {
        v.to_le_bytes().to_vec()
    }
    fn le64(v: u64) -> Vec<u8> {
        v.to_le_bytes().to_vec()
    }
    let cat = |parts: &[Vec<u8>]| -> Vec<u8> { parts.concat() };
    let md = |id: u32| cat(&[le32(id), le32(2), le64(1), le64(2), le64(3), le64(4)]);
    let bai_cases: Vec<Vec<u8>> = vec![
        vec![],
        b"BAI\x01".to_vec(),
        b"BAI\x02\0\0\0\0".to_vec(),
        b"BAI\x01\0\0\0\0".to_vec(),
        cat(&[b"BAI\x01".to_vec(), le32(0), le64(7)]),
        cat(&[b"BAI\x01".to_vec(), le32(0), vec![1, 2, 3]]),
        // metadata first, then a bin: the reader takes the pseudo-bin wherever it is
        cat(&[b"BAI\x01".to_vec(), le32(1), le32(2), md(37450), le32(0), le32(1), le64(5), le64(6), le32(0)]),
        // two metadata entries
        cat(&[b"BAI\x01".to_vec(), le32(1), le32(2), md(37450), md(37450), le32(0)]),
        // the same bin twice
        cat(&[b"BAI\x01".to_vec(), le32(1), le32(2), le32(9), le32(0), le32(9), le32(0), le32(0)]),
        // metadata with n_chunk = 3
        cat(&[b"BAI\x01".to_vec(), le32(1), le32(1), le32(37450), le32(3), le64(1), le64(2), le64(3), le64(4), le32(0)]),
        // n_chunk negative as an i32
        cat(&[b"BAI\x01".to_vec(), le32(1), le32(1), le32(9), le32(0xFFFF_FFFF), le32(0)]),
        // bin id 0xFFFFFFFF, empty chunk list, one linear offset of u64::MAX
        cat(&[b"BAI\x01".to_vec(), le32(1), le32(1), le32(0xFFFF_FFFF), le32(0), le32(1), le64(u64::MAX)]),
        // truncated inside a chunk (the error is wrapped) and inside the intervals (it is not)
        cat(&[b"BAI\x01".to_vec(), le32(1), le32(1), le32(9), le32(1), le64(5)]),
        cat(&[b"BAI\x01".to_vec(), le32(1), le32(0), le32(2), le64(5)]),
    ];
    for c in &bai_cases {
        ctx.corr(format!("c17 bai-parse {}", hex(c)), ans_read(guarded(|| bai_read(c)), |(ix, rest)| format!("{} rest={}", d_bai(ix), rest)));
        ctx.bump("file_corpus");
    }
    let hdr = |fmt: u32, seq: u32, beg: u32, end: u32, meta: u32, skip: u32, names: &[u8]| cat(&[le32(fmt), le32(seq), le32(beg), le32(end), le32(meta), le32(skip), le32(names.len() as u32), names.to_vec()]);
    let tbi_cases: Vec<Vec<u8>> = vec![
        b"TBI\x01".to_vec(),
        cat(&[b"TBI\x01".to_vec(), le32(0), hdr(2, 1, 2, 0, 35, 0, b"sq0\0sq1\0")]),
        cat(&[b"TBI\x01".to_vec(), le32(0), hdr(2, 1, 2, 0, 35, 0, b"sq0\0sq1\0"), le64(9)]),
        cat(&[b"TBI\x01".to_vec(), le32(0), hdr(0x10000, 1, 2, 3, 35, 0, b"\xff\x01\0\0")]),
        cat(&[b"TBI\x01".to_vec(), le32(0), hdr(0, 1, 4, 5, 35, 0, b"")]),
        cat(&[b"TBI\x01".to_vec(), le32(0), hdr(0, 1, 4, 4, 35, 0, b"")]),
        cat(&[b"TBI\x01".to_vec(), le32(0), hdr(1, 3, 4, 5, 64, 0, b"")]),
        cat(&[b"TBI\x01".to_vec(), le32(0), hdr(0x10001, 3, 4, 0, 64, 0, b"")]),
        cat(&[b"TBI\x01".to_vec(), le32(0), hdr(3, 1, 2, 0, 35, 0, b"")]),
        cat(&[b"TBI\x01".to_vec(), le32(0), hdr(0x20000, 1, 2, 3, 35, 0, b"")]),
        cat(&[b"TBI\x01".to_vec(), le32(0), hdr(2, 0, 2, 0, 35, 0, b"")]),
        cat(&[b"TBI\x01".to_vec(), le32(0), hdr(2, 1, 2, 0, 256, 0, b"")]),
        cat(&[b"TBI\x01".to_vec(), le32(0), hdr(2, 1, 2, 0, 35, 0x8000_0000, b"")]),
        cat(&[b"TBI\x01".to_vec(), le32(0), hdr(2, 1, 2, 0, 35, 0, b"sq0\0sq0\0")]),
        cat(&[b"TBI\x01".to_vec(), le32(0), hdr(2, 1, 2, 0, 35, 0, b"sq0\0sq1")]),
        // l_nm larger than what is left: the names `Take` is not used up — `UnexpectedEof` since /repo fix
        // 125ecd7, `InvalidData` out of `read_index` (before: the names that were there)
        cat(&[b"TBI\x01".to_vec(), le32(0), le32(2), le32(1), le32(2), le32(0), le32(35), le32(0), le32(100), b"sq0\0".to_vec()]),
        cat(&[b"TBI\x01".to_vec(), le32(0xFFFF_FFFF), hdr(2, 1, 2, 0, 35, 0, b"")]),
        // one reference: bin, metadata, interval
        cat(&[b"TBI\x01".to_vec(), le32(1), hdr(2, 1, 2, 0, 35, 0, b"sq0\0"), le32(2), le32(4681), le32(1), le64(10), le64(20), md(37450), le32(1), le64(10), le64(3)]),
    ];
    for c in &tbi_cases {
        ctx.corr(format!("c17 tbi-parse {}", hex(c)), ans_read(guarded(|| tbi_read(c)), |ix| d_tbi(ix)));
        ctx.bump("file_corpus");
    }
    let csi_hdr = |ms: u32, d: u32, aux: Vec<u8>| cat(&[b"CSI\x01".to_vec(), le32(ms), le32(d), le32(aux.len() as u32), aux]);
    let csi_md = |id: u32| cat(&[le32(id), le64(0), le32(2), le64(1), le64(2), le64(3), le64(4)]);
    let csi_cases: Vec<Vec<u8>> = vec![
        b"CSI\x01".to_vec(),
        b"CSJ\x01\0\0\0\0\0\0\0\0\0\0\0\0\0\0\0\0".to_vec(),
        cat(&[csi_hdr(14, 5, vec![]), le32(0)]),
        cat(&[csi_hdr(14, 5, vec![]), le32(0), le64(5)]),
        cat(&[csi_hdr(256, 5, vec![]), le32(0)]),
        cat(&[csi_hdr(14, 0xFFFF_FFFF, vec![]), le32(0)]),
        cat(&[csi_hdr(14, 5, hdr(2, 1, 2, 0, 35, 0, b"sq0\0")), le32(0)]),
        // aux longer than the header in it: the extra bytes are skipped since /repo fix 8288cb5 (before: read
        // as n_ref); 4 bytes of padding, 3 bytes of padding that are not zero, padding cut short by the end
        cat(&[b"CSI\x01".to_vec(), le32(14), le32(5), le32(36), hdr(2, 1, 2, 0, 35, 0, b"sq0\0"), le32(0), le32(0)]),
        cat(&[b"CSI\x01".to_vec(), le32(14), le32(5), le32(35), hdr(2, 1, 2, 0, 35, 0, b"sq0\0"), vec![7, 7, 7], le32(0), le64(5)]),
        cat(&[b"CSI\x01".to_vec(), le32(14), le32(5), le32(40), hdr(2, 1, 2, 0, 35, 0, b"sq0\0"), le32(0)]),
        // l_nm reaches beyond l_aux: the names `Take` is cut short by the aux `Take` (fix 125ecd7: an error)
        cat(&[b"CSI\x01".to_vec(), le32(14), le32(5), le32(30), le32(2), le32(1), le32(2), le32(0), le32(35), le32(0), le32(4), b"a\0b\0".to_vec(), le32(0)]),
        // aux shorter than a header
        cat(&[b"CSI\x01".to_vec(), le32(14), le32(5), le32(8), le32(2), le32(1), le32(0)]),
        // the F4 layout: a leaf and its parent; metadata; depth 5 and depth 1 pseudo-bin ids
        cat(&[csi_hdr(14, 5, vec![]), le32(1), le32(3), le32(4681), le64(200), le32(1), le64(200), le64(300), le32(585), le64(100), le32(1), le64(100), le64(200), csi_md(37450), le64(0)]),
        cat(&[csi_hdr(14, 1, vec![]), le32(1), le32(2), csi_md(10), le32(1), le64(7), le32(0)]),
        cat(&[csi_hdr(14, 1, vec![]), le32(1), le32(2), csi_md(10), csi_md(10)]),
        cat(&[csi_hdr(14, 1, vec![]), le32(1), le32(2), le32(3), le64(7), le32(0), le32(3), le64(8), le32(0)]),
        cat(&[csi_hdr(14, 1, vec![]), le32(1), le32(0xFFFF_FFFF)]),
        cat(&[csi_hdr(14, 1, vec![]), le32(0xFFFF_FFFF)]),
    ];
    for c in &csi_cases {
        ctx.corr(format!("c17 csi-parse {}", hex(c)), ans_read(guarded(|| csi_read(c)), |ix| d_csi(ix)));
        ctx.bump("file_corpus");
    }
    // the F4 layout through the real writer: the leaf's loffset comes out as its parent's
    let bins: IndexMap<usize, Bin> = [(4681, Bin::new(vec![ch(200, 300)])), (585, Bin::new(vec![ch(100, 200)]))].into_iter().collect();
    let index: BinnedIndex = [(4681, vp(200)), (585, vp(100))].into_iter().collect();
    let f4: Csi = binning_index::Index::builder()
        .set_min_shift(14)
        .set_depth(5)
        .set_reference_sequences(vec![ReferenceSequence::new(bins, index, None)])
        .build();
    ctx.corr(format!("c17 csi-bytes {}", d_csi(&f4)), ans_bytes(&guarded(|| csi_write(&f4))));
    ctx.bump("file_corpus");
}
