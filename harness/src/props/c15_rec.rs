//! C15, extension C15rec (CRAM compression header, data-series decoders and record decoder on hostile
//! input): facade. The implementation is `c07_enc/c15_rec.rs`, a child module of `c07_enc` so that it
//! can use that module's private generators, serialisers and formatters.
use crate::common::*;

pub fn run(ctx: &mut Ctx) {
    super::c07_enc::c15_rec::run(ctx)
}

/// true if the case words were this extension's (`rec …`)
pub fn replay(ctx: &mut Ctx, case: &[String]) -> bool {
    super::c07_enc::c15_rec::replay(ctx, case)
}
